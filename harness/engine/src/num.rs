//! Small, deliberately naive numeric reference code shared by the oracles.

pub fn close(a: f64, b: f64, rel: f64, abs: f64) -> bool {
    if a == b {
        return true;
    }
    if !a.is_finite() || !b.is_finite() {
        return false;
    }
    (a - b).abs() <= abs + rel * a.abs().max(b.abs())
}

pub type Mat = Vec<Vec<f64>>;

pub fn zeros(n: usize, m: usize) -> Mat {
    vec![vec![0.0; m]; n]
}

pub fn transpose(a: &Mat) -> Mat {
    if a.is_empty() {
        return vec![];
    }
    let (n, m) = (a.len(), a[0].len());
    let mut t = zeros(m, n);
    for i in 0..n {
        for j in 0..m {
            t[j][i] = a[i][j];
        }
    }
    t
}

pub fn matmul(a: &Mat, b: &Mat) -> Mat {
    let n = a.len();
    let k = if n > 0 { a[0].len() } else { 0 };
    let m = if !b.is_empty() { b[0].len() } else { 0 };
    let mut c = zeros(n, m);
    for i in 0..n {
        for l in 0..k {
            let ail = a[i][l];
            for j in 0..m {
                c[i][j] += ail * b[l][j];
            }
        }
    }
    c
}

pub fn col_means(a: &Mat) -> Vec<f64> {
    if a.is_empty() {
        return vec![];
    }
    let p = a[0].len();
    let mut m = vec![0.0; p];
    for r in a {
        for j in 0..p {
            m[j] += r[j];
        }
    }
    for v in m.iter_mut() {
        *v /= a.len() as f64;
    }
    m
}

/// Sample covariance (divisor n - ddof) of the rows of `a`.
pub fn covariance(a: &Mat, ddof: f64) -> Mat {
    let n = a.len();
    let p = if n > 0 { a[0].len() } else { 0 };
    let mu = col_means(a);
    let mut c = zeros(p, p);
    for r in a {
        for i in 0..p {
            for j in 0..p {
                c[i][j] += (r[i] - mu[i]) * (r[j] - mu[j]);
            }
        }
    }
    for i in 0..p {
        for j in 0..p {
            c[i][j] /= n as f64 - ddof;
        }
    }
    c
}

/// Solve A x = b by Gaussian elimination with partial pivoting. None when singular.
pub fn solve(a: &Mat, b: &[f64]) -> Option<Vec<f64>> {
    let n = a.len();
    let mut m: Mat = a
        .iter()
        .zip(b)
        .map(|(r, &bi)| {
            let mut r = r.clone();
            r.push(bi);
            r
        })
        .collect();
    for c in 0..n {
        let mut piv = c;
        for r in c + 1..n {
            if m[r][c].abs() > m[piv][c].abs() {
                piv = r;
            }
        }
        if m[piv][c].abs() < 1e-300 {
            return None;
        }
        m.swap(c, piv);
        for r in c + 1..n {
            let f = m[r][c] / m[c][c];
            if f != 0.0 {
                for k in c..=n {
                    m[r][k] -= f * m[c][k];
                }
            }
        }
    }
    let mut x = vec![0.0; n];
    for i in (0..n).rev() {
        let mut s = m[i][n];
        for k in i + 1..n {
            s -= m[i][k] * x[k];
        }
        x[i] = s / m[i][i];
    }
    Some(x)
}

/// Inverse via `solve` column by column.
pub fn inverse(a: &Mat) -> Option<Mat> {
    let n = a.len();
    let mut inv = zeros(n, n);
    for j in 0..n {
        let mut e = vec![0.0; n];
        e[j] = 1.0;
        let x = solve(a, &e)?;
        for i in 0..n {
            inv[i][j] = x[i];
        }
    }
    Some(inv)
}

/// Cholesky factor L (lower) of a symmetric matrix; None if not positive definite.
pub fn cholesky(a: &Mat) -> Option<Mat> {
    let n = a.len();
    let mut l = zeros(n, n);
    for i in 0..n {
        for j in 0..=i {
            let mut s = a[i][j];
            for k in 0..j {
                s -= l[i][k] * l[j][k];
            }
            if i == j {
                if !(s > 0.0) {
                    return None;
                }
                l[i][i] = s.sqrt();
            } else {
                l[i][j] = s / l[j][j];
            }
        }
    }
    Some(l)
}

/// Cyclic Jacobi eigen-decomposition of a symmetric matrix.
/// Returns (eigenvalues descending, eigenvectors as rows in the same order).
pub fn jacobi_eigh(a: &Mat) -> (Vec<f64>, Mat) {
    let n = a.len();
    let mut a = a.clone();
    let mut v = zeros(n, n);
    for i in 0..n {
        v[i][i] = 1.0;
    }
    for _sweep in 0..100 {
        let mut off = 0.0;
        for i in 0..n {
            for j in i + 1..n {
                off += a[i][j] * a[i][j];
            }
        }
        let mut diag = 0.0;
        for i in 0..n {
            diag += a[i][i] * a[i][i];
        }
        if off <= 1e-30 * diag.max(1e-300) {
            break;
        }
        for p in 0..n {
            for q in p + 1..n {
                if a[p][q] == 0.0 {
                    continue;
                }
                let theta = (a[q][q] - a[p][p]) / (2.0 * a[p][q]);
                let t = theta.signum() / (theta.abs() + (theta * theta + 1.0).sqrt());
                let t = if theta == 0.0 { 1.0 } else { t };
                let c = 1.0 / (t * t + 1.0).sqrt();
                let s = t * c;
                for k in 0..n {
                    let akp = a[k][p];
                    let akq = a[k][q];
                    a[k][p] = c * akp - s * akq;
                    a[k][q] = s * akp + c * akq;
                }
                for k in 0..n {
                    let apk = a[p][k];
                    let aqk = a[q][k];
                    a[p][k] = c * apk - s * aqk;
                    a[q][k] = s * apk + c * aqk;
                }
                for k in 0..n {
                    let vkp = v[k][p];
                    let vkq = v[k][q];
                    v[k][p] = c * vkp - s * vkq;
                    v[k][q] = s * vkp + c * vkq;
                }
            }
        }
    }
    let mut order: Vec<usize> = (0..n).collect();
    order.sort_by(|&i, &j| a[j][j].partial_cmp(&a[i][i]).unwrap());
    let vals = order.iter().map(|&i| a[i][i]).collect();
    let vecs = order
        .iter()
        .map(|&i| (0..n).map(|k| v[k][i]).collect())
        .collect();
    (vals, vecs)
}

pub fn dot(a: &[f64], b: &[f64]) -> f64 {
    a.iter().zip(b).map(|(x, y)| x * y).sum()
}

pub fn norm2(a: &[f64]) -> f64 {
    dot(a, a).sqrt()
}

#[cfg(test)]
mod tests {
    use super::*;
    #[test]
    fn jacobi_small() {
        let a = vec![vec![2.0, 1.0], vec![1.0, 2.0]];
        let (vals, vecs) = jacobi_eigh(&a);
        assert!((vals[0] - 3.0).abs() < 1e-12 && (vals[1] - 1.0).abs() < 1e-12);
        assert!((vecs[0][0].abs() - (0.5f64).sqrt()).abs() < 1e-12);
    }
    #[test]
    fn solve_small() {
        let a = vec![vec![2.0, 1.0], vec![1.0, 3.0]];
        let x = solve(&a, &[3.0, 5.0]).unwrap();
        assert!((x[0] - 0.8).abs() < 1e-12 && (x[1] - 1.4).abs() < 1e-12);
        let inv = inverse(&a).unwrap();
        let id = matmul(&a, &inv);
        assert!((id[0][0] - 1.0).abs() < 1e-12 && id[0][1].abs() < 1e-12);
        let l = cholesky(&a).unwrap();
        assert!((l[0][0] * l[0][0] - 2.0).abs() < 1e-12);
    }
}
