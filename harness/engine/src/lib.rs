//! vengine — the shared runner behind every `/verif/check Cxx` command.
//!
//! A property binary registers *sub-checks*. A sub-check is a generator (a proptest `Strategy`
//! or a finite enumeration) plus a check function that observes one generated case through an
//! [`Obs`]: it labels the case (classes), says whether it is non-trivial by the property's stated
//! rule, and records oracle failures with a *signature*. The engine
//!
//! * derives every random choice from `VERIF_SEED` (proptest `RngSeed::Fixed`, no persistence),
//! * runs every (sub-check, chunk) pair in a child process of the same binary so that a stack
//!   overflow / abort inside the code under test is observed as a finding with the journalled
//!   input instead of killing the check, and so that 16 cores are used,
//! * lets proptest shrink a failing case and stores the shrunk case as a JSON replay file,
//! * matches failure signatures against `/verif/known_findings.json` (status `known` entries are
//!   excluded by construction, counted and printed as `KNOWN-FINDING:` lines),
//! * writes `/verif/evidence/<id>.json` from what was measured in this run,
//! * exit 0 = held, exit 1 = `VIOLATION property=<id> replay=<path>`, exit 2 = inconclusive.

pub mod gen;
pub mod num;

use proptest::strategy::{BoxedStrategy, Strategy};
use proptest::test_runner::{Config, RngSeed, TestCaseError, TestError, TestRunner};
use serde::de::DeserializeOwned;
use serde::{Deserialize, Serialize};
use serde_json::{json, Value};
use std::cell::RefCell;
use std::collections::{BTreeMap, BTreeSet};
use std::io::Write;
use std::panic::{catch_unwind, AssertUnwindSafe};
use std::path::{Path, PathBuf};
use std::time::{Duration, Instant};

// ------------------------------------------------------------------------------------------------
// basic types

#[derive(Clone, Copy, Debug, PartialEq, Eq)]
pub enum Tier {
    Quick,
    Thorough,
}

impl Tier {
    pub fn name(self) -> &'static str {
        match self {
            Tier::Quick => "quick",
            Tier::Thorough => "thorough",
        }
    }
    pub fn pick<T>(self, quick: T, thorough: T) -> T {
        match self {
            Tier::Quick => quick,
            Tier::Thorough => thorough,
        }
    }
}

#[derive(Clone, Debug, Serialize, Deserialize)]
pub struct Fail {
    /// Signature: stable identifier of *what* failed (oracle branch), used for known-finding
    /// matching and for de-duplication. Never contains generated values.
    pub sig: String,
    /// Human readable detail (values, indices).
    pub msg: String,
}

/// Observer handed to the check function for one case.
#[derive(Default)]
pub struct Obs {
    pub classes: Vec<&'static str>,
    pub nontrivial: bool,
    pub fails: Vec<Fail>,
    pub skipped: bool,
}

thread_local! {
    static LAST_PANIC: RefCell<Option<String>> = RefCell::new(None);
}

impl Obs {
    pub fn class(&mut self, c: &'static str) {
        if !self.classes.contains(&c) {
            self.classes.push(c);
        }
    }
    pub fn class_if(&mut self, cond: bool, c: &'static str) {
        if cond {
            self.class(c)
        }
    }
    pub fn nontrivial(&mut self) {
        self.nontrivial = true;
    }
    pub fn nontrivial_if(&mut self, c: bool) {
        if c {
            self.nontrivial = true;
        }
    }
    /// Mark the case as not judged (e.g. solver did not converge); counted, never a failure.
    pub fn skip(&mut self, why: &'static str) {
        self.skipped = true;
        self.class(why);
    }
    pub fn fail(&mut self, sig: impl Into<String>, msg: impl Into<String>) {
        let sig = sig.into();
        if self.fails.len() < 16 && !self.fails.iter().any(|f| f.sig == sig) {
            self.fails.push(Fail {
                sig,
                msg: msg.into(),
            });
        }
    }
    pub fn ensure(&mut self, cond: bool, sig: &str, msg: impl FnOnce() -> String) -> bool {
        if !cond {
            let m = msg();
            self.fail(sig, m);
        }
        cond
    }
    /// Call into the code under test; a panic becomes a failure `panic:<what>` and `None`.
    pub fn call<T>(&mut self, what: &str, f: impl FnOnce() -> T) -> Option<T> {
        match guard(f) {
            Ok(v) => Some(v),
            Err(m) => {
                self.fail(format!("panic:{what}"), format!("panicked: {m}"));
                None
            }
        }
    }
}

/// Run `f`, turning a panic into `Err(message)`.
pub fn guard<T>(f: impl FnOnce() -> T) -> Result<T, String> {
    LAST_PANIC.with(|p| *p.borrow_mut() = None);
    match catch_unwind(AssertUnwindSafe(f)) {
        Ok(v) => Ok(v),
        Err(e) => {
            let payload = if let Some(s) = e.downcast_ref::<&str>() {
                s.to_string()
            } else if let Some(s) = e.downcast_ref::<String>() {
                s.clone()
            } else {
                "<non-string panic>".to_string()
            };
            let loc = LAST_PANIC.with(|p| p.borrow_mut().take()).unwrap_or_default();
            Err(format!("{payload} @ {loc}"))
        }
    }
}

fn install_panic_hook() {
    std::panic::set_hook(Box::new(|info| {
        let loc = info
            .location()
            .map(|l| format!("{}:{}", l.file(), l.line()))
            .unwrap_or_default();
        LAST_PANIC.with(|p| *p.borrow_mut() = Some(loc));
    }));
}

pub fn fnv64(bytes: &[u8]) -> u64 {
    let mut h: u64 = 0xcbf29ce484222325;
    for b in bytes {
        h ^= *b as u64;
        h = h.wrapping_mul(0x100000001b3);
    }
    h
}

// ------------------------------------------------------------------------------------------------
// sub-check abstraction

pub struct ChunkCfg {
    pub tier: Tier,
    pub seed: u64,
    pub chunk: u32,
    pub nchunks: u32,
    pub journal: Option<PathBuf>,
    pub known: Vec<KnownEntry>,
    pub property: String,
}

#[derive(Default, Serialize, Deserialize, Debug)]
pub struct ChunkResult {
    pub evaluations: u64,
    pub skipped: u64,
    pub nontrivial: u64,
    pub classes: BTreeMap<String, u64>,
    pub nontrivial_hashes: Vec<u64>,
    pub samples: Vec<Value>,
    pub failures: Vec<FailureRec>,
    pub known_hits: BTreeMap<String, (u64, String)>,
    pub rejects: u64,
    pub aborted: Option<String>,
}

#[derive(Serialize, Deserialize, Debug, Clone)]
pub struct FailureRec {
    pub sig: String,
    pub msg: String,
    pub case: Value,
    pub shrunk: bool,
    /// set by the regression tier: the sub-check the stored case belongs to
    #[serde(default)]
    pub sub: Option<String>,
}

pub trait SubCheck: Send + Sync {
    fn name(&self) -> &str;
    fn nchunks(&self, tier: Tier) -> u32;
    fn run_chunk(&self, cfg: &ChunkCfg) -> ChunkResult;
    /// Re-run the oracle on a stored case; returns the failures (known ones included).
    fn replay(&self, case: &Value) -> Result<Vec<Fail>, String>;
    fn required_classes(&self) -> Vec<&'static str> {
        vec![]
    }
}

#[derive(Clone, Debug, Serialize, Deserialize)]
pub struct KnownEntry {
    pub property: String,
    pub key: String,
    pub status: String,
    #[serde(default)]
    pub commit: Option<String>,
    pub text: String,
}

fn is_known(known: &[KnownEntry], property: &str, sig: &str) -> bool {
    known
        .iter()
        .any(|k| k.status == "known" && k.property == property && k.key == sig)
}

struct Acc<'a> {
    cfg: &'a ChunkCfg,
    res: ChunkResult,
    hashes: BTreeSet<u64>,
    frozen: bool,
    journal: Option<std::fs::File>,
    max_samples: usize,
    nt_samples: usize,
}

impl<'a> Acc<'a> {
    fn new(cfg: &'a ChunkCfg) -> Self {
        let journal = cfg.journal.as_ref().and_then(|p| {
            std::fs::OpenOptions::new()
                .create(true)
                .write(true)
                .truncate(true)
                .open(p)
                .ok()
        });
        Acc {
            cfg,
            res: ChunkResult::default(),
            hashes: BTreeSet::new(),
            frozen: false,
            journal,
            max_samples: 3,
            nt_samples: 0,
        }
    }

    fn journal(&mut self, js: &str) {
        if let Some(f) = self.journal.as_mut() {
            use std::io::{Seek, SeekFrom};
            let _ = f.seek(SeekFrom::Start(0));
            let _ = f.set_len(0);
            let _ = f.write_all(js.as_bytes());
        }
    }

    /// Executes the check on one case. Returns the unknown failures.
    fn one<C: Serialize>(&mut self, case: &C, check: &dyn Fn(&C, &mut Obs)) -> Vec<Fail> {
        let js = serde_json::to_string(case).unwrap_or_else(|_| "null".into());
        self.journal(&js);
        let mut obs = Obs::default();
        let r = guard(|| check(case, &mut obs));
        if let Err(m) = r {
            // a panic that escaped every `Obs::call`: either the code under test panicked in a
            // place the oracle did not expect, or the oracle itself is wrong. Both must be looked at.
            let loc = m.rsplit(" @ ").next().unwrap_or("").to_string();
            obs.fail(format!("panic:uncaught:{loc}"), format!("uncaught panic: {m}"));
        }
        let mut unknown = vec![];
        for f in obs.fails.drain(..) {
            if is_known(&self.cfg.known, &self.cfg.property, &f.sig) {
                if !self.frozen {
                    let e = self
                        .res
                        .known_hits
                        .entry(f.sig.clone())
                        .or_insert((0, f.msg.clone()));
                    e.0 += 1;
                }
            } else {
                unknown.push(f);
            }
        }
        if !self.frozen {
            self.res.evaluations += 1;
            if obs.skipped {
                self.res.skipped += 1;
            }
            for c in &obs.classes {
                *self.res.classes.entry((*c).to_string()).or_insert(0) += 1;
            }
            if obs.nontrivial && !obs.skipped {
                self.res.nontrivial += 1;
                let h = fnv64(js.as_bytes());
                let fresh = self.hashes.insert(h);
                if fresh && self.nt_samples < self.max_samples {
                    self.nt_samples += 1;
                    self.res.samples.push(sample_value(&js, &obs.classes, true));
                }
            } else if self.res.evaluations == 1 {
                self.res.samples.push(sample_value(&js, &obs.classes, false));
            }
        }
        unknown
    }

    fn finish(mut self) -> ChunkResult {
        self.res.nontrivial_hashes = self.hashes.into_iter().collect();
        self.res
    }
}

fn sample_value(js: &str, classes: &[&'static str], nt: bool) -> Value {
    let case: Value = if js.len() <= 1500 {
        serde_json::from_str(js).unwrap_or(Value::Null)
    } else {
        let mut cut = 1500;
        while !js.is_char_boundary(cut) {
            cut -= 1;
        }
        Value::String(format!("{}… ({} bytes)", &js[..cut], js.len()))
    };
    json!({"case": case, "classes": classes, "nontrivial": nt})
}

/// proptest-driven sub-check.
pub struct PropSub<C> {
    pub name: &'static str,
    pub quick: u32,
    pub thorough: u32,
    pub chunks: u32,
    pub strategy: Box<dyn Fn(Tier) -> BoxedStrategy<C> + Send + Sync>,
    pub check: Box<dyn Fn(&C, &mut Obs) + Send + Sync>,
    pub required: Vec<&'static str>,
}

pub fn prop_sub<C, S>(
    name: &'static str,
    quick: u32,
    thorough: u32,
    strategy: impl Fn(Tier) -> S + Send + Sync + 'static,
    check: impl Fn(&C, &mut Obs) + Send + Sync + 'static,
) -> Box<PropSub<C>>
where
    C: std::fmt::Debug + Serialize + DeserializeOwned + 'static,
    S: Strategy<Value = C> + 'static,
{
    Box::new(PropSub {
        name,
        quick,
        thorough,
        chunks: 8,
        strategy: Box::new(move |t| strategy(t).boxed()),
        check: Box::new(check),
        required: vec![],
    })
}

impl<C> PropSub<C> {
    pub fn chunks(mut self: Box<Self>, n: u32) -> Box<Self> {
        self.chunks = n.max(1);
        self
    }
    pub fn require(mut self: Box<Self>, classes: &[&'static str]) -> Box<Self> {
        self.required = classes.to_vec();
        self
    }
}

fn scale() -> f64 {
    std::env::var("VERIF_SCALE")
        .ok()
        .and_then(|s| s.parse().ok())
        .unwrap_or(1.0)
}

impl<C> SubCheck for PropSub<C>
where
    C: std::fmt::Debug + Serialize + DeserializeOwned + 'static,
{
    fn name(&self) -> &str {
        self.name
    }
    fn nchunks(&self, tier: Tier) -> u32 {
        let cases = tier.pick(self.quick, self.thorough);
        self.chunks.min(cases.max(1))
    }
    fn required_classes(&self) -> Vec<&'static str> {
        self.required.clone()
    }
    fn run_chunk(&self, cfg: &ChunkCfg) -> ChunkResult {
        let total = ((cfg.tier.pick(self.quick, self.thorough) as f64) * scale()).ceil() as u32;
        let n = cfg.nchunks.max(1);
        let cases = total / n + if cfg.chunk < total % n { 1 } else { 0 };
        let mut acc = Acc::new(cfg);
        if cases == 0 {
            return acc.finish();
        }
        let seed = cfg.seed
            ^ fnv64(format!("{}/{}/{}", cfg.property, self.name, cfg.chunk).as_bytes());
        let config = Config {
            cases,
            failure_persistence: None,
            rng_seed: RngSeed::Fixed(seed),
            max_shrink_iters: 4000,
            max_global_rejects: cases.saturating_mul(4).max(4096),
            ..Config::default()
        };
        let mut runner = TestRunner::new(config);
        let strat = (self.strategy)(cfg.tier);
        let acc_cell = RefCell::new(&mut acc);
        let outcome = runner.run(&strat, |case| {
            let mut a = acc_cell.borrow_mut();
            let unknown = a.one(&case, &*self.check);
            if unknown.is_empty() {
                Ok(())
            } else {
                a.frozen = true; // shrinking re-runs the closure: stop counting
                Err(TestCaseError::fail(unknown[0].sig.clone()))
            }
        });
        drop(acc_cell);
        match outcome {
            Ok(()) => {}
            Err(TestError::Fail(_, value)) => {
                // `value` is the shrunk case; re-evaluate for its own signature and message.
                acc.frozen = true;
                let unknown = acc.one(&value, &*self.check);
                let case = serde_json::to_value(&value).unwrap_or(Value::Null);
                if unknown.is_empty() {
                    acc.res.failures.push(FailureRec {
                        sig: "flaky:not-reproduced-after-shrinking".into(),
                        msg: "the shrunk case did not fail when re-evaluated".into(),
                        case,
                        shrunk: true,
                        sub: None,
                    });
                } else {
                    for f in unknown {
                        acc.res.failures.push(FailureRec {
                            sig: f.sig,
                            msg: f.msg,
                            case: case.clone(),
                            shrunk: true,
                            sub: None,
                        });
                    }
                }
            }
            Err(TestError::Abort(reason)) => {
                acc.res.aborted = Some(reason.message().to_string());
            }
        }
        acc.finish()
    }
    fn replay(&self, case: &Value) -> Result<Vec<Fail>, String> {
        let c: C = serde_json::from_value(case.clone()).map_err(|e| e.to_string())?;
        let mut obs = Obs::default();
        if let Err(m) = guard(|| (self.check)(&c, &mut obs)) {
            let loc = m.rsplit(" @ ").next().unwrap_or("").to_string();
            obs.fail(format!("panic:uncaught:{loc}"), format!("uncaught panic: {m}"));
        }
        Ok(obs.fails)
    }
}

/// Finite enumeration sub-check (exhaustive strata). No shrinking: cases are already minimal-ish.
pub struct EnumSub<C> {
    pub name: &'static str,
    pub chunks: u32,
    pub cases: Box<dyn Fn(Tier) -> Vec<C> + Send + Sync>,
    pub check: Box<dyn Fn(&C, &mut Obs) + Send + Sync>,
}

pub fn enum_sub<C>(
    name: &'static str,
    cases: impl Fn(Tier) -> Vec<C> + Send + Sync + 'static,
    check: impl Fn(&C, &mut Obs) + Send + Sync + 'static,
) -> Box<EnumSub<C>>
where
    C: Serialize + DeserializeOwned + 'static,
{
    Box::new(EnumSub {
        name,
        chunks: 8,
        cases: Box::new(cases),
        check: Box::new(check),
    })
}

impl<C> EnumSub<C> {
    pub fn chunks(mut self: Box<Self>, n: u32) -> Box<Self> {
        self.chunks = n.max(1);
        self
    }
}

impl<C> SubCheck for EnumSub<C>
where
    C: Serialize + DeserializeOwned + 'static,
{
    fn name(&self) -> &str {
        self.name
    }
    fn nchunks(&self, _tier: Tier) -> u32 {
        self.chunks
    }
    fn run_chunk(&self, cfg: &ChunkCfg) -> ChunkResult {
        let all = (self.cases)(cfg.tier);
        let mut acc = Acc::new(cfg);
        acc.max_samples = 2;
        let mut seen: BTreeSet<String> = BTreeSet::new();
        for (i, case) in all.iter().enumerate() {
            if (i as u32) % cfg.nchunks != cfg.chunk {
                continue;
            }
            let unknown = acc.one(case, &*self.check);
            for f in unknown {
                if seen.insert(f.sig.clone()) && acc.res.failures.len() < 8 {
                    acc.res.failures.push(FailureRec {
                        sig: f.sig,
                        msg: f.msg,
                        case: serde_json::to_value(case).unwrap_or(Value::Null),
                        shrunk: false,
                        sub: None,
                    });
                }
            }
        }
        acc.finish()
    }
    fn replay(&self, case: &Value) -> Result<Vec<Fail>, String> {
        let c: C = serde_json::from_value(case.clone()).map_err(|e| e.to_string())?;
        let mut obs = Obs::default();
        if let Err(m) = guard(|| (self.check)(&c, &mut obs)) {
            let loc = m.rsplit(" @ ").next().unwrap_or("").to_string();
            obs.fail(format!("panic:uncaught:{loc}"), format!("uncaught panic: {m}"));
        }
        Ok(obs.fails)
    }
}

// ------------------------------------------------------------------------------------------------
// property description + main

pub struct Property {
    pub id: &'static str,
    /// how cases are generated and what makes one non-trivial (goes into evidence `rule`)
    pub rule: &'static str,
    pub assumptions: Vec<String>,
    pub subs: Vec<Box<dyn SubCheck>>,
}

fn verif_root() -> PathBuf {
    PathBuf::from(std::env::var("VERIF_ROOT").unwrap_or_else(|_| "/verif".into()))
}

fn load_known(root: &Path) -> Vec<KnownEntry> {
    fn entries(p: &Path) -> Vec<KnownEntry> {
        match std::fs::read_to_string(p) {
            Ok(s) => {
                let v: Value = serde_json::from_str(&s).unwrap_or(Value::Null);
                let arr = v.get("findings").cloned().unwrap_or(Value::Array(vec![]));
                serde_json::from_value(arr).unwrap_or_default()
            }
            Err(_) => vec![],
        }
    }
    let mut all = entries(&root.join("known_findings.json"));
    // per-property fragments (same format), merged at load time
    if let Ok(dir) = std::fs::read_dir(root.join("known_findings.d")) {
        let mut files: Vec<PathBuf> = dir.filter_map(|e| e.ok()).map(|e| e.path()).collect();
        files.sort();
        for f in files {
            if f.extension().and_then(|e| e.to_str()) == Some("json") {
                all.extend(entries(&f));
            }
        }
    }
    all
}

fn seed_from_env() -> u64 {
    let s = std::env::var("VERIF_SEED")
        .ok()
        .and_then(|s| s.trim().parse::<i64>().ok())
        .unwrap_or(1);
    if s == 0 {
        0x9e3779b97f4a7c15
    } else {
        s as u64
    }
}

struct Args {
    tier: Tier,
    replay: Option<PathBuf>,
    worker: Option<(String, u32, u32)>,
    out: Option<PathBuf>,
    journal: Option<PathBuf>,
    only: Option<String>,
    replay_child: bool,
}

fn parse_args() -> Args {
    let mut tier = match std::env::var("VERIF_TIER").as_deref() {
        Ok("thorough") => Tier::Thorough,
        _ => Tier::Quick,
    };
    let mut a = Args {
        tier,
        replay: None,
        worker: None,
        out: None,
        journal: None,
        only: None,
        replay_child: false,
    };
    let argv: Vec<String> = std::env::args().skip(1).collect();
    let mut i = 0;
    while i < argv.len() {
        match argv[i].as_str() {
            "quick" => tier = Tier::Quick,
            "thorough" => tier = Tier::Thorough,
            "--tier" => {
                i += 1;
                tier = if argv.get(i).map(|s| s.as_str()) == Some("thorough") {
                    Tier::Thorough
                } else {
                    Tier::Quick
                };
            }
            "--replay" => {
                i += 1;
                a.replay = argv.get(i).map(PathBuf::from);
            }
            "--replay-child" => a.replay_child = true,
            "--worker" => {
                let s = argv[i + 1].clone();
                let c: u32 = argv[i + 2].parse().unwrap();
                let n: u32 = argv[i + 3].parse().unwrap();
                a.worker = Some((s, c, n));
                i += 3;
            }
            "--out" => {
                i += 1;
                a.out = argv.get(i).map(PathBuf::from);
            }
            "--journal" => {
                i += 1;
                a.journal = argv.get(i).map(PathBuf::from);
            }
            "--only" => {
                i += 1;
                a.only = argv.get(i).cloned();
            }
            other => {
                eprintln!("unknown argument {other}");
                std::process::exit(2);
            }
        }
        i += 1;
    }
    a.tier = tier;
    a
}

pub fn main(prop: Property) -> ! {
    install_panic_hook();
    let args = parse_args();
    let root = verif_root();
    let known = load_known(&root);
    let seed = seed_from_env();

    if let Some((sub, chunk, nchunks)) = &args.worker {
        if sub == REGRESS {
            let res = run_regress(&prop, &root, &known);
            let out = args.out.expect("--out");
            std::fs::write(&out, serde_json::to_vec(&res).unwrap()).unwrap();
            std::process::exit(0);
        }
        // ---------------- child: one chunk of one sub-check
        let s = prop
            .subs
            .iter()
            .find(|s| s.name() == sub)
            .unwrap_or_else(|| {
                eprintln!("no sub-check {sub}");
                std::process::exit(2)
            });
        let cfg = ChunkCfg {
            tier: args.tier,
            seed,
            chunk: *chunk,
            nchunks: *nchunks,
            journal: args.journal.clone(),
            known,
            property: prop.id.to_string(),
        };
        let res = s.run_chunk(&cfg);
        let out = args.out.expect("--out");
        std::fs::write(&out, serde_json::to_vec(&res).unwrap()).unwrap();
        std::process::exit(0);
    }

    if let Some(path) = &args.replay {
        std::process::exit(replay_main(&prop, path, &known, args.replay_child));
    }

    std::process::exit(parent_main(&prop, &args, &root, &known, seed));
}

const REGRESS: &str = "__regress__";

fn regress_files(root: &Path, id: &str) -> Vec<PathBuf> {
    let mut v: Vec<PathBuf> = std::fs::read_dir(root.join("replays").join("regress"))
        .map(|d| {
            d.filter_map(|e| e.ok())
                .map(|e| e.path())
                .filter(|p| {
                    p.file_name()
                        .and_then(|n| n.to_str())
                        .map(|n| n.starts_with(&format!("{id}-")) && n.ends_with(".json"))
                        .unwrap_or(false)
                })
                .collect()
        })
        .unwrap_or_default();
    v.sort();
    v
}

/// Replay tier: every committed counter-example of this property is re-evaluated on every run.
fn run_regress(prop: &Property, root: &Path, known: &[KnownEntry]) -> ChunkResult {
    let mut res = ChunkResult::default();
    for path in regress_files(root, prop.id) {
        let Ok(txt) = std::fs::read_to_string(&path) else { continue };
        let Ok(v) = serde_json::from_str::<Value>(&txt) else { continue };
        let subname = v.get("sub").and_then(|s| s.as_str()).unwrap_or("");
        let Some(sub) = prop.subs.iter().find(|s| s.name() == subname) else { continue };
        let case = v.get("case").cloned().unwrap_or(Value::Null);
        let Ok(fails) = sub.replay(&case) else { continue };
        res.evaluations += 1;
        *res.classes.entry("regression_case".into()).or_insert(0) += 1;
        for f in fails {
            if is_known(known, prop.id, &f.sig) {
                let e = res.known_hits.entry(f.sig.clone()).or_insert((0, f.msg.clone()));
                e.0 += 1;
            } else {
                res.failures.push(FailureRec {
                    sig: f.sig,
                    msg: format!("[stored case {}] {}", path.display(), f.msg),
                    case: case.clone(),
                    shrunk: true,
                    sub: Some(subname.to_string()),
                });
            }
        }
    }
    res
}

fn replay_main(prop: &Property, path: &Path, known: &[KnownEntry], child: bool) -> i32 {
    let txt = match std::fs::read_to_string(path) {
        Ok(t) => t,
        Err(e) => {
            eprintln!("cannot read replay file {}: {e}", path.display());
            return 2;
        }
    };
    let v: Value = match serde_json::from_str(&txt) {
        Ok(v) => v,
        Err(e) => {
            eprintln!("replay file is not JSON: {e}");
            return 2;
        }
    };
    let subname = v.get("sub").and_then(|s| s.as_str()).unwrap_or("");
    let Some(sub) = prop.subs.iter().find(|s| s.name() == subname) else {
        eprintln!("replay file names unknown sub-check '{subname}'");
        return 2;
    };
    if !child {
        // run the oracle in a child so that an abort is still reported as a violation
        let exe = self_exe();
        let st = std::process::Command::new(exe)
            .arg("--replay")
            .arg(path)
            .arg("--replay-child")
            .status();
        return match st {
            Ok(s) => match s.code() {
                Some(c) => c,
                None => {
                    println!(
                        "replay: process died on a signal while evaluating the case ({s})"
                    );
                    println!("VIOLATION property={} replay={}", prop.id, path.display());
                    1
                }
            },
            Err(_) => 2,
        };
    }
    let case = v.get("case").cloned().unwrap_or(Value::Null);
    match sub.replay(&case) {
        Err(e) => {
            eprintln!("cannot decode case: {e}");
            2
        }
        Ok(fails) => {
            let mut bad = false;
            for f in &fails {
                if is_known(known, prop.id, &f.sig) {
                    println!("KNOWN-FINDING: property={} {} [{}]", prop.id, f.msg, f.sig);
                } else {
                    println!("replay: {} — {}", f.sig, f.msg);
                    bad = true;
                }
            }
            if bad {
                println!("VIOLATION property={} replay={}", prop.id, path.display());
                1
            } else {
                println!("replay: case passes");
                0
            }
        }
    }
}

struct Job {
    name: String,
    sub: usize,
    chunk: u32,
    nchunks: u32,
    out: PathBuf,
    journal: PathBuf,
    child: Option<std::process::Child>,
    done: bool,
}

fn parent_main(prop: &Property, args: &Args, root: &Path, known: &[KnownEntry], seed: u64) -> i32 {
    let t0 = Instant::now();
    // one work directory per run: two runs of the same check at the same time must not disturb each other
    let work = root.join("work").join(format!("{}.{}", prop.id, std::process::id()));
    let _ = std::fs::remove_dir_all(&work);
    std::fs::create_dir_all(&work).unwrap();
    let exe = self_exe();
    let budget = std::env::var("VERIF_TIMEOUT_S")
        .ok()
        .and_then(|s| s.parse::<u64>().ok())
        .unwrap_or(args.tier.pick(1500, 6 * 3600));
    let par = std::env::var("VERIF_JOBS")
        .ok()
        .and_then(|s| s.parse::<usize>().ok())
        .unwrap_or_else(|| {
            std::thread::available_parallelism()
                .map(|n| n.get())
                .unwrap_or(8)
                .min(16)
        });

    let mut jobs: Vec<Job> = vec![];
    for (si, s) in prop.subs.iter().enumerate() {
        if let Some(o) = &args.only {
            if s.name() != o {
                continue;
            }
        }
        let n = s.nchunks(args.tier);
        for c in 0..n {
            jobs.push(Job {
                name: s.name().to_string(),
                sub: si,
                chunk: c,
                nchunks: n,
                out: work.join(format!("{}.{}.json", s.name(), c)),
                journal: work.join(format!("{}.{}.cur", s.name(), c)),
                child: None,
                done: false,
            });
        }
    }
    if args.only.is_none() && !regress_files(root, prop.id).is_empty() {
        jobs.push(Job {
            name: REGRESS.to_string(),
            sub: usize::MAX,
            chunk: 0,
            nchunks: 1,
            out: work.join("regress.json"),
            journal: work.join("regress.cur"),
            child: None,
            done: false,
        });
    }
    let mut next = 0usize;
    let mut running = 0usize;
    let mut timed_out = false;
    let mut crashed: Vec<(usize, u32, String)> = vec![];
    let mut regress_crashed = false;
    loop {
        while running < par && next < jobs.len() {
            let j = &mut jobs[next];
            let child = std::process::Command::new(&exe)
                .arg("--tier")
                .arg(args.tier.name())
                .arg("--worker")
                .arg(&j.name)
                .arg(j.chunk.to_string())
                .arg(j.nchunks.to_string())
                .arg("--out")
                .arg(&j.out)
                .arg("--journal")
                .arg(&j.journal)
                .env("VERIF_SEED", (seed as i64).to_string())
                .env("VERIF_ROOT", root)
                .stdout(std::process::Stdio::null())
                .stderr(if std::env::var("VERIF_VERBOSE").is_ok() {
                    std::process::Stdio::inherit()
                } else {
                    // proptest's "aborting shrinking" notices and the runtime's stack-overflow banner
                    std::process::Stdio::null()
                })
                .spawn()
                .expect("spawn worker");
            j.child = Some(child);
            next += 1;
            running += 1;
        }
        if running == 0 {
            break;
        }
        std::thread::sleep(Duration::from_millis(15));
        for j in jobs.iter_mut() {
            if j.done || j.child.is_none() {
                continue;
            }
            let ch = j.child.as_mut().unwrap();
            match ch.try_wait() {
                Ok(Some(st)) => {
                    j.done = true;
                    running -= 1;
                    if !(st.success() && j.out.exists()) {
                        if j.sub == usize::MAX {
                            regress_crashed = true;
                        } else {
                            crashed.push((j.sub, j.chunk, format!("{st}")));
                        }
                    }
                }
                Ok(None) => {}
                Err(_) => {
                    j.done = true;
                    running -= 1;
                }
            }
        }
        if t0.elapsed().as_secs() > budget {
            timed_out = true;
            for j in jobs.iter_mut() {
                if let Some(ch) = j.child.as_mut() {
                    if !j.done {
                        let _ = ch.kill();
                        let _ = ch.wait();
                    }
                }
            }
            break;
        }
    }

    // ---------------- aggregate
    let mut evaluations = 0u64;
    let mut skipped = 0u64;
    let mut nontrivial_total = 0u64;
    let mut classes: BTreeMap<String, u64> = BTreeMap::new();
    let mut per_sub: BTreeMap<String, Value> = BTreeMap::new();
    let mut hashes: BTreeSet<(usize, u64)> = BTreeSet::new();
    let mut samples: Vec<Value> = vec![];
    let mut failures: Vec<(String, FailureRec)> = vec![];
    let mut known_hits: BTreeMap<String, (u64, String)> = BTreeMap::new();
    let mut aborted: Vec<String> = vec![];
    let mut missing_required: Vec<String> = vec![];

    for (si, s) in prop.subs.iter().enumerate() {
        let mut sub_eval = 0u64;
        let mut sub_nt = 0u64;
        let mut sub_classes: BTreeMap<String, u64> = BTreeMap::new();
        let mut sub_samples = 0;
        let mut any = false;
        for j in jobs.iter().filter(|j| j.sub == si) {
            any = true;
            let Ok(bytes) = std::fs::read(&j.out) else {
                continue;
            };
            let Ok(r) = serde_json::from_slice::<ChunkResult>(&bytes) else {
                continue;
            };
            sub_eval += r.evaluations;
            skipped += r.skipped;
            sub_nt += r.nontrivial;
            for (k, v) in r.classes {
                *sub_classes.entry(k.clone()).or_insert(0) += v;
                *classes.entry(format!("{}:{}", s.name(), k)).or_insert(0) += v;
            }
            for h in r.nontrivial_hashes {
                hashes.insert((si, h));
            }
            for smp in r.samples {
                if sub_samples < 4 {
                    sub_samples += 1;
                    samples.push(json!({"sub": s.name(), "sample": smp}));
                }
            }
            for f in r.failures {
                failures.push((s.name().to_string(), f));
            }
            for (k, (n, m)) in r.known_hits {
                let e = known_hits.entry(k).or_insert((0, m));
                e.0 += n;
            }
            if let Some(a) = r.aborted {
                aborted.push(format!("{}[{}]: {}", s.name(), j.chunk, a));
            }
        }
        if !any {
            continue;
        }
        evaluations += sub_eval;
        nontrivial_total += sub_nt;
        for rc in s.required_classes() {
            if sub_classes.get(rc).copied().unwrap_or(0) == 0 {
                missing_required.push(format!("{}:{}", s.name(), rc));
            }
        }
        per_sub.insert(
            s.name().to_string(),
            json!({"evaluations": sub_eval, "nontrivial": sub_nt, "classes": sub_classes}),
        );
    }

    // regression tier result
    if let Some(j) = jobs.iter().find(|j| j.sub == usize::MAX) {
        if let Some(r) = std::fs::read(&j.out)
            .ok()
            .and_then(|b| serde_json::from_slice::<ChunkResult>(&b).ok())
        {
            evaluations += r.evaluations;
            for (k, v) in r.classes {
                *classes.entry(format!("regress:{k}")).or_insert(0) += v;
            }
            for f in r.failures {
                let sub = f.sub.clone().unwrap_or_default();
                failures.push((sub, f));
            }
            for (k, (n, m)) in r.known_hits {
                let e = known_hits.entry(k).or_insert((0, m));
                e.0 += n;
            }
        }
        if regress_crashed {
            aborted.push("regression tier: worker died while replaying stored cases".into());
        }
    }

    // crashed children: the journal holds the input that was being evaluated
    for (si, chunk, st) in &crashed {
        let s = &prop.subs[*si];
        let jpath = work.join(format!("{}.{}.cur", s.name(), chunk));
        let case: Value = std::fs::read_to_string(&jpath)
            .ok()
            .and_then(|t| serde_json::from_str(&t).ok())
            .unwrap_or(Value::Null);
        let sig = format!("crash:{}", s.name());
        if case.is_null() {
            aborted.push(format!(
                "{}[{}]: worker died ({st}) before journalling a case",
                s.name(),
                chunk
            ));
            continue;
        }
        if is_known(known, prop.id, &sig) {
            let e = known_hits
                .entry(sig)
                .or_insert((0, format!("worker process died: {st}")));
            e.0 += 1;
        } else {
            failures.push((
                s.name().to_string(),
                FailureRec {
                    sig,
                    msg: format!(
                        "worker process died ({st}) while evaluating this case (stack overflow / abort inside the code under test)"
                    ),
                    case,
                    shrunk: false,
                    sub: None,
                },
            ));
        }
    }

    // ---------------- counter-examples handed over by a coverage-guided campaign (thorough tier):
    // each is re-evaluated here through the plain replay path, so this binary stays the only reporter
    let mut extra_violations: Vec<PathBuf> = vec![];
    if let Ok(list) = std::env::var("VERIF_EXTRA_REPLAYS") {
        for p in list.split(':').filter(|p| !p.is_empty()) {
            let st = std::process::Command::new(&exe)
                .arg("--replay")
                .arg(p)
                .arg("--replay-child")
                .env("VERIF_ROOT", root)
                .stdout(std::process::Stdio::null())
                .status();
            match st.map(|s| s.code()) {
                Ok(Some(0)) => {}
                Ok(Some(2)) => aborted.push(format!("fuzz replay {p} could not be evaluated")),
                _ => extra_violations.push(PathBuf::from(p)),
            }
        }
    }
    let fuzz_stats: Value = std::env::var("VERIF_FUZZ_STATS")
        .ok()
        .and_then(|s| serde_json::from_str(&s).ok())
        .unwrap_or(Value::Null);
    let fuzz_runs = fuzz_stats.get("runs").and_then(|v| v.as_u64()).unwrap_or(0);
    evaluations += fuzz_runs;

    // ---------------- report
    let mut exit = 0;
    for p in &extra_violations {
        println!("FAIL {} found by the coverage-guided campaign, confirmed by replay", prop.id);
        println!("VIOLATION property={} replay={}", prop.id, p.display());
        exit = 1;
    }
    let mut seen_sigs: BTreeSet<String> = BTreeSet::new();
    let replays = root.join("replays");
    let _ = std::fs::create_dir_all(&replays);
    let mut violation_list: Vec<Value> = vec![];
    for (sub, f) in &failures {
        if !seen_sigs.insert(format!("{sub}/{}", f.sig)) {
            continue;
        }
        let body = json!({
            "property": prop.id, "sub": sub, "signature": f.sig, "message": f.msg,
            "seed": seed as i64, "tier": args.tier.name(), "shrunk": f.shrunk, "case": f.case,
        });
        let text = serde_json::to_string_pretty(&body).unwrap();
        let h = fnv64(serde_json::to_string(&f.case).unwrap().as_bytes());
        let path = replays.join(format!("{}-{}-{:016x}.json", prop.id, sub, h));
        let _ = std::fs::write(&path, text);
        println!("FAIL {} sub={} sig={} :: {}", prop.id, sub, f.sig, f.msg);
        println!("VIOLATION property={} replay={}", prop.id, path.display());
        violation_list.push(json!({"sub": sub, "signature": f.sig, "message": f.msg, "replay": path}));
        exit = 1;
    }
    for (k, (n, m)) in &known_hits {
        let text = known
            .iter()
            .find(|e| e.property == prop.id && &e.key == k)
            .map(|e| e.text.clone())
            .unwrap_or_default();
        println!(
            "KNOWN-FINDING: property={} {} [key={} hits={} e.g. {}]",
            prop.id,
            text,
            k,
            n,
            m.chars().take(200).collect::<String>()
        );
    }
    let inconclusive = timed_out || !aborted.is_empty() || !missing_required.is_empty();
    if inconclusive && exit == 0 {
        exit = 2;
        if timed_out {
            println!("INCONCLUSIVE property={} watchdog: budget of {budget}s exceeded", prop.id);
        }
        for a in &aborted {
            println!("INCONCLUSIVE property={} {}", prop.id, a);
        }
        for m in &missing_required {
            println!("INCONCLUSIVE property={} generator never reached class {}", prop.id, m);
        }
    }

    let wall = t0.elapsed().as_secs_f64();
    let distinct_nt = hashes.len() as u64;
    let evidence = json!({
        "property_id": prop.id,
        "tier": args.tier.name(),
        "seed": seed as i64,
        "level": "exploration",
        "coverage": {
            "evaluations": evaluations,
            "distinct_nontrivial": distinct_nt,
            "nontrivial_total": nontrivial_total,
            "not_judged": skipped,
            "rule": prop.rule,
            "samples": samples,
            "classes": classes,
            "per_subcheck": per_sub,
            "known_finding_hits": known_hits.iter().map(|(k, (n, _))| (k.clone(), json!(n))).collect::<BTreeMap<_, _>>(),
            "violations": violation_list,
            "fuzz": fuzz_stats,
            "fuzz_violations": extra_violations,
            "exhaustive": false,
        },
        "assumptions": prop.assumptions,
        "wall_s": wall,
        "violations": seen_sigs.len() + extra_violations.len(),
    });
    let evdir = root.join("evidence");
    let _ = std::fs::create_dir_all(&evdir);
    if args.only.is_none() {
        let _ = std::fs::write(
            evdir.join(format!("{}.json", prop.id)),
            serde_json::to_string_pretty(&evidence).unwrap(),
        );
    }
    println!(
        "{} tier={} seed={} evaluations={} distinct_nontrivial={} not_judged={} known_hits={} violations={} wall={:.1}s exit={}",
        prop.id,
        args.tier.name(),
        seed as i64,
        evaluations,
        distinct_nt,
        skipped,
        known_hits.values().map(|v| v.0).sum::<u64>(),
        seen_sigs.len(),
        wall,
        exit
    );
    if std::env::var("VERIF_VERBOSE").is_ok() {
        for (k, v) in &classes {
            println!("  class {k}: {v}");
        }
    }
    let _ = std::fs::remove_dir_all(&work);
    exit
}

// ------------------------------------------------------------------------------------------------
// coverage-guided fuzzing support (libFuzzer targets under /verif/fuzz call this)

/// Evaluate one decoded case inside a libFuzzer target with the same oracle and the same
/// known-finding filter as the proptest tiers. On a failure that is not a known finding the case
/// is written to `$VERIF_ROOT/replays/<id>-<sub>-<hash>.json` (the normal replay format) and the
/// process panics, so libFuzzer stops and keeps the input as a crash artifact.
pub fn fuzz_one<C: Serialize>(property: &str, sub: &str, case: &C, check: impl Fn(&C, &mut Obs)) {
    use std::sync::OnceLock;
    static KNOWN: OnceLock<Vec<KnownEntry>> = OnceLock::new();
    static HOOK: OnceLock<()> = OnceLock::new();
    let root = verif_root();
    let known = KNOWN.get_or_init(|| load_known(&root));
    HOOK.get_or_init(install_panic_hook);
    let mut obs = Obs::default();
    if let Err(m) = guard(|| check(case, &mut obs)) {
        let loc = m.rsplit(" @ ").next().unwrap_or("").to_string();
        obs.fail(format!("panic:uncaught:{loc}"), format!("uncaught panic: {m}"));
    }
    let unknown: Vec<&Fail> = obs
        .fails
        .iter()
        .filter(|f| !is_known(known, property, &f.sig))
        .collect();
    if let Some(f) = unknown.first() {
        let case_v = serde_json::to_value(case).unwrap_or(Value::Null);
        let body = json!({
            "property": property, "sub": sub, "signature": f.sig, "message": f.msg,
            "seed": 0, "tier": "thorough", "shrunk": false, "found_by": "libFuzzer", "case": case_v,
        });
        let h = fnv64(serde_json::to_string(&case_v).unwrap_or_default().as_bytes());
        let dir = root.join("replays");
        let _ = std::fs::create_dir_all(&dir);
        let path = dir.join(format!("{property}-{sub}-{h:016x}.json"));
        let _ = std::fs::write(&path, serde_json::to_string_pretty(&body).unwrap_or_default());
        let _ = std::panic::take_hook();
        eprintln!("FUZZ-FAIL property={property} sub={sub} sig={} replay={}", f.sig, path.display());
        std::process::abort();
    }
}

/// Path under which this very program image can be started again. `/proc/self/exe` names the running image itself, so
/// a worker can still be spawned when the file on disk was replaced or unlinked meanwhile (a rebuild during a run);
/// `current_exe` would then point to a deleted path.
pub fn self_exe() -> std::path::PathBuf {
    let p = std::path::PathBuf::from("/proc/self/exe");
    if p.exists() {
        p
    } else {
        std::env::current_exe().unwrap_or(p)
    }
}
