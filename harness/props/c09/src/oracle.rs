//! Independent reference code for C09 (naive on purpose).
//!
//! All reference quantities are computed in `f64` from the *exact* values of the element type
//! (`f32 -> f64` is exact). A second set of helpers evaluates the same definitions in the element
//! type itself; they are used only (a) to recognise *exact* ties and (b) to model the stopping rule
//! `distance(old, new) < tolerance`, whose outcome depends on under/overflow of the element type.

use crate::cases::Metric;
use linfa::Float;

pub type M64 = Vec<Vec<f64>>;

pub fn to64<F: Float>(a: &[Vec<F>]) -> M64 {
    a.iter()
        .map(|r| r.iter().map(|v| v.to_f64().unwrap_or(f64::NAN)).collect())
        .collect()
}

/// reduced distance of the metric (L2: squared), f64
pub fn rdist(m: Metric, a: &[f64], b: &[f64]) -> f64 {
    let mut s = 0.0f64;
    for (x, y) in a.iter().zip(b) {
        let d = (x - y).abs();
        match m {
            Metric::L2 => s += d * d,
            Metric::L1 => s += d,
            Metric::LInf => {
                if d > s {
                    s = d
                }
            }
            Metric::Lp(p) => s += d.powf(p),
        }
    }
    match m {
        Metric::Lp(p) => s.powf(1.0 / p),
        _ => s,
    }
}

/// true distance of the metric, f64
pub fn dist(m: Metric, a: &[f64], b: &[f64]) -> f64 {
    match m {
        Metric::L2 => rdist(m, a, b).sqrt(),
        _ => rdist(m, a, b),
    }
}

/// reduced distance evaluated in the element type (plain left-to-right definition)
pub fn rdist_f<F: Float>(m: Metric, a: &[F], b: &[F]) -> F {
    let mut s = F::zero();
    for (x, y) in a.iter().zip(b) {
        let d = (*x - *y).abs();
        match m {
            Metric::L2 => s = s + d * d,
            Metric::L1 => s = s + d,
            Metric::LInf => {
                if d > s {
                    s = d
                }
            }
            Metric::Lp(p) => s = s + d.powf(F::cast(p)),
        }
    }
    match m {
        // LpDist has no reduced form: (sum |d|^p)^(1/p), exponent 1/p formed in the element type
        Metric::Lp(p) => s.powf(F::one() / F::cast(p)),
        _ => s,
    }
}

/// `Distance::distance` applied to two k×p matrices (what the stopping rule evaluates), in the
/// element type: L2 = Frobenius norm of the difference (square root taken in f64, as linfa-nn
/// does), L1 = sum of all |differences|, L∞ = largest |difference|.
pub fn dist2d_f<F: Float>(m: Metric, a: &[Vec<F>], b: &[Vec<F>]) -> F {
    let fa: Vec<F> = a.iter().flatten().copied().collect();
    let fb: Vec<F> = b.iter().flatten().copied().collect();
    let r = rdist_f(m, &fa, &fb);
    match m {
        Metric::L2 => F::cast(r.to_f64().unwrap_or(f64::NAN).sqrt()),
        _ => r,
    }
}

pub fn max_abs(a: &M64) -> f64 {
    a.iter().flatten().fold(0.0f64, |m, v| m.max(v.abs()))
}

#[derive(Clone, Debug)]
pub struct Nearest {
    /// smallest reduced distance (f64)
    pub rmin: f64,
    /// lowest index attaining it
    pub first: usize,
    /// indices whose reduced distance is within the float tolerance of the minimum
    pub near: Vec<usize>,
    /// `near.len() > 1` and all members are *exactly* tied (in f64 and in the element type)
    pub exact_tie: bool,
}

impl Nearest {
    pub fn unique(&self) -> bool {
        self.near.len() == 1
    }
    /// the set of admissible clusters is known exactly: unique minimum, or an exact tie (any member)
    pub fn determined(&self) -> bool {
        self.near.len() == 1 || self.exact_tie
    }
}

/// relative tolerance on a reduced distance computed in the element type: every term is
/// non-negative, so the relative error is at most (p+4) eps; p <= 4 here, 64 eps is generous.
pub const RDIST_REL_EPS: f64 = 64.0;

/// Allowed deviation of a (reduced) distance `r` computed in the element type from the f64 reference.
///
/// L1 / L2 / Linf: 64 eps r + 16 min_positive (sum of <= 4 non-negative terms).
///
/// Lp(q), r = S^(1/q) with S = sum |d_i|^q: each |d_i|^q carries (q+2) eps (rounded difference raised
/// to q, powf good to ~2 ulp), the sum of <= 4 terms 4 eps more; the outer exponent 1/q is itself
/// rounded in the element type, S^((1/q)(1+e)) = S^(1/q) exp(e ln(S)/q), i.e. a relative error
/// eps |ln S|/q = eps |ln r|; the outer powf ~2 ulp. Total relative error <= ((q+8)/q + |ln r| + 2) eps,
/// bounded here by (64 + 4 |ln r|) eps. Terms |d_i|^q below min_positive are lost (underflow), which
/// moves S by at most 4 min_positive and r by at most (4 min_positive)^(1/q); allowed (16 min_positive)^(1/q).
pub fn rdist_tol(m: Metric, eps: f64, tiny: f64, r: f64) -> f64 {
    match m {
        Metric::Lp(q) => {
            let ln = if r > 0.0 && r.is_finite() { r.ln().abs() } else { 0.0 };
            (RDIST_REL_EPS + 4.0 * ln) * eps * r + (16.0 * tiny).powf(1.0 / q)
        }
        _ => RDIST_REL_EPS * eps * r + 16.0 * tiny,
    }
}

/// The same for a true distance (L2: square root of the reduced distance, relative error halves;
/// 64 eps kept).
pub fn dist_tol(m: Metric, eps: f64, tiny: f64, d: f64) -> f64 {
    match m {
        Metric::Lp(_) => rdist_tol(m, eps, tiny, d),
        _ => RDIST_REL_EPS * eps * d,
    }
}

/// Independent arg-min scan of one point against all centroids.
pub fn nearest<F: Float>(
    m: Metric,
    eps: f64,
    tiny: f64,
    x: &[f64],
    xf: &[F],
    cent: &M64,
    centf: &[Vec<F>],
) -> Nearest {
    let d: Vec<f64> = cent.iter().map(|c| rdist(m, x, c)).collect();
    let mut first = 0usize;
    for j in 0..d.len() {
        if d[j] < d[first] {
            first = j;
        }
    }
    let rmin = d.get(first).copied().unwrap_or(f64::NAN);
    let tol = rdist_tol(m, eps, tiny, rmin);
    let near: Vec<usize> = (0..d.len()).filter(|&j| d[j] <= rmin + tol).collect();
    let mut exact_tie = false;
    if near.len() > 1 {
        let df: Vec<F> = near.iter().map(|&j| rdist_f(m, xf, &centf[j])).collect();
        exact_tie = near.iter().all(|&j| d[j] == rmin) && df.iter().all(|v| *v == df[0]);
    }
    Nearest { rmin, first, near, exact_tie }
}

/// One m_k-means update: every centroid becomes the mean of its assigned points and its previous
/// position. `assign[i]` = cluster of point i.
pub fn step(data: &M64, cent: &M64, assign: &[usize]) -> M64 {
    let k = cent.len();
    let p = cent.first().map(|r| r.len()).unwrap_or(0);
    let mut sum = vec![vec![0.0f64; p]; k];
    let mut cnt = vec![1.0f64; k];
    for (x, &a) in data.iter().zip(assign) {
        if a < k {
            for j in 0..p {
                sum[a][j] += x[j];
            }
            cnt[a] += 1.0;
        }
    }
    for c in 0..k {
        for j in 0..p {
            sum[c][j] = (sum[c][j] + cent[c][j]) / cnt[c];
        }
    }
    sum
}

/// within-cluster cost: sum over points of the smallest reduced distance
pub fn cost(m: Metric, data: &M64, cent: &M64) -> f64 {
    data.iter()
        .map(|x| cent.iter().map(|c| rdist(m, x, c)).fold(f64::INFINITY, f64::min))
        .sum()
}

pub fn bits_equal<F: Float>(a: &[Vec<F>], b: &[Vec<F>]) -> bool {
    a.len() == b.len()
        && a.iter().zip(b).all(|(r, s)| {
            r.len() == s.len()
                && r.iter().zip(s).all(|(x, y)| {
                    // same value and same sign of zero; NaN never equal
                    x == y && x.is_sign_negative() == y.is_sign_negative()
                })
        })
}

/// bounding box (min, max) per column over the given rows
pub fn bbox(rows: &M64, p: usize) -> (Vec<f64>, Vec<f64>) {
    let mut lo = vec![f64::INFINITY; p];
    let mut hi = vec![f64::NEG_INFINITY; p];
    for r in rows {
        for j in 0..p.min(r.len()) {
            lo[j] = lo[j].min(r[j]);
            hi[j] = hi[j].max(r[j]);
        }
    }
    (lo, hi)
}
