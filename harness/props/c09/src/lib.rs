//! C09 — stub (to be written; see /verif/harness/AUTHORING.md and DESIGN.md §3 C09)
use vengine::Property;

pub fn property() -> Property {
    Property { id: "C09", rule: "", assumptions: vec![], subs: vec![] }
}
