//! C09 — k-means (linfa-clustering): nearest-centroid assignment, the m_k-means recurrence and its
//! cost monotonicity, restarts, and the reported statistics.
//!
//! Sub-checks
//! * `trajectory` — `Precomputed(C0)`, one run, budgets 1..=M+1: every budget's result is the
//!   harness' own update applied to the previous budget's result (or bit-identical once the loop
//!   stopped), L2 cost never rises, statistics of a run that no longer changes describe its centroids.
//! * `restarts`   — `n_runs = 1..=r` from one seed against the r single runs re-created at the
//!   measured RNG stream positions: minimum inertia, centroids and counts of the best run.
//! * `assign`     — any initialiser/configuration: structure of the model, arg-min of `predict`
//!   (batch and single row) and `transform` on training, fresh and adversarial points.
//! * `para_box`   — `assign` on the KMeans|| stratum: dispersed cloud with the origin outside its
//!   bounding box in one feature, budgets 1..=2 (a start centroid that is not a data row stays visible).
//! * `large`      — the same on hundreds/thousands of rows (parallel assignment really splits).

pub mod cases;
pub mod checks;
pub mod oracle;
pub mod support;

use vengine::{prop_sub, Property, Tier};

pub fn property() -> Property {
    Property {
        id: "C09",
        rule: "cases = (dataset: separated blobs | overlapping cloud | few distinct points repeated | integer lattice | (para_box) dispersed cloud with a bias column / unit box [1,2]^p, n 1..=80 (200 thorough; `large`: 600/2000, 2047..=4200 incl. 2047/2048/2049, multiples of 64..1024 and multiples +-1), \
               p 1..=4, f32|f64, coordinates scaled by 1, 2^10 or 2^-10; k 1..=min(n,6); metric L2|L1|Linf|LpDist(1,2,3,4,5,1.5,2.5,3.3); init Random|KMeans++|KMeans|||Precomputed (data rows with repeats, \
               free values possibly outside the data, half-integer offsets); memory layout of records / precomputed centroids / query batches row-major|column-major|strided; budget 1..=12 or 300; tolerance never|1e-4|1e-1; n_runs 1..=4; seed; fresh queries). \
               Non-trivial: trajectory = at least two Lloyd steps that change the assignment, or an exact tie in an assignment step, or duplicate points; \
               restarts = n_runs >= 2 and the single runs end in different centroids, or duplicate points; \
               assign/large = an exactly tied query, duplicate points, or at least two clusters used by the training points. \
               distinct = distinct canonical JSON of the case",
        assumptions: vec![
            "k <= n (documented precondition of the random initialiser); no NaN/inf inputs; p >= 1".into(),
            "reduced distances recomputed in f64 from the exact element values; a linfa value may deviate by 64 eps (relative, eps of the element type) + 16 min_positive: all terms are non-negative, p <= 4".into(),
            "an index returned by predict is accepted when its reduced distance is within that tolerance of the minimum; on a tie ANY minimal index is accepted (the statement does not fix the tie-break)".into(),
            "trajectory: expected centroid = (sum of assigned points + previous centroid)/(count+1) in f64, tolerance (n+64) eps scale per coordinate; a step in which some point is nearly (not exactly) tied is not judged; exactly tied points (equal in f64 and in the element type) may go to any of their tied centroids: all combinations are tried when <= 4 points are tied (<= 256 combinations), otherwise only the lowest-index and highest-index conventions and a mismatch is counted as exact_tie_step_not_judged".into(),
            "stopping rule modelled by evaluating distance(old,new) in the element type: < tolerance/2 must stop, > 2 tolerance must continue, in between either; tolerance 'never' = 1e-300 (f64) / 1e-38 (f32)".into(),
            "LpDist(q): reference (sum |d|^q)^(1/q) in f64; allowed deviation (64 + 4 |ln r|) eps r + (16 min_positive)^(1/q): (q+2) eps per term, 4 eps for the sum, eps |ln r| from the exponent 1/q rounded in the element type, ~2 ulp per powf; underflowing terms move r by at most (4 min_positive)^(1/q)".into(),
            "cost monotonicity is asserted for L2 only (theorem for the mean update), allowed rise 4 sqrt(n cost) d + 2 n d^2 + 1e-12 cost with d = (n+64) eps scale sqrt(p)".into(),
            "bounding box slack (2n+8) eps scale (steady-state rounding excursion of a convex combination), box = data, plus the precomputed start when it lies outside".into(),
            "statistics are judged only for runs shown converged (identical centroids for budgets m and m+1 of the same deterministic run): counts must contain every point whose nearest centroid is clear by more than 2 tolerance, inertia within mean(tolerance (2 d_i + tolerance)) (L2) or tolerance (L1/Linf) of the mean minimal reduced distance".into(),
            "restarts (fit, n_runs 1..=4, and fit_with(None, ..), n_runs 1..=8): every initialiser consumes the caller's RNG as a prefix-stable stream (measured with a counting wrapper around Xoshiro256+; cases where that does not hold are skipped); KMeans|| is included because the check pins rayon's global pool to one worker, which makes its per-job RNG seeding deterministic; on exactly tied costs any tied restart is accepted".into(),
            "memory layout: training records and query batches are passed row-major, column-major (owned) or as a strided view (every second row of a doubled array); precomputed centroids row-major, column-major or as to_owned() of a transpose; the oracles are layout-blind; additionally the fitted model and transform must be bit-identical to the row-major twin (same values, same per-row arithmetic); a model with non-row-major centroids is obtained through one fit_with(None, ..) step and judged for predict/transform only".into(),
            "trusted: ndarray, rand/rand_xoshiro, the harness' naive reference code".into(),
        ],
        subs: vec![
            prop_sub("trajectory", 40000, 400000, |t: Tier| cases::trajectory_case(t), checks::check_trajectory)
                .chunks(16)
                .require(&["metric_lp_odd_whole", "metric_lp_even_whole", "metric_lp_fractional", "precomputed_column_major", "precomputed_transposed_owned", "records_strided_view", "two_or_more_reassigning_steps", "exact_tie_in_assignment", "converged_run_statistics_judged", "stopped_within_budget"]),
            prop_sub("restarts", 30000, 300000, |t: Tier| cases::restarts_case(t), checks::check_restarts)
                .chunks(16)
                .require(&["incremental_later_restart_beats_first_but_not_best", "init_para", "best_run_is_not_last", "runs_reach_different_centroids", "best_run_converged"]),
            prop_sub("assign", 60000, 600000, |t: Tier| cases::assign_case(t), checks::check_assign)
                .chunks(16)
                .require(&["metric_lp_odd_whole", "metric_lp_even_whole", "metric_lp_fractional", "precomputed_column_major", "model_centroids_not_row_major", "records_column_major", "row_major_twin_compared", "exact_tie_query", "init_para", "fewer_distinct_points_than_k", "fresh_queries"]),
            prop_sub("para_box", 20000, 200000, |t: Tier| cases::para_box_case(t), checks::check_assign)
                .chunks(16)
                .require(&["para_small_budget_origin_outside_box", "data_dispersed_off_origin"]),
            prop_sub("large", 64, 300, |t: Tier| cases::large_case(t), checks::check_large)
                .chunks(16)
                .require(&["n_ge_2048_not_multiple_of_256", "n_multiple_of_64"]),
        ],
    }
}
