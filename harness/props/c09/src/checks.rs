//! The four sub-checks of C09.

use crate::cases::*;
use crate::oracle::*;
use crate::support::*;
use linfa::Float;
use linfa_nn::distance::{Distance, L1Dist, L2Dist, LInfDist, LpDist};
use rand_xoshiro::rand_core::SeedableRng;
use rand_xoshiro::Xoshiro256Plus;
use vengine::Obs;

macro_rules! dispatch {
    ($f32:expr, $metric:expr, $f:ident, $($arg:expr),*) => {
        match ($f32, $metric) {
            (true, Metric::L2) => $f::<f32, _>($($arg),*, L2Dist),
            (true, Metric::L1) => $f::<f32, _>($($arg),*, L1Dist),
            (true, Metric::LInf) => $f::<f32, _>($($arg),*, LInfDist),
            (false, Metric::L2) => $f::<f64, _>($($arg),*, L2Dist),
            (false, Metric::L1) => $f::<f64, _>($($arg),*, L1Dist),
            (false, Metric::LInf) => $f::<f64, _>($($arg),*, LInfDist),
            (true, Metric::Lp(q)) => $f::<f32, _>($($arg),*, LpDist(q as f32)),
            (false, Metric::Lp(q)) => $f::<f64, _>($($arg),*, LpDist(q)),
        }
    };
}

fn distinct_rows(x: &M64) -> usize {
    let mut v: Vec<Vec<u64>> = x.iter().map(|r| r.iter().map(|f| (f + 0.0).to_bits()).collect()).collect();
    v.sort();
    v.dedup();
    v.len()
}

/// labels shared by all sub-checks; returns (has duplicates, fewer distinct points than k)
fn classify<F: Float>(c: &Case, pr: &Prep<F>, obs: &mut Obs) -> (bool, bool) {
    obs.class(match c.data.kind {
        DataKind::Blobs => "data_blobs",
        DataKind::Cloud => "data_cloud",
        DataKind::Duplicates => "data_duplicates",
        DataKind::Lattice => "data_lattice",
        DataKind::DispersedOffOrigin => "data_dispersed_off_origin",
    });
    obs.class(if c.data.f32_ { "f32" } else { "f64" });
    obs.class(match c.metric {
        Metric::L2 => "metric_l2",
        Metric::L1 => "metric_l1",
        Metric::LInf => "metric_linf",
        Metric::Lp(q) if q.fract() != 0.0 => "metric_lp_fractional",
        Metric::Lp(q) if (q as i64) % 2 == 1 => "metric_lp_odd_whole",
        Metric::Lp(_) => "metric_lp_even_whole",
    });
    obs.class(match &c.init {
        Init::Random => "init_random",
        Init::PlusPlus => "init_plusplus",
        Init::Para => "init_para",
        Init::Precomputed(_) => "init_precomputed",
    });
    obs.class(match c.tol {
        Tol::Never => "tol_never",
        Tol::T1e4 => "tol_1e-4",
        Tol::T1e1 => "tol_1e-1",
    });
    obs.class_if(c.data.scale_exp != 0, "scaled_2^+-10");
    obs.class_if(c.data.offset.iter().any(|v| *v != 0.0), "offset_from_origin");
    obs.class_if(pr.p == 1, "one_feature");
    obs.class_if(c.k == 1, "k_eq_1");
    obs.class_if(c.k == pr.n, "k_eq_n");
    obs.class_if(pr.n == 1, "n_eq_1");
    obs.class_if(c.n_runs >= 2, "n_runs_ge_2");
    obs.class_if(c.max_iter == 300, "budget_300");
    obs.class_if(pr.recs.nonstandard() && pr.recs.layout == Layout::ColMajor, "records_column_major");
    obs.class_if(pr.recs.nonstandard() && pr.recs.layout == Layout::Strided, "records_strided_view");
    if let Init::Precomputed(c0) = &c.init {
        let nonstd = c0.len() >= 2 && pr.p >= 2;
        obs.class_if(nonstd && c.c0_layout == Layout::ColMajor, "precomputed_column_major");
        obs.class_if(nonstd && c.c0_layout == Layout::Strided, "precomputed_transposed_owned");
    }
    let d = distinct_rows(&pr.x64);
    let dup = d < pr.n;
    let few = d < c.k;
    obs.class_if(dup, "duplicate_points");
    obs.class_if(few, "fewer_distinct_points_than_k");
    (dup, few)
}

fn hull_of<F: Float>(pr: &Prep<F>, init: &Init) -> M64 {
    let mut h = pr.x64.clone();
    if let Init::Precomputed(c0) = init {
        let c0f: Vec<Vec<F>> = conv_rows(c0, &pr.xf_);
        let c064 = to64(&c0f);
        let (lo, hi) = bbox(&pr.x64, pr.p);
        let inside = c064.iter().all(|r| (0..pr.p).all(|j| r[j] >= lo[j] && r[j] <= hi[j]));
        if !inside {
            h.extend(c064);
        }
    }
    h
}

// ------------------------------------------------------------------------------------------------
// assign: one fit with arbitrary configuration; structure + arg-min on training, fresh and
// adversarial (centroid copies, centroid midpoints) points

pub fn check_assign(c: &Case, obs: &mut Obs) {
    dispatch!(c.data.f32_, c.metric, assign_impl, c, obs)
}

fn assign_impl<F: Float + std::fmt::Debug, D: Distance<F> + std::fmt::Debug + 'static>(c: &Case, obs: &mut Obs, dist: D) {
    let pr = prep::<F>(&c.data);
    if pr.n == 0 || pr.p == 0 || c.k == 0 || c.k > pr.n {
        obs.skip("degenerate_case");
        return;
    }
    let (dup, _few) = classify(c, &pr, obs);
    let hull = hull_of(&pr, &c.init);
    obs.class_if(hull.len() > pr.n, "precomputed_outside_data_box");
    {
        let (lo, hi) = bbox(&pr.x64, pr.p);
        let excl = (0..pr.p).any(|j| lo[j] > 0.0 || hi[j] < 0.0);
        obs.class_if(excl && c.init == Init::Para && c.max_iter <= 2, "para_small_budget_origin_outside_box");
    }
    let tol = c.tol.value(c.data.f32_);
    let rng = Xoshiro256Plus::seed_from_u64(c.seed);
    let Some(f) = fit(obs, &pr, c.k, rng, dist.clone(), &c.init, c.c0_layout, c.max_iter, tol, c.n_runs) else { return };
    if !check_structure(obs, &pr, c.k, &hull, &f) {
        return;
    }
    // layout twin: the same logical problem with every matrix stored row-major goes through the
    // same arithmetic, so the fitted model must be identical
    let c0_nonstd = matches!(&c.init, Init::Precomputed(_)) && c.c0_layout != Layout::RowMajor;
    if pr.recs.layout != Layout::RowMajor || c0_nonstd {
        let twin_recs = Laid::build(&pr.xf, pr.p, Layout::RowMajor);
        let rng = Xoshiro256Plus::seed_from_u64(c.seed);
        if let Some(t) = fit_on(obs, &pr, &twin_recs, c.k, rng, dist.clone(), &c.init, Layout::RowMajor, c.max_iter, tol, c.n_runs) {
            obs.class("row_major_twin_compared");
            obs.ensure(
                bits_equal(&t.cent, &f.cent) && t.counts == f.counts && t.inertia == f.inertia,
                "layout:model-differs-from-row-major-twin",
                || {
                    format!(
                        "records {:?}, precomputed centroids {:?}: centroids {:?} counts {:?} inertia {:e}; the same problem with row-major storage gives centroids {:?} counts {:?} inertia {:e}",
                        pr.recs.layout, c.c0_layout, f.cent64, f.counts, f.inertia, t.cent64, t.counts, t.inertia
                    )
                },
            );
        }
    }
    // a model whose centroid matrix keeps the caller's memory layout (one fit_with step)
    if matches!(&c.init, Init::Precomputed(_)) {
        let rng = Xoshiro256Plus::seed_from_u64(c.seed);
        if let Some(g) = fit_with_once(obs, &pr, c.k, rng, dist.clone(), &c.init, c.c0_layout, tol, 1) {
            let finite = g.cent64.iter().flatten().all(|v| v.is_finite()) && g.model.centroids().dim() == (c.k, pr.p);
            if obs.ensure(finite, "centroids:not-finite", || format!("fit_with model: centroids {:?}", g.cent64)) {
                obs.class_if(!g.model.centroids().is_standard_layout(), "model_centroids_not_row_major");
                let fresh: Vec<Vec<F>> = conv_rows(&c.queries, &pr.xf_);
                check_assignment(obs, &pr, c.metric, &g, &pr.xf, pr.recs.layout, "fit_with model, training");
                check_assignment(obs, &pr, c.metric, &g, &fresh, c.query_layout, "fit_with model, fresh");
            }
        }
    }
    let s_train = check_assignment(obs, &pr, c.metric, &f, &pr.xf, pr.recs.layout, "training");
    let fresh: Vec<Vec<F>> = conv_rows(&c.queries, &pr.xf_);
    let s_fresh = check_assignment(obs, &pr, c.metric, &f, &fresh, c.query_layout, "fresh");
    // adversarial queries derived from the fitted model: every centroid and every midpoint of two
    let mut adv: Vec<Vec<F>> = f.cent.clone();
    let two = F::cast(2.0);
    for a in 0..c.k {
        for b in a + 1..c.k {
            adv.push((0..pr.p).map(|j| (f.cent[a][j] + f.cent[b][j]) / two).collect());
        }
    }
    let s_adv = check_assignment(obs, &pr, c.metric, &f, &adv, c.query_layout, "centroid/midpoint");
    let ties = s_train.exact_ties + s_fresh.exact_ties + s_adv.exact_ties;
    let near = s_train.near_ties + s_fresh.near_ties + s_adv.near_ties;
    obs.class_if(ties > 0, "exact_tie_query");
    obs.class_if(near > 0, "near_tie_query");
    obs.class_if(!fresh.is_empty(), "fresh_queries");
    obs.class_if(s_train.clusters_hit >= 2, "two_or_more_clusters_used");
    obs.nontrivial_if(ties > 0 || dup || s_train.clusters_hit >= 2);
}

// ------------------------------------------------------------------------------------------------
// trajectory: Precomputed(C0), one run, budgets 1..=M+1

#[derive(PartialEq, Clone, Copy)]
enum Run {
    Running,
    Ambiguous,
    Stopped,
}

pub fn check_trajectory(c: &Case, obs: &mut Obs) {
    dispatch!(c.data.f32_, c.metric, trajectory_impl, c, obs)
}

fn trajectory_impl<F: Float, D: Distance<F>>(c: &Case, obs: &mut Obs, dist: D) {
    let pr = prep::<F>(&c.data);
    let Init::Precomputed(c0rows) = &c.init else {
        obs.skip("degenerate_case");
        return;
    };
    if pr.n == 0 || pr.p == 0 || c.k == 0 || c.k > pr.n || c0rows.len() != c.k || c0rows.iter().any(|r| r.len() != pr.p) {
        obs.skip("degenerate_case");
        return;
    }
    let (dup, _few) = classify(c, &pr, obs);
    let hull = hull_of(&pr, &c.init);
    obs.class_if(hull.len() > pr.n, "precomputed_outside_data_box");
    let tol = c.tol.value(c.data.f32_);
    let tau_f = F::cast(tol).to_f64().unwrap_or(f64::NAN);
    let scale = max_abs(&hull);
    let n = pr.n as f64;
    let rec_tol = (n + 64.0) * pr.eps * scale + 16.0 * pr.tiny;

    let mut prev: Vec<Vec<F>> = conv_rows(c0rows, &pr.xf_);
    let mut prev64 = to64(&prev);
    let mut state = Run::Running;
    let mut prev_assign: Option<Vec<usize>> = None;
    let mut changes = 0usize;
    let mut tie_seen = false;
    let mut stats_judged = false;
    let mut steps_judged = 0usize;

    for m in 1..=c.max_iter + 1 {
        let rng = Xoshiro256Plus::seed_from_u64(c.seed);
        let Some(f) = fit(obs, &pr, c.k, rng, dist.clone(), &c.init, c.c0_layout, m, tol, 1) else { return };
        if !check_structure(obs, &pr, c.k, &hull, &f) {
            return;
        }
        let same = bits_equal(&prev, &f.cent);
        // a run whose result does not change when the budget grows by one has stopped (movement
        // below the tolerance) or sits on a fixed point: its statistics must describe the result
        if same && !stats_judged {
            stats_judged = true;
            obs.class("converged_run_statistics_judged");
            check_converged_stats(obs, &pr, c.metric, &f, tau_f, true, &format!("budget {m}"));
        }
        if state == Run::Stopped {
            obs.ensure(same, "trajectory:moved-after-stop", || {
                format!("budget {m}: the loop had stopped at a smaller budget (movement below tolerance {tol:e}) but the centroids changed: {:?} -> {:?}", prev64, f.cent64)
            });
            if !same {
                return;
            }
            continue;
        }
        if state == Run::Ambiguous && same {
            state = Run::Stopped;
            continue;
        }
        // the step that must have been taken from `prev`
        let near: Vec<Nearest> = (0..pr.n).map(|i| nearest(c.metric, pr.eps, pr.tiny, &pr.x64[i], &pr.xf[i], &prev64, &prev)).collect();
        tie_seen |= near.iter().any(|x| x.exact_tie);
        if near.iter().all(|x| x.determined()) {
            // tie-agnostic: the statement does not say which of several exactly equidistant
            // centroids receives a point. Candidate assignments: all combinations when at most 4
            // points are tied (<= 256 combinations), otherwise the lowest-index and the
            // highest-index convention only (then a mismatch is "not judged", not a failure).
            let tied: Vec<usize> = (0..pr.n).filter(|&i| !near[i].unique()).collect();
            let base: Vec<usize> = near.iter().map(|x| x.first).collect();
            let combos: usize = tied.iter().fold(1usize, |acc, &i| acc.saturating_mul(near[i].near.len().max(1)));
            let exhaustive = tied.len() <= 4 && combos <= 256;
            let mut candidates: Vec<Vec<usize>> = vec![];
            if tied.is_empty() {
                candidates.push(base.clone());
            } else if exhaustive {
                for mut code in 0..combos {
                    let mut a = base.clone();
                    for &i in &tied {
                        let opts = &near[i].near;
                        a[i] = opts[code % opts.len()];
                        code /= opts.len();
                    }
                    candidates.push(a);
                }
            } else {
                candidates.push(base.clone());
                let mut last = base.clone();
                for &i in &tied {
                    last[i] = *near[i].near.last().unwrap_or(&base[i]);
                }
                candidates.push(last);
            }
            let mut best: Option<(f64, (usize, usize), M64, Vec<usize>)> = None;
            for a in candidates {
                let want = step(&pr.x64, &prev64, &a);
                let mut worst = 0.0f64;
                let mut at = (0, 0);
                for ci in 0..c.k {
                    for j in 0..pr.p {
                        let d = (want[ci][j] - f.cent64[ci][j]).abs();
                        if !(d <= worst) {
                            worst = d;
                            at = (ci, j);
                        }
                    }
                }
                let better = match &best {
                    None => true,
                    Some((w, ..)) => worst < *w,
                };
                if better {
                    best = Some((worst, at, want, a));
                }
                if worst <= rec_tol {
                    break;
                }
            }
            if let Some((worst, at, want, assign)) = best {
                if worst <= rec_tol {
                    steps_judged += 1;
                    if let Some(pa) = &prev_assign {
                        if *pa != assign {
                            changes += 1;
                        }
                    }
                    prev_assign = Some(assign);
                } else if tied.is_empty() || exhaustive {
                    steps_judged += 1;
                    obs.fail(
                        "trajectory:step-mismatch",
                        format!(
                            "budget {m}: centroid {} coordinate {} is {:e}; mean of its assigned points and its previous position {:?} gives {:e} (tolerance {rec_tol:e}; closest of {} admissible assignments of the {} exactly tied points); previous centroids {:?}",
                            at.0, at.1, f.cent64[at.0][at.1], prev64[at.0], want[at.0][at.1], combos.max(1), tied.len(), prev64
                        ),
                    );
                    prev_assign = None;
                } else {
                    obs.class("exact_tie_step_not_judged");
                    prev_assign = None;
                }
            }
        } else {
            obs.class("near_tie_step_not_judged");
            prev_assign = None;
        }
        if c.metric == Metric::L2 {
            let c_prev = cost(c.metric, &pr.x64, &prev64);
            let c_cur = cost(c.metric, &pr.x64, &f.cent64);
            let delta = rec_tol * (pr.p as f64).sqrt();
            let allowed = 4.0 * (n * c_prev).sqrt() * delta + 2.0 * n * delta * delta + 1e-12 * c_prev;
            obs.ensure(c_cur <= c_prev + allowed, "trajectory:cost-increased", || {
                format!("budget {} -> {m}: within-cluster cost rose from {c_prev:e} to {c_cur:e} (allowed rounding {allowed:e})", m - 1)
            });
        }
        // stopping rule, evaluated on the same two matrices in the element type
        let d = dist2d_f(c.metric, &prev, &f.cent).to_f64().unwrap_or(f64::NAN);
        state = if d < 0.5 * tau_f {
            Run::Stopped
        } else if d > 2.0 * tau_f {
            Run::Running
        } else {
            Run::Ambiguous
        };
        prev = f.cent;
        prev64 = f.cent64;
    }
    obs.class_if(state == Run::Stopped, "stopped_within_budget");
    obs.class_if(state == Run::Running, "budget_exhausted");
    obs.class_if(tie_seen, "exact_tie_in_assignment");
    obs.class_if(changes >= 2, "two_or_more_reassigning_steps");
    obs.class_if(steps_judged >= 2, "two_or_more_steps_judged");
    obs.nontrivial_if(changes >= 2 || tie_seen || dup);
}

// ------------------------------------------------------------------------------------------------
// restarts: fit(n_runs = j) for j = 1..=r against the r single runs re-created at the measured
// stream positions

pub fn check_restarts(c: &Case, obs: &mut Obs) {
    dispatch!(c.data.f32_, c.metric, restarts_impl, c, obs)
}

fn restarts_impl<F: Float + std::fmt::Debug, D: Distance<F> + std::fmt::Debug + 'static>(c: &Case, obs: &mut Obs, dist: D) {
    let pr = prep::<F>(&c.data);
    if pr.n == 0 || pr.p == 0 || c.k == 0 || c.k > pr.n || c.n_runs == 0 {
        obs.skip("degenerate_case");
        return;
    }
    let (dup, _few) = classify(c, &pr, obs);
    let hull = hull_of(&pr, &c.init);
    let tol = c.tol.value(c.data.f32_);
    let tau_f = F::cast(tol).to_f64().unwrap_or(f64::NAN);
    let r = c.n_runs;
    let budget = c.max_iter + 1;
    if !incr_restarts(c, &pr, obs, dist.clone(), tol) {
        return;
    }

    // prefix fits: j restarts from the same seed
    let mut pos = vec![0u64];
    let mut prefix = vec![];
    for j in 1..=r {
        let rng = CountRng::new(c.seed, 0);
        let handle = rng.clone();
        let Some(f) = fit(obs, &pr, c.k, rng, dist.clone(), &c.init, c.c0_layout, budget, tol, j) else { return };
        if !check_structure(obs, &pr, c.k, &hull, &f) {
            return;
        }
        pos.push(handle.count());
        prefix.push(f);
    }
    for j in 1..r {
        obs.ensure(prefix[j].inertia <= prefix[j - 1].inertia, "restarts:inertia-increased-with-more-runs", || {
            format!("same seed: n_runs = {} reports inertia {:e}, n_runs = {} reports {:e}", j, prefix[j - 1].inertia, j + 1, prefix[j].inertia)
        });
    }
    // the single runs, each started where the corresponding restart started
    let mut single = vec![];
    let mut converged = vec![];
    for i in 1..=r {
        let rng = CountRng::new(c.seed, pos[i - 1]);
        let handle = rng.clone();
        let Some(f) = fit(obs, &pr, c.k, rng, dist.clone(), &c.init, c.c0_layout, budget, tol, 1) else { return };
        if handle.count() != pos[i].wrapping_sub(pos[i - 1]) {
            // the initialiser did not consume the stream as a prefix: runs cannot be re-created
            obs.skip("rng_stream_not_prefix_stable");
            return;
        }
        let rng = CountRng::new(c.seed, pos[i - 1]);
        let Some(g) = fit(obs, &pr, c.k, rng, dist.clone(), &c.init, c.c0_layout, budget - 1, tol, 1) else { return };
        if !check_structure(obs, &pr, c.k, &hull, &f) {
            return;
        }
        let conv = bits_equal(&f.cent, &g.cent);
        if conv {
            check_converged_stats(obs, &pr, c.metric, &f, tau_f, true, &format!("single run {i}"));
        }
        converged.push(conv);
        single.push(f);
    }
    let mut differing = false;
    for i in 1..r {
        differing |= !bits_equal(&single[i].cent, &single[0].cent);
    }
    let mut defect_shape = false;
    for j in 1..=r {
        let got = &prefix[j - 1];
        let best = single[..j].iter().map(|s| s.inertia).fold(f64::INFINITY, f64::min);
        obs.ensure(got.inertia == best, "restarts:inertia-not-minimum-over-runs", || {
            format!(
                "n_runs = {j}: reported inertia {:e}; the {j} runs on their own report {:?}",
                got.inertia,
                single[..j].iter().map(|s| s.inertia).collect::<Vec<_>>()
            )
        });
        // runs whose own inertia equals the minimum (several only if they tie exactly)
        let cands: Vec<usize> = (0..j).filter(|&i| single[i].inertia == best).collect();
        let matched: Vec<usize> = cands.iter().copied().filter(|&i| bits_equal(&single[i].cent, &got.cent)).collect();
        if !obs.ensure(!matched.is_empty(), "restarts:centroids-not-from-best-run", || {
            format!(
                "n_runs = {j}: returned centroids {:?} are not those of a minimum-inertia run (runs {:?} have inertia {best:e}; all inertias {:?})",
                got.cent64,
                cands,
                single[..j].iter().map(|s| s.inertia).collect::<Vec<_>>()
            )
        }) {
            continue;
        }
        let counts_ok = matched.iter().any(|&i| single[i].counts == got.counts);
        let last = &single[j - 1];
        let mut judge_counts = true;
        if !counts_ok {
            judge_counts = false;
            if got.counts == last.counts {
                defect_shape = true;
                obs.fail(
                    "cluster_count:from-last-restart",
                    format!(
                        "n_runs = {j}: centroids and inertia are those of run {} (inertia {:e}, counts {:?}) but cluster_count = {:?} is the membership histogram of the last run {j} (inertia {:e})",
                        matched[0] + 1,
                        best,
                        single[matched[0]].counts,
                        got.counts,
                        last.inertia
                    ),
                );
            } else {
                obs.fail(
                    "restarts:cluster_count-mismatch",
                    format!("n_runs = {j}: cluster_count {:?} matches neither the best run ({:?}) nor the last run ({:?})", got.counts, single[matched[0]].counts, last.counts),
                );
            }
        }
        if matched.iter().all(|&i| converged[i]) {
            obs.class("best_run_converged");
            check_converged_stats(obs, &pr, c.metric, got, tau_f, judge_counts, &format!("n_runs = {j}"));
        }
        obs.class_if(!matched.contains(&(j - 1)) && j >= 2, "best_run_is_not_last");
    }
    obs.class_if(defect_shape, "counts_of_last_run_observed");
    obs.class_if(differing, "runs_reach_different_centroids");
    obs.class_if(converged.iter().all(|b| *b), "all_runs_converged");
    obs.nontrivial_if((r >= 2 && differing) || dup);
}

/// The incremental entry point: `fit_with(None, batch)` draws `n_runs` initialisations from the
/// caller's RNG stream and keeps the cheapest one (cost = sum of minimal reduced distances of the
/// batch), then performs one mini-batch step. For j = 1..=R the result must be the one-restart result
/// of a cheapest candidate among the first j, re-created at the measured stream positions; hence
/// the reported inertia never rises with j. Returns false when nothing further can be judged.
fn incr_restarts<F: Float + std::fmt::Debug, D: Distance<F> + std::fmt::Debug + 'static>(c: &Case, pr: &Prep<F>, obs: &mut Obs, dist: D, tol: f64) -> bool {
    let rr = c.incr_runs;
    if rr == 0 {
        return true;
    }
    obs.class("incremental_entry_point");
    obs.class_if(rr >= 3, "incremental_n_runs_ge_3");
    let mut pos = vec![0u64];
    let mut prefix = vec![];
    for j in 1..=rr {
        let rng = CountRng::new(c.seed, 0);
        let handle = rng.clone();
        let Some(f) = fit_with_once(obs, pr, c.k, rng, dist.clone(), &c.init, c.c0_layout, tol, j) else { return false };
        pos.push(handle.count());
        prefix.push(f);
    }
    let mut single = vec![];
    for i in 1..=rr {
        let rng = CountRng::new(c.seed, pos[i - 1]);
        let handle = rng.clone();
        let Some(f) = fit_with_once(obs, pr, c.k, rng, dist.clone(), &c.init, c.c0_layout, tol, 1) else { return false };
        if handle.count() != pos[i].wrapping_sub(pos[i - 1]) {
            obs.skip("rng_stream_not_prefix_stable");
            return false;
        }
        single.push(f);
    }
    for j in 1..rr {
        obs.ensure(prefix[j].inertia <= prefix[j - 1].inertia, "incr:inertia-increased-with-more-runs", || {
            format!(
                "fit_with(None, ..), same seed: n_runs = {} reports inertia {:e}, n_runs = {} reports {:e}; the restarts on their own: {:?}",
                j,
                prefix[j - 1].inertia,
                j + 1,
                prefix[j].inertia,
                single[..=j].iter().map(|s| s.inertia).collect::<Vec<_>>()
            )
        });
    }
    let mut pattern = false;
    for j in 1..=rr {
        let got = &prefix[j - 1];
        let costs: Vec<f64> = single[..j].iter().map(|s| s.inertia).collect();
        let best = costs.iter().cloned().fold(f64::INFINITY, f64::min);
        obs.ensure(got.inertia == best, "incr:inertia-not-minimum-over-candidates", || {
            format!("fit_with(None, ..) with n_runs = {j}: reported inertia {:e}; the {j} initialisations on their own give {:?}", got.inertia, costs)
        });
        let cands: Vec<usize> = (0..j).filter(|&i| costs[i] == best).collect();
        let ok = cands.iter().any(|&i| bits_equal(&single[i].cent, &got.cent) && single[i].counts == got.counts);
        obs.ensure(ok, "incr:model-not-from-best-candidate", || {
            format!(
                "fit_with(None, ..) with n_runs = {j}: centroids {:?} / counts {:?} are not those obtained from a cheapest initialisation (candidates {:?} of costs {:?})",
                got.cent64, got.counts, cands, costs
            )
        });
        // a later restart beats the first one but is not the best so far (e.g. costs [9, 5, 7])
        if j >= 3 {
            let last = costs[j - 1];
            let best_before = costs[..j - 1].iter().cloned().fold(f64::INFINITY, f64::min);
            pattern |= last < costs[0] && last > best_before;
        }
    }
    obs.class_if(pattern, "incremental_later_restart_beats_first_but_not_best");
    true
}

// ------------------------------------------------------------------------------------------------
// large: n in the hundreds/thousands so that the parallel assignment loop really splits

pub fn check_large(c: &LargeCase, obs: &mut Obs) {
    limit_pool();
    if c.init_kind < 2 {
        // deterministic initialisers: let the assignment loop run on three workers
        if let Ok(pool) = rayon::ThreadPoolBuilder::new().num_threads(3).build() {
            obs.class("three_worker_pool");
            pool.install(|| dispatch!(c.f32_, c.metric, large_impl, c, obs));
            return;
        }
    }
    dispatch!(c.f32_, c.metric, large_impl, c, obs)
}

fn large_impl<F: Float, D: Distance<F>>(c: &LargeCase, obs: &mut Obs, dist: D) {
    if c.n == 0 || c.p == 0 || c.k == 0 || c.k > c.n {
        obs.skip("degenerate_case");
        return;
    }
    let data = Data { kind: DataKind::Blobs, f32_: c.f32_, scale_exp: 0, offset: vec![], layout: Layout::RowMajor, rows: large_rows(c) };
    let pr = prep::<F>(&data);
    let init = match c.init_kind {
        0 => Init::Random,
        1 => Init::PlusPlus,
        _ => Init::Para,
    };
    obs.class(match init {
        Init::Random => "init_random",
        Init::PlusPlus => "init_plusplus",
        _ => "init_para",
    });
    obs.class(if c.f32_ { "f32" } else { "f64" });
    obs.class_if(c.n >= 2048, "n_ge_2048");
    obs.class_if(c.n >= 2048 && c.n % 256 != 0, "n_ge_2048_not_multiple_of_256");
    obs.class_if(c.n % 64 == 0, "n_multiple_of_64");
    obs.class_if(c.n % 64 == 1 || c.n % 64 == 63, "n_multiple_of_64_plus_minus_1");
    // one Lloyd step (budgets 1 and 2) from k distinct training rows as precomputed start: the
    // recurrence, the statistics and the structure are judged exactly as in `trajectory`
    {
        let mut g = vengine::gen::SplitMix(c.seed ^ 0x5eed);
        let mut picks: Vec<usize> = vec![];
        while picks.len() < c.k {
            let i = g.below(c.n);
            if !picks.contains(&i) {
                picks.push(i);
            }
        }
        let c0: Vec<Vec<f64>> = picks.iter().map(|&i| data.rows[i].clone()).collect();
        let tc = Case {
            incr_runs: 0,
            data: data.clone(),
            k: c.k,
            metric: c.metric,
            init: Init::Precomputed(c0),
            max_iter: 1,
            tol: Tol::T1e4,
            n_runs: 1,
            seed: c.seed,
            queries: vec![],
            c0_layout: Layout::RowMajor,
            query_layout: Layout::RowMajor,
        };
        trajectory_impl::<F, D>(&tc, obs, dist.clone());
    }
    let tol = 1e-4;
    let rng = Xoshiro256Plus::seed_from_u64(c.seed);
    let Some(f) = fit(obs, &pr, c.k, rng, dist.clone(), &init, Layout::RowMajor, 300, tol, c.n_runs) else { return };
    if !check_structure(obs, &pr, c.k, &pr.x64, &f) {
        return;
    }
    let st = check_assignment(obs, &pr, c.metric, &f, &pr.xf, pr.recs.layout, "training");
    if init != Init::Para && c.n_runs == 1 {
        let rng = Xoshiro256Plus::seed_from_u64(c.seed);
        let Some(g) = fit(obs, &pr, c.k, rng, dist, &init, Layout::RowMajor, 301, tol, 1) else { return };
        if bits_equal(&f.cent, &g.cent) {
            obs.class("converged_run_statistics_judged");
            let tau_f = F::cast(tol).to_f64().unwrap_or(f64::NAN);
            check_converged_stats(obs, &pr, c.metric, &g, tau_f, true, "budget 301");
        }
    }
    obs.nontrivial_if(st.clusters_hit >= 2);
}
