fn main() {
    vengine::main(c09::property())
}
