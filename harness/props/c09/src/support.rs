//! Glue between the plain-data cases and linfa's k-means, plus the obligations shared by all
//! sub-checks (structure of the model, arg-min of predict/transform, statistics of a converged run).

use crate::cases::{Data, Init, Layout, Metric};
use crate::oracle::*;
use linfa::traits::{Fit, Predict, Transformer};
use linfa::{DatasetBase, Float};
use linfa_clustering::{KMeans, KMeansInit};
use linfa_nn::distance::Distance;
use ndarray::{s, Array1, Array2, ArrayView2, ShapeBuilder};
use rand::{Error, RngCore};
use rand_xoshiro::rand_core::SeedableRng;
use rand_xoshiro::Xoshiro256Plus;
use std::sync::atomic::{AtomicU64, Ordering};
use std::sync::Arc;
use vengine::Obs;

/// Xoshiro256+ whose every draw goes through `next_u64` and is counted (shared by clones), so the
/// stream position at which restart i begins can be measured and re-created.
#[derive(Clone, Debug)]
pub struct CountRng {
    inner: Xoshiro256Plus,
    pub draws: Arc<AtomicU64>,
}

impl CountRng {
    pub fn new(seed: u64, skip: u64) -> Self {
        let mut inner = Xoshiro256Plus::seed_from_u64(seed);
        for _ in 0..skip {
            inner.next_u64();
        }
        CountRng { inner, draws: Arc::new(AtomicU64::new(0)) }
    }
    pub fn count(&self) -> u64 {
        self.draws.load(Ordering::SeqCst)
    }
}

impl RngCore for CountRng {
    fn next_u32(&mut self) -> u32 {
        (self.next_u64() >> 32) as u32
    }
    fn next_u64(&mut self) -> u64 {
        self.draws.fetch_add(1, Ordering::SeqCst);
        self.inner.next_u64()
    }
    fn fill_bytes(&mut self, dest: &mut [u8]) {
        for chunk in dest.chunks_mut(8) {
            let v = self.next_u64().to_le_bytes();
            chunk.copy_from_slice(&v[..chunk.len()]);
        }
    }
    fn try_fill_bytes(&mut self, dest: &mut [u8]) -> Result<(), Error> {
        self.fill_bytes(dest);
        Ok(())
    }
}

pub struct Prep<F> {
    pub recs: Laid<F>,
    pub xf: Vec<Vec<F>>,
    pub x64: M64,
    pub n: usize,
    pub p: usize,
    /// machine epsilon / smallest positive normal of the element type
    pub eps: f64,
    pub tiny: f64,
    pub f32_: bool,
    pub xf_: Xform,
}

/// offset + power-of-two scaling applied to every generated coordinate
#[derive(Clone, Debug)]
pub struct Xform {
    pub scale_exp: i8,
    pub offset: Vec<f64>,
}

impl Xform {
    pub fn of(d: &Data) -> Self {
        Xform { scale_exp: d.scale_exp, offset: d.offset.clone() }
    }
}

pub fn conv_rows<F: Float>(rows: &[Vec<f64>], x: &Xform) -> Vec<Vec<F>> {
    let s = 2f64.powi(x.scale_exp as i32);
    rows.iter()
        .map(|r| r.iter().enumerate().map(|(j, v)| F::cast((v + x.offset.get(j).copied().unwrap_or(0.0)) * s)).collect())
        .collect()
}

pub fn to_arr<F: Float>(rows: &[Vec<F>], p: usize) -> Array2<F> {
    Array2::from_shape_fn((rows.len(), p), |(i, j)| rows[i][j])
}

/// value put into the rows a strided view skips; reading it shows up as a wrong result
const FILLER: f64 = -12345.678;

/// A logical n×p matrix stored in one of the three layouts.
pub struct Laid<F> {
    pub store: Array2<F>,
    pub strided: bool,
    pub layout: Layout,
}

impl<F: Float> Laid<F> {
    pub fn build(rows: &[Vec<F>], p: usize, layout: Layout) -> Self {
        let n = rows.len();
        let store = match layout {
            Layout::RowMajor => to_arr(rows, p),
            Layout::ColMajor => Array2::from_shape_fn((n, p).f(), |(i, j)| rows[i][j]),
            Layout::Strided => Array2::from_shape_fn((2 * n, p), |(i, j)| if i % 2 == 0 { rows[i / 2][j] } else { F::cast(FILLER) }),
        };
        Laid { store, strided: layout == Layout::Strided, layout }
    }
    pub fn view(&self) -> ArrayView2<'_, F> {
        if self.strided {
            self.store.slice(s![..;2, ..])
        } else {
            self.store.view()
        }
    }
    /// the layout really differs from the standard one (needs >= 2 rows and >= 2 columns)
    pub fn nonstandard(&self) -> bool {
        !self.view().is_standard_layout()
    }
}

/// precomputed centroid matrix (always owned: `KMeansInit::Precomputed` takes an `Array2`)
pub fn centroid_matrix<F: Float>(rows: &[Vec<F>], p: usize, layout: Layout) -> Array2<F> {
    let k = rows.len();
    match layout {
        Layout::RowMajor => to_arr(rows, p),
        Layout::ColMajor => Array2::from_shape_fn((k, p).f(), |(i, j)| rows[i][j]),
        Layout::Strided => Array2::from_shape_fn((p, k), |(j, i)| rows[i][j]).t().to_owned(),
    }
}

pub fn from_arr<F: Float>(a: &Array2<F>) -> Vec<Vec<F>> {
    a.rows().into_iter().map(|r| r.iter().copied().collect()).collect()
}

pub fn prep<F: Float>(d: &Data) -> Prep<F> {
    let xf_ = Xform::of(d);
    let xf: Vec<Vec<F>> = conv_rows(&d.rows, &xf_);
    let p = d.rows.first().map(|r| r.len()).unwrap_or(0);
    Prep {
        recs: Laid::build(&xf, p, d.layout),
        x64: to64(&xf),
        n: xf.len(),
        p,
        xf,
        eps: F::epsilon().to_f64().unwrap_or(f64::NAN),
        tiny: F::min_positive_value().to_f64().unwrap_or(f64::NAN),
        f32_: d.f32_,
        xf_,
    }
}

pub struct Fitted<F: Float, D: Distance<F>> {
    pub model: KMeans<F, D>,
    pub cent: Vec<Vec<F>>,
    pub cent64: M64,
    pub counts: Vec<f64>,
    pub inertia: f64,
}

pub fn linfa_init<F: Float>(init: &Init, x: &Xform, p: usize, layout: Layout) -> KMeansInit<F> {
    match init {
        Init::Random => KMeansInit::Random,
        Init::PlusPlus => KMeansInit::KMeansPlusPlus,
        Init::Para => KMeansInit::KMeansPara,
        Init::Precomputed(c0) => KMeansInit::Precomputed(centroid_matrix(&conv_rows::<F>(c0, x), p, layout)),
    }
}

/// Every (sub-check, chunk) is its own process and the engine already fills the cores with them.
/// linfa's global rayon pool is kept at ONE worker so that every evaluation is a pure function of
/// the case: KMeans|| seeds one RNG per rayon job, so with several workers its result (and hence a
/// replay) would depend on scheduling. `large` installs a 3-worker pool for the deterministic
/// initialisers so that the parallel assignment loop really splits there.
pub fn limit_pool() {
    static ONCE: std::sync::Once = std::sync::Once::new();
    ONCE.call_once(|| {
        let _ = rayon::ThreadPoolBuilder::new().num_threads(1).build_global();
    });
}

#[allow(clippy::too_many_arguments)]
pub fn fit<F: Float, D: Distance<F>, R: rand::Rng + Clone>(
    obs: &mut Obs,
    pr: &Prep<F>,
    k: usize,
    rng: R,
    dist: D,
    init: &Init,
    c0_layout: Layout,
    max_iter: u64,
    tol: f64,
    n_runs: usize,
) -> Option<Fitted<F, D>> {
    fit_on(obs, pr, &pr.recs, k, rng, dist, init, c0_layout, max_iter, tol, n_runs)
}

/// `fit` on an explicitly given storage of the training records (row-major twin, ...)
#[allow(clippy::too_many_arguments)]
pub fn fit_on<F: Float, D: Distance<F>, R: rand::Rng + Clone>(
    obs: &mut Obs,
    pr: &Prep<F>,
    recs: &Laid<F>,
    k: usize,
    rng: R,
    dist: D,
    init: &Init,
    c0_layout: Layout,
    max_iter: u64,
    tol: f64,
    n_runs: usize,
) -> Option<Fitted<F, D>> {
    limit_pool();
    let li = linfa_init::<F>(init, &pr.xf_, pr.p, c0_layout);
    let params = KMeans::params_with(k, rng, dist)
        .n_runs(n_runs)
        .tolerance(F::cast(tol))
        .max_n_iterations(max_iter)
        .init_method(li);
    let r = obs.call("fit", || {
        if recs.strided {
            params.fit(&DatasetBase::from(recs.view())).map_err(|e| e.to_string())
        } else {
            params.fit(&DatasetBase::from(recs.store.clone())).map_err(|e| e.to_string())
        }
    })?;
    match r {
        Err(e) => {
            obs.fail("fit:error", format!("fit returned an error for valid hyper-parameters: {e}"));
            None
        }
        Ok(model) => Some(fitted_of(model)),
    }
}

pub fn fitted_of<F: Float, D: Distance<F>>(model: KMeans<F, D>) -> Fitted<F, D> {
    let cent = from_arr(model.centroids());
    let cent64 = to64(&cent);
    let counts = model.cluster_count().iter().map(|v| v.to_f64().unwrap_or(f64::NAN)).collect();
    let inertia = model.inertia().to_f64().unwrap_or(f64::NAN);
    Fitted { model, cent, cent64, counts, inertia }
}

/// One mini-batch step from `Precomputed(C0)` through `fit_with(None, ..)`: the returned model keeps
/// the memory layout of the caller's centroid matrix. Only used as a *model* for predict/transform.
pub fn fit_with_once<F: Float + std::fmt::Debug, D: Distance<F> + std::fmt::Debug + 'static, R: rand::Rng + Clone>(
    obs: &mut Obs,
    pr: &Prep<F>,
    k: usize,
    rng: R,
    dist: D,
    init: &Init,
    c0_layout: Layout,
    tol: f64,
    n_runs: usize,
) -> Option<Fitted<F, D>> {
    use linfa::traits::FitWith;
    use linfa::ParamGuard;
    use linfa_clustering::IncrKMeansError;
    limit_pool();
    let li = linfa_init::<F>(init, &pr.xf_, pr.p, c0_layout);
    let params = KMeans::params_with(k, rng, dist).n_runs(n_runs).tolerance(F::cast(tol)).init_method(li).check().ok()?;
    let r = obs.call("fit_with", || {
        let res = if pr.recs.strided {
            params.fit_with(None, &DatasetBase::from(pr.recs.view()))
        } else {
            params.fit_with(None, &DatasetBase::from(pr.recs.store.clone()))
        };
        match res {
            Ok(m) => Ok(m),
            Err(IncrKMeansError::NotConverged(m)) => Ok(m),
            Err(e) => Err(e.to_string()),
        }
    })?;
    match r {
        Ok(m) => Some(fitted_of(m)),
        Err(e) => {
            obs.fail("fit_with:error", format!("fit_with returned an error for valid hyper-parameters: {e}"));
            None
        }
    }
}

/// Obligation (1) + the unconditional part of (5): k finite centroids of dimension p, inside the
/// bounding box of `hull` (training data, plus the precomputed start when there is one), counts are
/// non-negative integers summing to n, inertia finite and non-negative. Returns false when the
/// model is structurally unusable for further judging.
pub fn check_structure<F: Float, D: Distance<F>>(obs: &mut Obs, pr: &Prep<F>, k: usize, hull: &M64, f: &Fitted<F, D>) -> bool {
    let dim = f.model.centroids().dim();
    if !obs.ensure(dim == (k, pr.p), "centroids:shape", || format!("centroid matrix has shape {:?}, expected ({k}, {})", dim, pr.p)) {
        return false;
    }
    let finite = f.cent64.iter().flatten().all(|v| v.is_finite());
    if !obs.ensure(finite, "centroids:not-finite", || format!("centroids contain a non-finite value: {:?}", f.cent64)) {
        return false;
    }
    let (lo, hi) = bbox(hull, pr.p);
    let scale = max_abs(hull);
    // a centroid is a convex combination of hull points computed with (count+1) rounded additions:
    // steady-state excursion <= 2 (n+2) eps scale
    let slack = (2.0 * pr.n as f64 + 8.0) * pr.eps * scale + 16.0 * pr.tiny;
    for (c, row) in f.cent64.iter().enumerate() {
        for j in 0..pr.p {
            let v = row[j];
            obs.ensure(v >= lo[j] - slack && v <= hi[j] + slack, "centroids:outside-bounding-box", || {
                format!("centroid {c} coordinate {j} = {v:e} outside [{:e}, {:e}] (slack {slack:e})", lo[j], hi[j])
            });
        }
    }
    let ok_counts = f.counts.len() == k && f.counts.iter().all(|v| v.is_finite() && *v >= 0.0 && v.fract() == 0.0);
    let sum: f64 = f.counts.iter().sum();
    obs.ensure(ok_counts && sum == pr.n as f64, "cluster_count:sum", || {
        format!("cluster_count {:?} is not a vector of {k} non-negative integers summing to n = {}", f.counts, pr.n)
    });
    obs.ensure(f.inertia.is_finite() && f.inertia >= 0.0, "inertia:not-finite-or-negative", || format!("inertia = {}", f.inertia));
    true
}

#[derive(Default)]
pub struct AssignStats {
    pub exact_ties: usize,
    pub near_ties: usize,
    pub clusters_hit: usize,
}

/// Obligation (2): predict (batch and single-row form) returns an index at minimal reduced distance
/// (independent scan, ± float tolerance; on a tie ANY minimal index is accepted — the statement does
/// not fix the tie-break); transform returns the minimal reduced distance.
pub fn check_assignment<F: Float, D: Distance<F>>(
    obs: &mut Obs,
    pr: &Prep<F>,
    metric: Metric,
    f: &Fitted<F, D>,
    pts: &[Vec<F>],
    layout: Layout,
    what: &str,
) -> AssignStats {
    let mut st = AssignStats::default();
    if pts.is_empty() {
        return st;
    }
    let k = f.cent.len();
    let laid = Laid::build(pts, pr.p, layout);
    let p64 = to64(pts);
    let batch: Option<Array1<usize>> = obs.call("predict", || if laid.strided { f.model.predict(&laid.view()) } else { f.model.predict(&laid.store) });
    let trans: Option<Array1<F>> = obs.call("transform", || if laid.strided { f.model.transform(&laid.view()) } else { f.model.transform(&laid.store) });
    let singles: Option<Vec<usize>> = obs.call("predict_single", || {
        laid.view().rows().into_iter().map(|r| -> usize { f.model.predict(&r) }).collect()
    });
    if layout != Layout::RowMajor {
        // same values, same per-row arithmetic: the reduced distances must be bit-identical to
        // those of the row-major twin of the batch
        let twin = to_arr(pts, pr.p);
        let t2: Option<Array1<F>> = obs.call("transform", || f.model.transform(&twin));
        if let (Some(a), Some(b)) = (&trans, &t2) {
            let same = a.len() == b.len() && a.iter().zip(b.iter()).all(|(x, y)| x == y);
            obs.ensure(same, "layout:transform-differs-from-row-major-twin", || {
                format!("{what}: transform of the {layout:?} batch gives {:?}, of the same rows stored row-major {:?}", a.to_vec(), b.to_vec())
            });
        }
    }
    if let Some(b) = &batch {
        obs.ensure(b.len() == pts.len(), "predict:length", || format!("{what}: {} predictions for {} rows", b.len(), pts.len()));
    }
    if let Some(t) = &trans {
        obs.ensure(t.len() == pts.len(), "transform:length", || format!("{what}: {} distances for {} rows", t.len(), pts.len()));
    }
    let mut hit = vec![false; k];
    for i in 0..pts.len() {
        let nr = nearest(metric, pr.eps, pr.tiny, &p64[i], &pts[i], &f.cent64, &f.cent);
        if nr.exact_tie {
            st.exact_ties += 1;
        } else if !nr.unique() {
            st.near_ties += 1;
        }
        let mut judge = |obs: &mut Obs, got: usize, form: &str| {
            if got >= k {
                obs.fail("predict:index-out-of-range", format!("{what} row {i} ({form}): index {got} with k = {k}"));
                return;
            }
            hit[got] = true;
            if !nr.near.contains(&got) {
                obs.fail(
                    "predict:not-nearest",
                    format!(
                        "{what} row {i} ({form}) = {:?}: assigned to centroid {got} at reduced distance {:e}, centroid {} is at {:e}",
                        p64[i],
                        rdist(metric, &p64[i], &f.cent64[got]),
                        nr.first,
                        nr.rmin
                    ),
                );
            }
        };
        if let Some(b) = &batch {
            if let Some(&g) = b.get(i) {
                judge(obs, g, "batch");
            }
        }
        if let Some(s) = &singles {
            if let Some(&g) = s.get(i) {
                judge(obs, g, "single-row");
            }
        }
        if let Some(t) = &trans {
            if let Some(v) = t.get(i) {
                let v = v.to_f64().unwrap_or(f64::NAN);
                let tol = rdist_tol(metric, pr.eps, pr.tiny, nr.rmin);
                obs.ensure((v - nr.rmin).abs() <= tol, "transform:not-minimal-distance", || {
                    format!("{what} row {i} = {:?}: transform gives {v:e}, smallest reduced distance is {:e} (tolerance {tol:e})", p64[i], nr.rmin)
                });
            }
        }
    }
    st.clusters_hit = hit.iter().filter(|h| **h).count();
    st
}

/// Obligation (5) for a model whose reported statistics are known to stem from centroids `C_prev`
/// with `distance(C_prev, C) < tau` (a run shown to have stopped / reached a fixed point):
/// every training point whose nearest centroid is clear by more than the movement bound must be
/// counted in that cluster; the other points may be counted in any of their candidates; the inertia
/// equals the mean minimal reduced distance up to the movement bound.
pub fn check_converged_stats<F: Float, D: Distance<F>>(obs: &mut Obs, pr: &Prep<F>, metric: Metric, f: &Fitted<F, D>, tau: f64, judge_counts: bool, what: &str) -> usize {
    let k = f.cent64.len();
    let kp = (k * pr.p) as f64;
    let under = (kp * pr.tiny * pr.eps).sqrt();
    let tau1 = tau + dist_tol(metric, pr.eps, pr.tiny, tau) + under;
    let mut lower = vec![0.0f64; k];
    let mut maybe = vec![0.0f64; k];
    let mut ambiguous = 0usize;
    let mut sum_r = 0.0f64;
    let mut sum_bound = 0.0f64;
    for x in &pr.x64 {
        let d: Vec<f64> = f.cent64.iter().map(|c| dist(metric, x, c)).collect();
        let dmin = d.iter().cloned().fold(f64::INFINITY, f64::min);
        let cand: Vec<usize> = (0..k)
            .filter(|&j| d[j] - dist_tol(metric, pr.eps, pr.tiny, d[j]) <= dmin + dist_tol(metric, pr.eps, pr.tiny, dmin) + 2.0 * tau1 + under)
            .collect();
        if cand.len() == 1 {
            lower[cand[0]] += 1.0;
        } else {
            ambiguous += 1;
            for j in cand {
                maybe[j] += 1.0;
            }
        }
        let r = f.cent64.iter().map(|c| rdist(metric, x, c)).fold(f64::INFINITY, f64::min);
        sum_r += r;
        sum_bound += match metric {
            Metric::L2 => tau1 * (2.0 * dmin + tau1),
            Metric::Lp(_) => tau1 + rdist_tol(metric, pr.eps, pr.tiny, r),
            _ => tau1,
        };
    }
    if judge_counts && f.counts.len() == k {
        for c in 0..k {
            obs.ensure(f.counts[c] >= lower[c] && f.counts[c] <= lower[c] + maybe[c], "cluster_count:not-describing-centroids", || {
                format!(
                    "{what}: cluster_count = {:?}, but {} training points are unambiguously nearest to centroid {c} and at most {} more can be (per-cluster unambiguous counts {:?})",
                    f.counts, lower[c], maybe[c], lower
                )
            });
        }
    }
    let n = pr.n as f64;
    let want = sum_r / n;
    let tol = sum_bound / n + (n + 64.0) * pr.eps * want + 16.0 * n * pr.tiny;
    obs.ensure((f.inertia - want).abs() <= tol, "inertia:not-describing-centroids", || {
        format!("{what}: reported inertia {:e}, mean minimal reduced distance of the training points to the returned centroids {want:e} (allowed deviation {tol:e})", f.inertia)
    });
    ambiguous
}
