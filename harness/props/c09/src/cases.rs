//! Case types and generators for C09. Everything random comes from the proptest strategy; linfa's
//! RNG is seeded from the generated `seed`.

use proptest::prelude::*;
use serde::{Deserialize, Serialize};
use vengine::gen::{gauss, idx, SplitMix};
use vengine::Tier;

#[derive(Debug, Clone, Copy, PartialEq, Serialize, Deserialize)]
pub enum Metric {
    L2,
    L1,
    LInf,
    /// Minkowski distance `LpDist(p)`, p >= 1 (no reduced form: rdistance == distance)
    Lp(f64),
}

#[derive(Debug, Clone, Copy, PartialEq, Eq, Serialize, Deserialize)]
pub enum Tol {
    /// 1e-300 (f64) / 1e-38 (f32): only an exactly repeated centroid matrix stops the loop
    Never,
    T1e4,
    T1e1,
}

impl Tol {
    pub fn value(self, f32_: bool) -> f64 {
        match self {
            Tol::Never => {
                if f32_ {
                    1e-38
                } else {
                    1e-300
                }
            }
            Tol::T1e4 => 1e-4,
            Tol::T1e1 => 1e-1,
        }
    }
}

#[derive(Debug, Clone, Copy, PartialEq, Eq, Serialize, Deserialize)]
pub enum DataKind {
    Blobs,
    Cloud,
    Duplicates,
    Lattice,
    /// widely dispersed cloud whose bounding box excludes the origin in (at least) one feature
    DispersedOffOrigin,
}

/// memory layout of a matrix handed to linfa (the logical content is the same in all three)
#[derive(Debug, Clone, Copy, PartialEq, Eq, Default, Serialize, Deserialize)]
pub enum Layout {
    /// owned, C order
    #[default]
    RowMajor,
    /// owned, Fortran order (`(rows, cols).f()`)
    ColMajor,
    /// records / queries: every second row of a doubled array (`slice(s![..;2, ..])`, a strided view);
    /// precomputed centroids: `to_owned()` of the transpose of a (p,k) array (owned, keeps F order)
    Strided,
}

pub fn layout_strategy() -> impl Strategy<Value = Layout> {
    prop_oneof![3 => Just(Layout::RowMajor), 2 => Just(Layout::ColMajor), 2 => Just(Layout::Strided)]
}

#[derive(Debug, Clone, PartialEq, Serialize, Deserialize)]
pub enum Init {
    Random,
    PlusPlus,
    Para,
    /// k×p matrix in the same (unscaled) coordinates as the data
    Precomputed(Vec<Vec<f64>>),
}

#[derive(Debug, Clone, Serialize, Deserialize)]
pub struct Data {
    pub kind: DataKind,
    /// element type f32 (values are rounded to f32 by the check) or f64
    pub f32_: bool,
    /// all coordinates (data, precomputed centroids, queries) are multiplied by 2^scale_exp
    pub scale_exp: i8,
    /// added to every point (data, precomputed centroids, queries) before scaling; empty = none
    #[serde(default)]
    pub offset: Vec<f64>,
    /// memory layout of the training records
    #[serde(default)]
    pub layout: Layout,
    pub rows: Vec<Vec<f64>>,
}

#[derive(Debug, Clone, Serialize, Deserialize)]
pub struct Case {
    pub data: Data,
    pub k: usize,
    pub metric: Metric,
    pub init: Init,
    pub max_iter: u64,
    pub tol: Tol,
    pub n_runs: usize,
    pub seed: u64,
    /// fresh query points (unscaled coordinates)
    pub queries: Vec<Vec<f64>>,
    /// memory layout of a precomputed centroid matrix / of every query batch
    #[serde(default)]
    pub c0_layout: Layout,
    #[serde(default)]
    pub query_layout: Layout,
    /// restarts sub-check: largest n_runs examined through `fit_with(None, ..)` (0 = not examined)
    #[serde(default)]
    pub incr_runs: usize,
}

#[derive(Debug, Clone, Serialize, Deserialize)]
pub struct LargeCase {
    pub n: usize,
    pub p: usize,
    pub k: usize,
    pub f32_: bool,
    pub metric: Metric,
    pub init_kind: u8,
    pub data_seed: u64,
    pub seed: u64,
    pub n_runs: usize,
}

// ------------------------------------------------------------------------------------------------

const W: usize = 4; // generated width; cut to p afterwards

fn half_int(lo: i32, hi: i32) -> impl Strategy<Value = f64> {
    (2 * lo..=2 * hi).prop_map(|v| v as f64 / 2.0)
}

fn rows_cloud(nmax: usize) -> BoxedStrategy<Vec<Vec<f64>>> {
    proptest::collection::vec(proptest::collection::vec(gauss(), W), 1..=nmax).boxed()
}

fn rows_lattice(nmax: usize) -> BoxedStrategy<Vec<Vec<f64>>> {
    proptest::collection::vec(proptest::collection::vec((-2i32..=2).prop_map(|v| v as f64), W), 1..=nmax).boxed()
}

fn rows_blobs(nmax: usize) -> BoxedStrategy<Vec<Vec<f64>>> {
    // 2..=4 centres on a coarse lattice (spacing 8), unit-ish noise of std 0.5
    let centres = proptest::collection::vec(proptest::collection::vec((-2i32..=2).prop_map(|v| 8.0 * v as f64), W), 2..=4);
    let pts = proptest::collection::vec((any::<u16>(), proptest::collection::vec(gauss(), W)), 1..=nmax);
    (centres, pts)
        .prop_map(|(c, pts)| {
            pts.into_iter()
                .map(|(ci, g)| {
                    let ctr = &c[idx(ci, c.len())];
                    (0..W).map(|j| ctr[j] + 0.5 * g[j]).collect()
                })
                .collect()
        })
        .boxed()
}

fn rows_duplicates(nmax: usize) -> BoxedStrategy<Vec<Vec<f64>>> {
    let val = prop_oneof![gauss().boxed(), (-2i32..=2).prop_map(|v| v as f64).boxed()];
    let pool = proptest::collection::vec(proptest::collection::vec(val, W), 1..=5);
    let picks = proptest::collection::vec(any::<u16>(), 1..=nmax);
    (pool, picks)
        .prop_map(|(pool, picks)| picks.into_iter().map(|i| pool[idx(i, pool.len())].clone()).collect())
        .boxed()
}

fn cut(rows: Vec<Vec<f64>>, p: usize) -> Vec<Vec<f64>> {
    rows.into_iter().map(|r| r.into_iter().take(p).collect()).collect()
}

pub fn data_strategy(nmax: usize) -> impl Strategy<Value = Data> {
    let rows = prop_oneof![
        3 => rows_blobs(nmax).prop_map(|r| (DataKind::Blobs, r)),
        3 => rows_cloud(nmax).prop_map(|r| (DataKind::Cloud, r)),
        2 => rows_duplicates(nmax).prop_map(|r| (DataKind::Duplicates, r)),
        3 => rows_lattice(nmax.min(24)).prop_map(|r| (DataKind::Lattice, r)),
    ];
    let scale = prop_oneof![4 => Just(0i8), 1 => Just(10i8), 1 => Just(-10i8)];
    // data far from the origin (multiples of 16 per coordinate): zero-initialised buffers, centring
    // assumptions and f32 cancellation all show up only there
    let offset = prop_oneof![
        3 => Just(vec![]),
        2 => proptest::collection::vec((-4i32..=4).prop_map(|v| 16.0 * v as f64), W),
    ];
    (rows, 1usize..=W, any::<bool>(), scale, offset, layout_strategy()).prop_map(|((kind, rows), p, f32_, scale_exp, offset, layout)| Data {
        kind,
        f32_,
        scale_exp,
        offset: offset.into_iter().take(p).collect(),
        layout,
        rows: cut(rows, p),
    })
}

pub fn metric_strategy() -> impl Strategy<Value = Metric> {
    prop_oneof![
        6 => Just(Metric::L2),
        4 => Just(Metric::L1),
        2 => Just(Metric::LInf),
        // LpDist: odd whole, even whole and fractional exponents
        1 => Just(Metric::Lp(1.0)),
        1 => Just(Metric::Lp(3.0)),
        1 => Just(Metric::Lp(5.0)),
        1 => Just(Metric::Lp(2.0)),
        1 => Just(Metric::Lp(4.0)),
        1 => Just(Metric::Lp(1.5)),
        1 => Just(Metric::Lp(2.5)),
        1 => Just(Metric::Lp(3.3)),
    ]
}

pub fn tol_strategy() -> impl Strategy<Value = Tol> {
    prop_oneof![2 => Just(Tol::Never), 1 => Just(Tol::T1e4), 1 => Just(Tol::T1e1)]
}

/// raw material for a precomputed k×p matrix: 6×4 values + per-row picks of data rows
#[derive(Debug, Clone)]
pub struct RawC0 {
    mode: u8,
    vals: Vec<Vec<f64>>,
    picks: Vec<u16>,
}

pub fn raw_c0() -> impl Strategy<Value = RawC0> {
    let vals = prop_oneof![
        proptest::collection::vec(proptest::collection::vec(gauss().prop_map(|g| 3.0 * g), W), 6).boxed(),
        proptest::collection::vec(proptest::collection::vec(half_int(-3, 3), W), 6).boxed(),
    ];
    (0u8..4, vals, proptest::collection::vec(any::<u16>(), 6)).prop_map(|(mode, vals, picks)| RawC0 { mode, vals, picks })
}

/// mode 0: rows of the data (repeats possible => duplicate centroids); 1: free values (possibly
/// outside the data); 2: mixture; 3: data rows shifted by a half-integer offset (bisector ties)
pub fn build_c0(raw: &RawC0, data: &[Vec<f64>], k: usize, p: usize) -> Vec<Vec<f64>> {
    (0..k)
        .map(|c| {
            let free: Vec<f64> = raw.vals[c % raw.vals.len()].iter().take(p).copied().collect();
            let row = &data[idx(raw.picks[c % raw.picks.len()], data.len())];
            match raw.mode {
                0 => row.clone(),
                1 => free,
                2 => {
                    if c % 2 == 0 {
                        row.clone()
                    } else {
                        free
                    }
                }
                _ => row.iter().zip(&free).map(|(a, b)| a + (2.0 * b).round() / 2.0).collect(),
            }
        })
        .collect()
}

fn k_of(kk: u16, n: usize) -> usize {
    1 + idx(kk, n.min(6))
}

fn queries_strategy() -> impl Strategy<Value = Vec<Vec<f64>>> {
    let v = prop_oneof![gauss().prop_map(|g| 3.0 * g).boxed(), half_int(-3, 3).boxed()];
    proptest::collection::vec(proptest::collection::vec(v, W), 0..=6)
}

fn iter_strategy() -> impl Strategy<Value = u64> {
    prop_oneof![6 => 1u64..=12, 1 => Just(300u64)]
}

/// general case: any initialiser, any budget / tolerance / restart count
pub fn assign_case(tier: Tier) -> impl Strategy<Value = Case> {
    let nmax = tier.pick(80, 200);
    let init_kind = prop_oneof![2 => Just(0u8), 2 => Just(1u8), 2 => Just(2u8), 2 => Just(3u8)];
    (
        data_strategy(nmax),
        any::<u16>(),
        metric_strategy(),
        init_kind,
        raw_c0(),
        iter_strategy(),
        tol_strategy(),
        1usize..=4,
        any::<u64>(),
        (queries_strategy(), layout_strategy(), layout_strategy()),
    )
        .prop_map(|(data, kk, metric, ik, raw, max_iter, tol, n_runs, seed, (q, c0_layout, query_layout))| {
            let n = data.rows.len();
            let p = data.rows[0].len();
            let k = k_of(kk, n);
            let init = match ik {
                0 => Init::Random,
                1 => Init::PlusPlus,
                2 => Init::Para,
                _ => Init::Precomputed(build_c0(&raw, &data.rows, k, p)),
            };
            Case { data, k, metric, init, max_iter, tol, n_runs, seed, queries: cut(q, p), c0_layout, query_layout, incr_runs: 0 }
        })
}

/// trajectory case: precomputed start, one run; `max_iter` = largest budget examined
pub fn trajectory_case(tier: Tier) -> impl Strategy<Value = Case> {
    let nmax = tier.pick(60, 200);
    (data_strategy(nmax), any::<u16>(), metric_strategy(), raw_c0(), 1u64..=12, tol_strategy(), any::<u64>(), layout_strategy()).prop_map(
        |(data, kk, metric, raw, max_iter, tol, seed, c0_layout)| {
            let n = data.rows.len();
            let p = data.rows[0].len();
            let k = k_of(kk, n);
            let init = Init::Precomputed(build_c0(&raw, &data.rows, k, p));
            Case { data, k, metric, init, max_iter, tol, n_runs: 1, seed, queries: vec![], c0_layout, query_layout: Layout::RowMajor, incr_runs: 0 }
        },
    )
}

/// restart case: seeded initialisers whose stream is a prefix-stable function of the seed
pub fn restarts_case(tier: Tier) -> impl Strategy<Value = Case> {
    let nmax = tier.pick(60, 200);
    let init_kind = prop_oneof![4 => Just(0u8), 4 => Just(1u8), 2 => Just(2u8), 1 => Just(3u8)];
    (
        data_strategy(nmax),
        any::<u16>(),
        metric_strategy(),
        init_kind,
        raw_c0(),
        prop_oneof![3 => 1u64..=12, 2 => Just(300u64)],
        tol_strategy(),
        1usize..=4,
        (any::<u64>(), layout_strategy(), 1usize..=8),
    )
        .prop_map(|(data, kk, metric, ik, raw, max_iter, tol, n_runs, (seed, c0_layout, incr_runs))| {
            let n = data.rows.len();
            let p = data.rows[0].len();
            let k = k_of(kk, n);
            let init = match ik {
                0 => Init::Random,
                1 => Init::PlusPlus,
                2 => Init::Para,
                _ => Init::Precomputed(build_c0(&raw, &data.rows, k, p)),
            };
            Case { data, k, metric, init, max_iter, tol, n_runs, seed, queries: vec![], c0_layout, query_layout: Layout::RowMajor, incr_runs }
        })
}

/// KMeans|| stratum: a cloud that is wide compared with its distance from the origin while the
/// origin lies outside its bounding box in one feature (a constant / narrow "bias" column), or a
/// unit box [1,2]^p; budgets 1..=2, so that a start centroid that is not a data row (e.g. an
/// unfilled all-zero row of k-means||'s candidate buffer) is still visibly outside the box.
pub fn para_box_case(_tier: Tier) -> impl Strategy<Value = Case> {
    let rows = proptest::collection::vec(proptest::collection::vec(gauss(), W), 20..=80);
    let shape = (
        2usize..=W,
        any::<u16>(),
        prop_oneof![Just(1.0f64), Just(-1.0f64), Just(2.0f64)],
        prop_oneof![2 => Just(0.0f64), 1 => Just(0.25f64)],
        prop_oneof![Just(2.0f64), Just(4.0f64), Just(8.0f64), Just(16.0f64)],
        prop_oneof![3 => Just(false), 1 => Just(true)],
    );
    (
        rows,
        shape,
        (2usize..=6, metric_strategy(), any::<bool>(), layout_strategy()),
        (1u64..=2, tol_strategy(), 1usize..=2, any::<u64>()),
        (queries_strategy(), layout_strategy()),
    )
        .prop_map(|(rows, (p, jj, bias, jitter, spread, unit_box), (k, metric, f32_, layout), (max_iter, tol, n_runs, seed), (q, query_layout))| {
            let j0 = idx(jj, p);
            let rows: Vec<Vec<f64>> = rows
                .into_iter()
                .map(|r| {
                    (0..p)
                        .map(|j| {
                            if unit_box {
                                1.0 + (r[j].abs() % 1.0)
                            } else if j == j0 {
                                bias + jitter * (r[j].abs() % 1.0) * bias.signum()
                            } else {
                                spread * r[j]
                            }
                        })
                        .collect()
                })
                .collect();
            let data = Data { kind: DataKind::DispersedOffOrigin, f32_, scale_exp: 0, offset: vec![], layout, rows };
            Case { data, k, metric, init: Init::Para, max_iter, tol, n_runs, seed, queries: cut(q, p), c0_layout: Layout::RowMajor, query_layout, incr_runs: 0 }
        })
}

/// Row counts around plausible internal block / cut-off constants of a blocked or chunked
/// implementation (64..1024-row blocks, a "large input" cut-off at 8 blocks of 256 = 2048, ...):
/// exact multiples, multiples +-1, a random remainder, the cut-off and its neighbours, and the
/// previous fixed sizes.
pub fn large_n(tier: Tier) -> impl Strategy<Value = usize> {
    let old = tier.pick(600usize, 2000usize);
    let block = prop_oneof![Just(64usize), Just(128usize), Just(256usize), Just(512usize), Just(1024usize)];
    prop_oneof![
        1 => Just(old),
        1 => Just(2047usize),
        1 => Just(2048usize),
        1 => Just(2049usize),
        3 => 2050usize..=4200,
        // multiples of 256 from 2048 to 4096, and +-1
        2 => (8usize..=16, 0usize..3).prop_map(|(b, d)| b * 256 + d - 1),
        // any block size: m*B + r, r in {-1, 0, +1, random}
        4 => (block, 1000usize..=4200, 0u8..4, any::<u16>()).prop_map(|(bl, base, mode, r)| {
            let m = (base / bl).max(1);
            match mode {
                0 => m * bl - 1,
                1 => m * bl,
                2 => m * bl + 1,
                _ => m * bl + 1 + idx(r, bl - 1),
            }
        }),
    ]
}

pub fn large_case(tier: Tier) -> impl Strategy<Value = LargeCase> {
    (large_n(tier), 1usize..=3, 1usize..=4, any::<bool>(), metric_strategy(), 0u8..3, any::<u64>(), any::<u64>(), 1usize..=2).prop_map(
        move |(n, p, k, f32_, metric, init_kind, data_seed, seed, n_runs)| LargeCase {
            n,
            p,
            k,
            f32_,
            metric,
            init_kind,
            data_seed,
            seed,
            n_runs,
        },
    )
}

/// bulk data derived from one generated seed: 3 blobs + background cloud
pub fn large_rows(c: &LargeCase) -> Vec<Vec<f64>> {
    let mut g = SplitMix(c.data_seed);
    let centres: Vec<Vec<f64>> = (0..3).map(|_| (0..c.p).map(|_| 6.0 * g.gauss()).collect()).collect();
    (0..c.n)
        .map(|i| {
            let ctr = &centres[i % 3];
            (0..c.p)
                .map(|j| {
                    let v = ctr[j] + g.gauss();
                    (v * 1048576.0).round() / 1048576.0
                })
                .collect()
        })
        .collect()
}
