//! Small shared pieces: dial reader, a serialisable random generator, label helpers.

use crate::rt::Fl;
use crate::Case;
use serde::{Deserialize, Serialize};
use vengine::gen::idx;

pub const HUGE_U64: [u64; 5] = [u32::MAX as u64, u32::MAX as u64 + 1, 1 << 40, (1 << 53) + 1, u64::MAX];

/// Reads the generated dials in order; missing dials read as 0 (the value shrinking converges to).
pub struct Knobs<'a> {
    v: &'a [u16],
    i: usize,
}
impl<'a> Knobs<'a> {
    pub fn new(v: &'a [u16]) -> Self {
        Knobs { v, i: 0 }
    }
    pub fn next(&mut self) -> u16 {
        let r = self.v.get(self.i).copied().unwrap_or(0);
        self.i += 1;
        r
    }
    /// index in `0..n`, monotone in the dial
    pub fn pick(&mut self, n: usize) -> usize {
        idx(self.next(), n)
    }
    /// one case in eight: an extreme integer setting (beyond u32, beyond 2^53 = not a JSON/f64 number, type maximum)
    pub fn huge_u64(&mut self) -> Option<u64> {
        if self.next() >= 0xE000 {
            Some(HUGE_U64[self.pick(HUGE_U64.len())])
        } else {
            None
        }
    }
    pub fn flag(&mut self) -> bool {
        self.next() >= 0x8000
    }
    /// true for the upper quarter of the dial
    pub fn rare(&mut self) -> bool {
        self.next() >= 0xC000
    }
    /// value in [lo, hi), a multiple of (hi-lo)/256
    pub fn range(&mut self, lo: f64, hi: f64) -> f64 {
        lo + (hi - lo) * (self.pick(256) as f64) / 256.0
    }
    /// a float from a palette that mixes ordinary, boundary, invalid and non-finite values
    pub fn palette(&mut self) -> f64 {
        const P: [f64; 14] = [
            1.0,
            0.5,
            1e-4,
            0.0,
            2.5,
            -1.0,
            -0.0,
            0.1,
            1e-300,
            3.0e38,
            1e300,
            f64::INFINITY,
            f64::NEG_INFINITY,
            f64::NAN,
        ];
        P[self.pick(P.len())]
    }
}

/// A random generator that can be serialised with its state (the workspace builds `rand_xoshiro`
/// without its serde feature, so linfa's default `Xoshiro256Plus` cannot travel through serde; the
/// parameter types are generic over the generator). SplitMix64.
#[derive(Debug, Clone, Default, PartialEq, Eq, Serialize, Deserialize)]
pub struct SerRng {
    pub state: u64,
}
impl SerRng {
    pub fn new(seed: u64) -> Self {
        SerRng { state: seed }
    }
}
impl rand::RngCore for SerRng {
    fn next_u32(&mut self) -> u32 {
        (self.next_u64() >> 32) as u32
    }
    fn next_u64(&mut self) -> u64 {
        self.state = self.state.wrapping_add(0x9e3779b97f4a7c15);
        let mut z = self.state;
        z = (z ^ (z >> 30)).wrapping_mul(0xbf58476d1ce4e5b9);
        z = (z ^ (z >> 27)).wrapping_mul(0x94d049bb133111eb);
        z ^ (z >> 31)
    }
    fn fill_bytes(&mut self, dest: &mut [u8]) {
        for chunk in dest.chunks_mut(8) {
            let b = self.next_u64().to_le_bytes();
            chunk.copy_from_slice(&b[..chunk.len()]);
        }
    }
    fn try_fill_bytes(&mut self, dest: &mut [u8]) -> Result<(), rand::Error> {
        self.fill_bytes(dest);
        Ok(())
    }
}

/// Class labels `0..k` for the rows of the case; every class in `0..k` occurs when n >= k
/// (row i < k gets label i, the others follow the generated material).
pub fn labels(c: &Case, k: usize) -> Vec<usize> {
    let n = c.x.len();
    (0..n).map(|i| if i < k { i } else { idx(c.y.get(i).copied().unwrap_or(0), k) }).collect()
}

/// A regression target: a fixed linear function of the row plus label material (multiples of 2^-8).
pub fn targets<F: Fl>(c: &Case, col: usize) -> Vec<F> {
    c.x.iter()
        .enumerate()
        .map(|(i, r)| {
            let lin: f64 = r.iter().enumerate().map(|(j, v)| v * (((j + col) % 3) as f64 - 0.5)).sum();
            let noise = (c.y.get(i).copied().unwrap_or(0) >> 8) as f64 / 64.0 - 2.0;
            F::of(((lin + noise + col as f64) * 256.0).round() / 256.0)
        })
        .collect()
}

/// Degenerate / non-square training shapes, decided by the LAST dial (read by position so that the adapters' own dial
/// order is untouched): half of the cases keep all rows, the others keep 1, p-1, p or p+1 rows (p = feature count).
/// Targets / label material are cut accordingly. A fit that rejects the shape simply yields no fitted instance.
pub fn shape_variant(c: &Case, obs: &mut vengine::Obs, min_rows: usize) -> Case {
    let p = ncols(c);
    let n = c.x.len();
    let dial = idx(c.knobs.last().copied().unwrap_or(0), 8);
    let keep = match dial {
        4 => 1,
        5 if p >= 2 => p - 1,
        6 => p,
        7 => p + 1,
        _ => n,
    }
    .max(min_rows)
    .min(n);
    obs.class_if(keep == 1, "shape_single_sample");
    obs.class_if(keep < p, "shape_fewer_samples_than_features");
    obs.class_if(keep == p, "shape_samples_eq_features");
    obs.class_if(keep == p + 1, "shape_samples_eq_features_plus_1");
    obs.class_if(p == 1, "shape_single_feature");
    let mut out = c.clone();
    out.x.truncate(keep);
    out.y.truncate(keep);
    out
}

/// The same logical array in another memory layout: 0 = row-major, 1 = column-major (`(r, c).f()`), 2 = an owned
/// transpose of the transpose (`a.t().to_owned().reversed_axes()`-style, also column-major but built through views).
/// ndarray's serde always restores a row-major array, so a round trip changes the layout of 1 and 2.
pub fn relayout<A: Clone>(a: &ndarray::Array2<A>, mode: usize) -> ndarray::Array2<A> {
    use ndarray::ShapeBuilder;
    let (r, c) = a.dim();
    match mode {
        1 => {
            let v: Vec<A> = (0..c).flat_map(|j| (0..r).map(move |i| (i, j))).map(|(i, j)| a[(i, j)].clone()).collect();
            ndarray::Array2::from_shape_vec((r, c).f(), v).unwrap_or_else(|_| a.clone())
        }
        2 => {
            // row-major copy of the transpose, then swap the axes back: shape (r, c), strides (1, r)
            let t: ndarray::Array2<A> = ndarray::Array2::from_shape_fn((c, r), |(j, i)| a[(i, j)].clone());
            t.reversed_axes()
        }
        _ => a.clone(),
    }
}

pub fn ncols(c: &Case) -> usize {
    c.x.first().map(|r| r.len()).unwrap_or(0)
}

pub fn assumptions() -> Vec<String> {
    vec![
        "trusted base: serde, bincode 1.3 (fixint, little endian), rmp-serde 1.3 (compact and named), serde_json with float_roundtrip, ndarray's and sprs' own serde impls".into(),
        "JSON is applied only to values whose floats are all finite (NaN / infinity have no JSON form); bincode and MessagePack are applied always".into(),
        "equality of learned quantities and of predictions is bit equality (same arithmetic on both sides); no float tolerance is used, except: \
         naive-Bayes predictions may differ between original and restored model on rows where the two answers' joint log-likelihoods, recomputed \
         from the serialised class statistics, agree within 1e-9 (f64) / 1e-4 (f32) relative or are both -inf, or where some class has a NaN likelihood — the arg-max follows HashMap order there (C20's subject)".into(),
        "`back == orig` is required only when `orig == orig` (a value holding NaN is not equal to itself)".into(),
        "byte-identical re-serialisation is required except for HashMap/HashSet-backed values (naive Bayes, count / tf-idf vectorisers, their parameter sets), \
         which are compared through canonical JSON (object keys ordered, the `stopwords` set sorted)".into(),
        "a fit that fails or panics on the generated data yields no fitted instance: the case is counted as skipped (fitting is C09-C18's subject)".into(),
        "refit comparison (restored parameters fit to the same model) is made only for estimators whose fit is a function of (parameters, data): seeded generators travel \
         inside the parameter set as a serialisable SplitMix64 (rand_xoshiro is built without serde); FastIca always gets random_state; k-means|| initialisation and \
         decision trees with more than two classes (impurity sums follow HashMap order) are not refit-compared; decision-tree refits use two classes and sample weights 1 + 2^-(i+1) (n <= 18), whose subset sums are exact in f32 and pairwise different, so no modal-class tie exists".into(),
        "count-vectoriser refits are compared up to column order (vocabulary order follows HashMap iteration at fit time)".into(),
        "Tweedie GLM fits always run in f64 (the f32 line search can fail to terminate; a hang cannot be skipped): the f32 TweedieRegressor instance is the f64 fit read back as f32 through JSON, and f32 Tweedie parameter sets are not refit-compared; identity link only with power 0; logistic / FTRL / GMM / k-means parameter values that pass validation are kept moderate for the same reason".into(),
        "SVM fits never enable `shrinking` (C13 finding); decision-tree features are multiples of 2^-8 so midpoints are exact (C14 finding)".into(),
        "linfa::Error::NdShape is documented as not serialisable (serde(skip) variant): serialising it must return an error, not panic".into(),
        "types behind private modules (appx-dbscan cell grid / counting tree, ArgminParam, Pls<F>, NaiveBayes class info, Norms) are reached only through the public types that contain them".into(),
    ]
}
