//! C19 — serialised models and parameter sets deserialise to behaviourally identical values.
//!
//! One generic round-trip helper (`rt::roundtrip`: bincode, MessagePack compact + named, JSON when
//! every float is finite) and one small adapter per serialisable type. An adapter builds the value
//! (a parameter set from generated dials, or a fitted instance from a small generated dataset),
//! pushes it through the helper and compares the restored value with the original: `PartialEq`
//! where defined, every public accessor bit for bit, `predict` / `transform` on generated queries
//! bit for bit, and for parameter sets the `check_ref` verdict and the model obtained by refitting.

pub mod rt;
pub mod util;

mod m_clustering;
mod m_linear;
mod m_small;
mod m_super;
mod m_text;
mod m_transform;

use proptest::prelude::*;
use serde::{Deserialize, Serialize};
use vengine::{enum_sub, prop_sub, Property, Tier};

/// Generated input shared by the numeric adapters.
#[derive(Debug, Clone, Serialize, Deserialize)]
pub struct Case {
    /// selects the adapter inside the sub-check (monotone index map)
    pub kind: u16,
    /// element type of the data: f32 instead of f64
    pub f32: bool,
    /// training records, n × p; every value is a multiple of 2^-8 in (-16, 16), exact in f32 and f64
    pub x: Vec<Vec<f64>>,
    /// query records, m × p
    pub q: Vec<Vec<f64>>,
    /// per-row target material (labels, regression targets are derived from it)
    pub y: Vec<u16>,
    /// hyper-parameter dials, read in order by the adapter
    pub knobs: Vec<u16>,
    /// seed for the estimator's own random generator
    pub seed: u64,
}

fn value(mode: u8) -> BoxedStrategy<f64> {
    match mode {
        // many duplicates / constant columns
        0 => (-2i32..=2).prop_map(|v| v as f64).boxed(),
        _ => vengine::gen::gauss().prop_map(|g| ((g * 2.0 * 256.0).round() / 256.0).clamp(-15.0, 15.0)).boxed(),
    }
}

pub fn case_strategy(nkinds: u16, max_n: usize, max_p: usize) -> impl Strategy<Value = Case> {
    (4usize..=max_n, 1usize..=max_p, 1usize..=4, prop_oneof![1 => Just(0u8), 5 => Just(1u8)]).prop_flat_map(
        move |(n, p, m, mode)| {
            (
                0..nkinds,
                any::<bool>(),
                proptest::collection::vec(proptest::collection::vec(value(mode), p), n),
                proptest::collection::vec(proptest::collection::vec(value(1), p), m),
                proptest::collection::vec(any::<u16>(), n),
                proptest::collection::vec(any::<u16>(), 12),
                any::<u64>(),
            )
                .prop_map(|(kind, f32, x, q, y, knobs, seed)| Case { kind, f32, x, q, y, knobs, seed })
        },
    )
}

pub fn property() -> Property {
    Property {
        id: "C19",
        rule: "case = (adapter kind, f32|f64, n×p training matrix, m×p query matrix, label material, 12 hyper-parameter dials, RNG seed) \
               for the numeric types, (kind, documents over a small vocabulary with upper case / composed characters, dials) for the \
               vectorisers, and an enumeration of every unit / enum / error type. Each case builds a parameter set or a fitted instance, \
               round-trips it through bincode, MessagePack (compact and named) and JSON (only when all floats are finite) and compares \
               PartialEq, byte-identical re-serialisation, every public accessor, predict/transform on the queries (bit equality), and for \
               parameter sets the check_ref verdict and the refitted model. Non-trivial = a fitted instance with >= 2 learned arrays, or a \
               type with a serde(skip) / custom bound / RefCell / HashMap field; distinct = distinct canonical JSON of the case",
        assumptions: util::assumptions(),
        subs: vec![
            prop_sub("text", 1500, 25000, |t: Tier| m_text::strategy(t), m_text::check).require(m_text::REQUIRED),
            prop_sub("svm_trees_bayes", 4000, 60000, |t: Tier| case_strategy(m_super::NKINDS, t.pick(12, 18), 3), m_super::check)
                .require(m_super::REQUIRED),
            prop_sub("linear_models", 6000, 80000, |t: Tier| case_strategy(m_linear::NKINDS, t.pick(12, 30), 4), m_linear::check)
                .require(m_linear::REQUIRED),
            prop_sub("clustering", 5000, 60000, |t: Tier| case_strategy(m_clustering::NKINDS, t.pick(12, 30), 3), m_clustering::check)
                .require(m_clustering::REQUIRED),
            prop_sub("transforms", 6000, 80000, |t: Tier| case_strategy(m_transform::NKINDS, t.pick(12, 30), 5), m_transform::check)
                .require(m_transform::REQUIRED),
            enum_sub("small_types", |t: Tier| m_small::cases(t), m_small::check),
        ],
    }
}
