//! C19 — stub (to be written; see /verif/harness/AUTHORING.md and DESIGN.md §3 C19)
use vengine::Property;

pub fn property() -> Property {
    Property { id: "C19", rule: "", assumptions: vec![], subs: vec![] }
}
