//! Generic serde round-trip helper shared by every adapter.
//!
//! `roundtrip(obs, name, &orig, opts)` pushes `orig` through every lossless format that applies and
//! returns the restored values (one per format) so that the adapter can compare behaviour. The helper
//! itself enforces the format-level obligations:
//!   * serialisation answers (no panic, no error) for a value that offers serialisation,
//!   * deserialisation of the produced bytes answers,
//!   * re-serialising the restored value gives the identical byte string (types whose byte order
//!     depends on `HashMap`/`HashSet` iteration are compared through canonical JSON instead).
//! JSON is applied only when every float inside the value is finite (decided by `Scan`, a serializer
//! that only looks at the floats), because JSON has no representation for NaN / infinity.

use ndarray::{Array, ArrayBase, Data, Dimension};
use serde::de::DeserializeOwned;
use serde::ser::{self, Serialize};
use vengine::Obs;

// ------------------------------------------------------------------------------------------------
// bit-level comparison

pub trait Bits {
    fn bits(&self) -> u64;
}
impl Bits for f64 {
    fn bits(&self) -> u64 {
        self.to_bits()
    }
}
impl Bits for f32 {
    fn bits(&self) -> u64 {
        self.to_bits() as u64
    }
}
impl Bits for usize {
    fn bits(&self) -> u64 {
        *self as u64
    }
}
impl Bits for bool {
    fn bits(&self) -> u64 {
        *self as u64
    }
}
impl Bits for linfa::dataset::Pr {
    fn bits(&self) -> u64 {
        (**self).to_bits() as u64
    }
}
impl<T: Bits> Bits for Option<T> {
    fn bits(&self) -> u64 {
        match self {
            None => u64::MAX - 1,
            Some(v) => v.bits(),
        }
    }
}

/// The element type of the generated data: f32 or f64.
pub trait Fl:
    Bits + Copy + std::fmt::Debug + PartialEq + PartialOrd + Serialize + DeserializeOwned + 'static
{
    const NAME: &'static str;
    fn of(v: f64) -> Self;
    fn f(self) -> f64;
}
impl Fl for f64 {
    const NAME: &'static str = "f64";
    fn of(v: f64) -> Self {
        v
    }
    fn f(self) -> f64 {
        self
    }
}
impl Fl for f32 {
    const NAME: &'static str = "f32";
    fn of(v: f64) -> Self {
        v as f32
    }
    fn f(self) -> f64 {
        self as f64
    }
}

/// Same shape and bit-identical elements.
pub fn same_arr<A: Bits, S1: Data<Elem = A>, S2: Data<Elem = A>, D: Dimension>(
    a: &ArrayBase<S1, D>,
    b: &ArrayBase<S2, D>,
) -> bool {
    a.shape() == b.shape() && a.iter().zip(b.iter()).all(|(x, y)| x.bits() == y.bits())
}
pub fn same_slice<A: Bits>(a: &[A], b: &[A]) -> bool {
    a.len() == b.len() && a.iter().zip(b.iter()).all(|(x, y)| x.bits() == y.bits())
}
pub fn same<A: Bits>(a: A, b: A) -> bool {
    a.bits() == b.bits()
}

pub fn mat<F: Fl>(rows: &[Vec<f64>]) -> ndarray::Array2<F> {
    let n = rows.len();
    let p = rows.first().map(|r| r.len()).unwrap_or(0);
    Array::from_shape_fn((n, p), |(i, j)| F::of(rows.get(i).and_then(|r| r.get(j)).copied().unwrap_or(0.0)))
}

// ------------------------------------------------------------------------------------------------
// float scanner: a serializer that only records whether a non-finite float occurs

#[derive(Default)]
pub struct Scan {
    pub floats: usize,
    pub nonfinite: usize,
}

#[derive(Debug)]
pub struct ScanErr(String);
impl std::fmt::Display for ScanErr {
    fn fmt(&self, f: &mut std::fmt::Formatter<'_>) -> std::fmt::Result {
        f.write_str(&self.0)
    }
}
impl std::error::Error for ScanErr {}
impl ser::Error for ScanErr {
    fn custom<T: std::fmt::Display>(msg: T) -> Self {
        ScanErr(msg.to_string())
    }
}

macro_rules! scan_ignore {
    ($($m:ident: $t:ty),*) => { $(fn $m(self, _v: $t) -> Result<(), ScanErr> { Ok(()) })* };
}

impl<'a> ser::Serializer for &'a mut Scan {
    type Ok = ();
    type Error = ScanErr;
    type SerializeSeq = Self;
    type SerializeTuple = Self;
    type SerializeTupleStruct = Self;
    type SerializeTupleVariant = Self;
    type SerializeMap = Self;
    type SerializeStruct = Self;
    type SerializeStructVariant = Self;

    scan_ignore!(serialize_bool: bool, serialize_i8: i8, serialize_i16: i16, serialize_i32: i32, serialize_i64: i64,
        serialize_u8: u8, serialize_u16: u16, serialize_u32: u32, serialize_u64: u64, serialize_char: char,
        serialize_str: &str, serialize_bytes: &[u8]);

    fn serialize_f32(self, v: f32) -> Result<(), ScanErr> {
        self.floats += 1;
        if !v.is_finite() {
            self.nonfinite += 1;
        }
        Ok(())
    }
    fn serialize_f64(self, v: f64) -> Result<(), ScanErr> {
        self.floats += 1;
        if !v.is_finite() {
            self.nonfinite += 1;
        }
        Ok(())
    }
    fn serialize_none(self) -> Result<(), ScanErr> {
        Ok(())
    }
    fn serialize_some<T: ?Sized + Serialize>(self, v: &T) -> Result<(), ScanErr> {
        v.serialize(self)
    }
    fn serialize_unit(self) -> Result<(), ScanErr> {
        Ok(())
    }
    fn serialize_unit_struct(self, _n: &'static str) -> Result<(), ScanErr> {
        Ok(())
    }
    fn serialize_unit_variant(self, _n: &'static str, _i: u32, _v: &'static str) -> Result<(), ScanErr> {
        Ok(())
    }
    fn serialize_newtype_struct<T: ?Sized + Serialize>(self, _n: &'static str, v: &T) -> Result<(), ScanErr> {
        v.serialize(self)
    }
    fn serialize_newtype_variant<T: ?Sized + Serialize>(
        self,
        _n: &'static str,
        _i: u32,
        _v: &'static str,
        v: &T,
    ) -> Result<(), ScanErr> {
        v.serialize(self)
    }
    fn serialize_seq(self, _len: Option<usize>) -> Result<Self, ScanErr> {
        Ok(self)
    }
    fn serialize_tuple(self, _len: usize) -> Result<Self, ScanErr> {
        Ok(self)
    }
    fn serialize_tuple_struct(self, _n: &'static str, _len: usize) -> Result<Self, ScanErr> {
        Ok(self)
    }
    fn serialize_tuple_variant(self, _n: &'static str, _i: u32, _v: &'static str, _len: usize) -> Result<Self, ScanErr> {
        Ok(self)
    }
    fn serialize_map(self, _len: Option<usize>) -> Result<Self, ScanErr> {
        Ok(self)
    }
    fn serialize_struct(self, _n: &'static str, _len: usize) -> Result<Self, ScanErr> {
        Ok(self)
    }
    fn serialize_struct_variant(self, _n: &'static str, _i: u32, _v: &'static str, _len: usize) -> Result<Self, ScanErr> {
        Ok(self)
    }
}
impl<'a> ser::SerializeSeq for &'a mut Scan {
    type Ok = ();
    type Error = ScanErr;
    fn serialize_element<T: ?Sized + Serialize>(&mut self, v: &T) -> Result<(), ScanErr> {
        v.serialize(&mut **self)
    }
    fn end(self) -> Result<(), ScanErr> {
        Ok(())
    }
}
impl<'a> ser::SerializeTuple for &'a mut Scan {
    type Ok = ();
    type Error = ScanErr;
    fn serialize_element<T: ?Sized + Serialize>(&mut self, v: &T) -> Result<(), ScanErr> {
        v.serialize(&mut **self)
    }
    fn end(self) -> Result<(), ScanErr> {
        Ok(())
    }
}
impl<'a> ser::SerializeTupleStruct for &'a mut Scan {
    type Ok = ();
    type Error = ScanErr;
    fn serialize_field<T: ?Sized + Serialize>(&mut self, v: &T) -> Result<(), ScanErr> {
        v.serialize(&mut **self)
    }
    fn end(self) -> Result<(), ScanErr> {
        Ok(())
    }
}
impl<'a> ser::SerializeTupleVariant for &'a mut Scan {
    type Ok = ();
    type Error = ScanErr;
    fn serialize_field<T: ?Sized + Serialize>(&mut self, v: &T) -> Result<(), ScanErr> {
        v.serialize(&mut **self)
    }
    fn end(self) -> Result<(), ScanErr> {
        Ok(())
    }
}
impl<'a> ser::SerializeMap for &'a mut Scan {
    type Ok = ();
    type Error = ScanErr;
    fn serialize_key<T: ?Sized + Serialize>(&mut self, v: &T) -> Result<(), ScanErr> {
        v.serialize(&mut **self)
    }
    fn serialize_value<T: ?Sized + Serialize>(&mut self, v: &T) -> Result<(), ScanErr> {
        v.serialize(&mut **self)
    }
    fn end(self) -> Result<(), ScanErr> {
        Ok(())
    }
}
impl<'a> ser::SerializeStruct for &'a mut Scan {
    type Ok = ();
    type Error = ScanErr;
    fn serialize_field<T: ?Sized + Serialize>(&mut self, _k: &'static str, v: &T) -> Result<(), ScanErr> {
        v.serialize(&mut **self)
    }
    fn end(self) -> Result<(), ScanErr> {
        Ok(())
    }
}
impl<'a> ser::SerializeStructVariant for &'a mut Scan {
    type Ok = ();
    type Error = ScanErr;
    fn serialize_field<T: ?Sized + Serialize>(&mut self, _k: &'static str, v: &T) -> Result<(), ScanErr> {
        v.serialize(&mut **self)
    }
    fn end(self) -> Result<(), ScanErr> {
        Ok(())
    }
}

// ------------------------------------------------------------------------------------------------
// formats

#[derive(Clone, Copy, Debug, PartialEq, Eq)]
pub enum Fmt {
    Bincode,
    MsgPack,
    MsgPackNamed,
    Json,
    // second generation: the restored value serialised and restored once more in the same format
    Bincode2,
    MsgPack2,
    MsgPackNamed2,
    Json2,
}
impl Fmt {
    pub const ALL: [Fmt; 4] = [Fmt::Bincode, Fmt::MsgPack, Fmt::MsgPackNamed, Fmt::Json];
    pub fn name(self) -> &'static str {
        match self {
            Fmt::Bincode => "bincode",
            Fmt::MsgPack => "msgpack",
            Fmt::MsgPackNamed => "msgpack-named",
            Fmt::Json => "json",
            Fmt::Bincode2 => "bincode-gen2",
            Fmt::MsgPack2 => "msgpack-gen2",
            Fmt::MsgPackNamed2 => "msgpack-named-gen2",
            Fmt::Json2 => "json-gen2",
        }
    }
    pub fn gen2(self) -> Fmt {
        match self {
            Fmt::Bincode | Fmt::Bincode2 => Fmt::Bincode2,
            Fmt::MsgPack | Fmt::MsgPack2 => Fmt::MsgPack2,
            Fmt::MsgPackNamed | Fmt::MsgPackNamed2 => Fmt::MsgPackNamed2,
            Fmt::Json | Fmt::Json2 => Fmt::Json2,
        }
    }
    pub fn ser<T: Serialize>(self, v: &T) -> Result<Vec<u8>, String> {
        match self {
            Fmt::Bincode | Fmt::Bincode2 => bincode::serialize(v).map_err(|e| e.to_string()),
            Fmt::MsgPack | Fmt::MsgPack2 => rmp_serde::to_vec(v).map_err(|e| e.to_string()),
            Fmt::MsgPackNamed | Fmt::MsgPackNamed2 => rmp_serde::to_vec_named(v).map_err(|e| e.to_string()),
            Fmt::Json | Fmt::Json2 => serde_json::to_vec(v).map_err(|e| e.to_string()),
        }
    }
    pub fn de<T: DeserializeOwned>(self, b: &[u8]) -> Result<T, String> {
        match self {
            Fmt::Bincode | Fmt::Bincode2 => bincode::deserialize(b).map_err(|e| e.to_string()),
            Fmt::MsgPack | Fmt::MsgPackNamed | Fmt::MsgPack2 | Fmt::MsgPackNamed2 => rmp_serde::from_slice(b).map_err(|e| e.to_string()),
            Fmt::Json | Fmt::Json2 => serde_json::from_slice(b).map_err(|e| e.to_string()),
        }
    }
}

#[derive(Clone, Copy)]
pub struct Opts {
    /// byte string is a function of the value (false for `HashMap`/`HashSet`-backed types, whose
    /// element order follows the per-instance hasher; those are compared through canonical JSON)
    pub stable_bytes: bool,
}
pub const STABLE: Opts = Opts { stable_bytes: true };
pub const HASHED: Opts = Opts { stable_bytes: false };

/// Canonical JSON of a value: object keys are ordered by `serde_json::Map` (BTreeMap), the element
/// order of arrays under a key named `stopwords` (a serialised `HashSet`) is normalised.
pub fn canon<T: Serialize>(v: &T) -> Option<serde_json::Value> {
    fn norm(v: &mut serde_json::Value) {
        match v {
            serde_json::Value::Object(m) => {
                for (k, x) in m.iter_mut() {
                    if k == "stopwords" {
                        if let serde_json::Value::Array(a) = x {
                            a.sort_by_key(|e| e.to_string());
                        }
                    }
                    norm(x);
                }
            }
            serde_json::Value::Array(a) => a.iter_mut().for_each(norm),
            _ => {}
        }
    }
    let mut j = serde_json::to_value(v).ok()?;
    norm(&mut j);
    Some(j)
}

/// Outcome of scanning a value's floats.
pub fn scan<T: Serialize>(v: &T) -> Scan {
    let mut s = Scan::default();
    let _ = v.serialize(&mut s);
    s
}

/// Round trip through every applicable format. Returns `(format, restored)` for every format whose
/// decode answered. Failure signatures: `<name>:<obligation>:<format>`.
pub fn roundtrip<T: Serialize + DeserializeOwned>(obs: &mut Obs, name: &str, orig: &T, opts: Opts) -> Vec<(Fmt, T)> {
    let sc = scan(orig);
    obs.class_if(sc.nonfinite > 0, "value_has_nonfinite_float");
    let canon_orig = if opts.stable_bytes { None } else { canon(orig) };
    let mut out = vec![];
    for fmt in Fmt::ALL {
        if fmt == Fmt::Json && sc.nonfinite > 0 {
            obs.class("json_skipped_nonfinite");
            continue;
        }
        let f = fmt.name();
        let bytes = match vengine::guard(|| fmt.ser(orig)) {
            Err(p) => {
                obs.fail(format!("{name}:serialize-panic:{f}"), format!("serialising panicked: {p}"));
                continue;
            }
            Ok(Err(e)) => {
                obs.fail(format!("{name}:serialize-error:{f}"), format!("serialising failed: {e}"));
                continue;
            }
            Ok(Ok(b)) => b,
        };
        let back: T = match vengine::guard(|| fmt.de::<T>(&bytes)) {
            Err(p) => {
                obs.fail(format!("{name}:deserialize-panic:{f}"), format!("deserialising panicked: {p}"));
                continue;
            }
            Ok(Err(e)) => {
                obs.fail(
                    format!("{name}:deserialize-error:{f}"),
                    format!("deserialising {} bytes just produced from the value failed: {e}", bytes.len()),
                );
                continue;
            }
            Ok(Ok(b)) => b,
        };
        let mut second: Option<T> = None;
        match vengine::guard(|| fmt.ser(&back)) {
            Ok(Ok(again)) => {
                // generation 2: what the restored value serialises to must restore again (adapters compare its behaviour too)
                let f2 = fmt.gen2().name();
                match vengine::guard(|| fmt.de::<T>(&again)) {
                    Ok(Ok(b2)) => second = Some(b2),
                    Ok(Err(e)) => obs.fail(format!("{name}:deserialize-error:{f2}"), format!("the restored value's own serialisation does not deserialise: {e}")),
                    Err(p) => obs.fail(format!("{name}:deserialize-panic:{f2}"), format!("deserialising the restored value's serialisation panicked: {p}")),
                }
                if opts.stable_bytes {
                    obs.ensure(again == bytes, &format!("{name}:reserialize-differs:{f}"), || {
                        let at = again.iter().zip(bytes.iter()).position(|(a, b)| a != b).unwrap_or(again.len().min(bytes.len()));
                        format!(
                            "restored value serialises to different bytes (lengths {} vs {}, first difference at byte {at})",
                            bytes.len(),
                            again.len()
                        )
                    });
                } else {
                    let cb = canon(&back);
                    obs.ensure(cb == canon_orig, &format!("{name}:content-differs:{f}"), || {
                        "canonical JSON of the restored value differs from the original's".to_string()
                    });
                }
            }
            Ok(Err(e)) => obs.fail(format!("{name}:reserialize-error:{f}"), format!("restored value does not serialise: {e}")),
            Err(p) => obs.fail(format!("{name}:reserialize-panic:{f}"), format!("serialising the restored value panicked: {p}")),
        }
        out.push((fmt, back));
        if let Some(b2) = second {
            out.push((fmt.gen2(), b2));
        }
    }
    out
}

/// `back == orig` wherever equality is defined: required whenever the original equals itself
/// (a value containing NaN does not, by IEEE semantics; bit-level accessors cover that case).
pub fn eq_check<T: PartialEq>(obs: &mut Obs, name: &str, fmt: Fmt, orig: &T, back: &T) {
    #[allow(clippy::eq_op)]
    if orig == orig {
        obs.ensure(back == orig, &format!("{name}:not-equal:{}", fmt.name()), || {
            "restored value does not compare equal (PartialEq) to the original".to_string()
        });
    } else {
        obs.class("orig_not_self_equal");
    }
}

/// Shorthand: one obligation of an adapter (`what` names the accessor / behaviour compared).
pub fn must(obs: &mut Obs, name: &str, fmt: Fmt, what: &str, ok: bool) {
    obs.ensure(ok, &format!("{name}:{what}:{}", fmt.name()), || {
        format!("{what} of the restored value is not bit-identical to the original's")
    });
}

/// Fixed query points appended to every generated query matrix: zeros, ones, large magnitudes.
pub fn with_fixed_queries(q: &[Vec<f64>], p: usize) -> Vec<Vec<f64>> {
    let mut v: Vec<Vec<f64>> = q.iter().map(|r| (0..p).map(|j| r.get(j).copied().unwrap_or(0.0)).collect()).collect();
    v.push(vec![0.0; p]);
    v.push(vec![1.0; p]);
    v.push((0..p).map(|j| if j % 2 == 0 { 64.0 } else { -64.0 }).collect());
    v
}

// ------------------------------------------------------------------------------------------------
// behaviour comparison

/// Result of running some behaviour of the *original* value once (panic caught).
pub fn observe<R>(f: impl FnOnce() -> R) -> Result<R, String> {
    vengine::guard(f)
}

/// Compare a behaviour of the restored value with the one observed on the original. When the
/// original itself panics the obligation is void (counted); a restored value that panics where the
/// original answered is a failure `<name>:<what>-panics:<fmt>`.
pub fn same_behaviour<R>(
    obs: &mut Obs,
    name: &str,
    fmt: Fmt,
    what: &str,
    want: &Result<R, String>,
    got: impl FnOnce() -> R,
    eq: impl Fn(&R, &R) -> bool,
) {
    let want = match want {
        Ok(w) => w,
        Err(_) => {
            obs.class("orig_behaviour_panics");
            return;
        }
    };
    match vengine::guard(got) {
        Err(p) => obs.fail(
            format!("{name}:{what}-panics:{}", fmt.name()),
            format!("{what} answers on the original but panics on the restored value: {p}"),
        ),
        Ok(g) => must(obs, name, fmt, what, eq(want, &g)),
    }
}

/// Outcome of fitting: serialised model, error text, or panic.
#[derive(Debug, Clone, PartialEq)]
pub enum FitOutcome {
    Model(Vec<u8>),
    Error(String),
    Panic,
}

pub fn fit_outcome<M: Serialize, E: std::fmt::Display>(f: impl FnOnce() -> Result<M, E>) -> FitOutcome {
    match vengine::guard(f) {
        Err(_) => FitOutcome::Panic,
        Ok(Err(e)) => FitOutcome::Error(e.to_string()),
        Ok(Ok(m)) => match bincode::serialize(&m) {
            Ok(b) => FitOutcome::Model(b),
            Err(e) => FitOutcome::Error(format!("<model does not serialise: {e}>")),
        },
    }
}

/// Restored parameters must refit to the same model (same bytes), the same error or the same panic.
pub fn same_refit(obs: &mut Obs, name: &str, fmt: Fmt, want: &FitOutcome, got: FitOutcome) {
    obs.class_if(matches!(want, FitOutcome::Model(_)), "refit_compared_models");
    obs.ensure(*want == got, &format!("{name}:refit-differs:{}", fmt.name()), || {
        let d = |o: &FitOutcome| match o {
            FitOutcome::Model(b) => format!("a model of {} bytes", b.len()),
            FitOutcome::Error(e) => format!("error '{e}'"),
            FitOutcome::Panic => "a panic".to_string(),
        };
        format!("fitting the original parameters gives {}, fitting the restored ones gives {}", d(want), d(&got))
    });
}

/// `check_ref` verdict as comparable text.
pub fn verdict<T, E: std::fmt::Display>(r: Result<T, E>) -> Result<(), String> {
    r.map(|_| ()).map_err(|e| e.to_string())
}
