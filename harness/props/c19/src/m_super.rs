use crate::Case;
use vengine::Obs;
pub const NKINDS: u16 = 1;
pub const REQUIRED: &[&str] = &[];
pub fn check(_c: &Case, _obs: &mut Obs) {}
