//! linfa-svm, linfa-trees, linfa-bayes.

use crate::Case;
use vengine::Obs;

pub const NKINDS: u16 = 6;
pub const REQUIRED: &[&str] = &[
    "Svm<bool>",
    "Svm<Pr>",
    "Svm<one-class>",
    "Svm<regression>",
    "DecisionTreeParams",
    "DecisionTree",
    "GaussianNb",
    "MultinomialNb",
];

pub fn check(c: &Case, obs: &mut Obs) {
    obs.class_if(c.f32, "f32");
    obs.class_if(!c.f32, "f64");
    if c.f32 {
        impl_f32::run(c, obs)
    } else {
        impl_f64::run(c, obs)
    }
}

// Mirror of the serialised naive-Bayes models (read back from named MessagePack, which keeps non-finite floats).
#[derive(serde::Deserialize)]
struct MirrorArr {
    data: Vec<f64>,
}
#[derive(serde::Deserialize)]
struct MirrorInfo {
    prior: f64,
    #[serde(default)]
    theta: Option<MirrorArr>,
    #[serde(default)]
    sigma: Option<MirrorArr>,
    #[serde(default)]
    feature_log_prob: Option<MirrorArr>,
}
#[derive(serde::Deserialize)]
struct MirrorModel {
    class_info: std::collections::HashMap<usize, MirrorInfo>,
}

/// Joint log-likelihood of one class of a serialised naive-Bayes model for one row (own arithmetic, f64).
fn nb_jll(info: &MirrorInfo, gaussian: bool, row: &[f64]) -> Option<f64> {
    if gaussian {
        let (theta, sigma) = (&info.theta.as_ref()?.data, &info.sigma.as_ref()?.data);
        if theta.len() != row.len() || sigma.len() != row.len() {
            return None;
        }
        let mut s = info.prior.ln();
        for j in 0..row.len() {
            s += -0.5 * (2.0 * std::f64::consts::PI * sigma[j]).ln() - 0.5 * (row[j] - theta[j]).powi(2) / sigma[j];
        }
        Some(s)
    } else {
        let flp = &info.feature_log_prob.as_ref()?.data;
        if flp.len() != row.len() {
            return None;
        }
        Some(info.prior.ln() + row.iter().zip(flp).map(|(a, b)| a * b).sum::<f64>())
    }
}

/// Are the two answers for this row tied (within `rel`, or both exactly -inf) under the model's own class statistics?
pub(crate) fn nb_tied<M: serde::Serialize>(model: &M, gaussian: bool, row: &[f64], a: usize, b: usize, rel: f64) -> bool {
    let mirror: MirrorModel = match rmp_serde::to_vec_named(model).ok().and_then(|b| rmp_serde::from_slice(&b).ok()) {
        Some(m) => m,
        None => return false,
    };
    // a NaN likelihood (0 * -inf with alpha = 0, zero variance with var_smoothing = 0) makes the arg-max itself
    // depend on the order in which the classes are visited: no answer is "the" answer for such a row
    if mirror.class_info.values().any(|i| nb_jll(i, gaussian, row).map(|v| v.is_nan()).unwrap_or(false)) {
        return true;
    }
    let (ja, jb) = match (mirror.class_info.get(&a), mirror.class_info.get(&b)) {
        (Some(x), Some(y)) => (nb_jll(x, gaussian, row), nb_jll(y, gaussian, row)),
        _ => return false,
    };
    match (ja, jb) {
        (Some(x), Some(y)) if x.is_finite() && y.is_finite() => (x - y).abs() <= rel * (1.0 + x.abs().max(y.abs())),
        // both -inf (a zero probability with alpha = 0): an exact tie as well
        (Some(x), Some(y)) => x == y,
        _ => false,
    }
}

macro_rules! adapters {
    ($modname:ident, $F:ty, $tie:expr) => {
        mod $modname {
            use crate::rt::*;
            use crate::util::*;
            use crate::Case;
            use linfa::dataset::Pr;
            use linfa::traits::{Fit, Predict};
            use linfa::{Dataset, ParamGuard};
            use linfa_bayes::{GaussianNb, MultinomialNb};
            use linfa_svm::Svm;
            use linfa_trees::{DecisionTree, SplitQuality, TreeNode};
            use ndarray::{Array1, Array2};
            use vengine::Obs;
            type F = $F;
            const TIE_REL: f64 = $tie;

            pub fn run(c: &Case, obs: &mut Obs) {
                let mut k = Knobs::new(&c.knobs);
                match c.kind {
                    0 => svm_class(c, obs, &mut k),
                    1 => svm_other(c, obs, &mut k),
                    2 => tree_params(c, obs, &mut k),
                    3 => tree_fitted(c, obs, &mut k),
                    4 => gaussian_nb(c, obs, &mut k),
                    _ => multinomial_nb(c, obs, &mut k),
                }
            }

            fn queries(c: &Case) -> Array2<F> {
                mat(&with_fixed_queries(&c.q, ncols(c)))
            }

            macro_rules! kernel {
                ($p:expr, $k:expr, $obs:expr) => {
                    match $k.pick(3) {
                        0 => {
                            $obs.class("svm_linear_kernel");
                            $p.linear_kernel()
                        }
                        1 => {
                            $obs.class("svm_gaussian_kernel");
                            $p.gaussian_kernel(F::of([4.0, 1.0, 16.0][$k.pick(3)]))
                        }
                        _ => {
                            $obs.class("svm_polynomial_kernel");
                            $p.polynomial_kernel(F::of([1.0, 0.0][$k.pick(2)]), F::of([2.0, 3.0][$k.pick(2)]))
                        }
                    }
                };
            }

            /// Obligations common to every target kind of `Svm` (prediction is compared by the caller).
            fn svm_common<T: PartialEq>(obs: &mut Obs, name: &str, fmt: Fmt, model: &Svm<F, T>, back: &Svm<F, T>, q: &Array2<F>) {
                eq_check(obs, name, fmt, model, back);
                must(obs, name, fmt, "alpha", same_slice(&model.alpha, &back.alpha));
                must(obs, name, fmt, "rho", same(model.rho, back.rho));
                must(obs, name, fmt, "nsupport", model.nsupport() == back.nsupport());
                // Display prints exit reason, iteration count, objective and support-vector count
                must(obs, name, fmt, "display", model.to_string() == back.to_string());
                let want = observe(|| q.outer_iter().map(|r| model.weighted_sum(&r)).collect::<Vec<F>>());
                same_behaviour(obs, name, fmt, "weighted_sum", &want, || q.outer_iter().map(|r| back.weighted_sum(&r)).collect::<Vec<F>>(), |a, b| same_slice(a, b));
            }

            fn svm_class(c: &Case, obs: &mut Obs, k: &mut Knobs) {
                let x: Array2<F> = mat(&c.x);
                let y: Array1<bool> = labels(c, 2).into_iter().map(|l| l == 1).collect();
                let ds = Dataset::new(x, y);
                let q = queries(c);
                let nu = k.flag();
                let c1 = F::of([1.0, 10.0, 0.5][k.pick(3)]);
                let c2 = F::of([1.0, 0.25][k.pick(2)]);
                let nuv = F::of([0.5, 0.25, 0.75][k.pick(3)]);
                if k.flag() {
                    const T: &str = "Svm<bool>";
                    let p = Svm::<F, bool>::params().eps(F::of(1e-3)).shrinking(false);
                    let p = if nu { p.nu_weight(nuv) } else { p.pos_neg_weights(c1, c2) };
                    let p = kernel!(p, k, obs);
                    let model = match vengine::guard(|| p.fit(&ds)) {
                        Ok(Ok(m)) => m,
                        _ => return obs.skip("fit_failed"),
                    };
                    obs.class(T);
                    obs.class_if(nu, "svm_nu");
                    obs.nontrivial();
                    let want = observe(|| model.predict(&q));
                    for (fmt, back) in roundtrip(obs, T, &model, STABLE) {
                        svm_common(obs, T, fmt, &model, &back, &q);
                        same_behaviour(obs, T, fmt, "predict", &want, || back.predict(&q), |a, b| a == b);
                    }
                } else {
                    const T: &str = "Svm<Pr>";
                    let p = Svm::<F, Pr>::params().eps(F::of(1e-3)).shrinking(false);
                    let p = if nu { p.nu_weight(nuv) } else { p.pos_neg_weights(c1, c2) };
                    let p = kernel!(p, k, obs);
                    let model = match vengine::guard(|| p.fit(&ds)) {
                        Ok(Ok(m)) => m,
                        _ => return obs.skip("fit_failed"),
                    };
                    obs.class(T);
                    obs.class_if(nu, "svm_nu");
                    obs.nontrivial();
                    let want = observe(|| -> Array1<Pr> { model.predict(&q) });
                    for (fmt, back) in roundtrip(obs, T, &model, STABLE) {
                        svm_common(obs, T, fmt, &model, &back, &q);
                        same_behaviour(obs, T, fmt, "predict", &want, || back.predict(&q), |a, b| same_arr(a, b));
                    }
                }
            }

            fn svm_other(c: &Case, obs: &mut Obs, k: &mut Knobs) {
                let x: Array2<F> = mat(&c.x);
                let q = queries(c);
                let nuv = F::of([0.5, 0.25, 0.75][k.pick(3)]);
                if k.flag() {
                    const T: &str = "Svm<one-class>";
                    let ds = Dataset::new(x.clone(), Array1::from_elem(x.nrows(), ()));
                    let p = Svm::<F, Pr>::params().eps(F::of(1e-3)).shrinking(false).nu_weight(nuv);
                    let p = kernel!(p, k, obs);
                    let model: Svm<F, bool> = match vengine::guard(|| p.fit(&ds)) {
                        Ok(Ok(m)) => m,
                        _ => return obs.skip("fit_failed"),
                    };
                    obs.class(T);
                    obs.nontrivial();
                    let want = observe(|| model.predict(&q));
                    for (fmt, back) in roundtrip(obs, T, &model, STABLE) {
                        svm_common(obs, T, fmt, &model, &back, &q);
                        same_behaviour(obs, T, fmt, "predict", &want, || back.predict(&q), |a, b| a == b);
                    }
                } else {
                    const T: &str = "Svm<regression>";
                    let ds = Dataset::new(x, Array1::from(targets::<F>(c, 0)));
                    let p = Svm::<F, F>::params().eps(F::of(1e-3)).shrinking(false);
                    let p = if k.flag() {
                        obs.class("svm_nu");
                        p.nu_svr(nuv, Some(F::of([1.0, 10.0][k.pick(2)])))
                    } else {
                        p.c_svr(F::of([1.0, 10.0][k.pick(2)]), Some(F::of([0.1, 0.5][k.pick(2)])))
                    };
                    let p = kernel!(p, k, obs);
                    let model = match vengine::guard(|| p.fit(&ds)) {
                        Ok(Ok(m)) => m,
                        _ => return obs.skip("fit_failed"),
                    };
                    obs.class(T);
                    obs.nontrivial();
                    let want = observe(|| model.predict(&q));
                    for (fmt, back) in roundtrip(obs, T, &model, STABLE) {
                        svm_common(obs, T, fmt, &model, &back, &q);
                        same_behaviour(obs, T, fmt, "predict", &want, || back.predict(&q), |a, b| same_arr(a, b));
                    }
                }
            }

            // ---------------------------------------------------------------------------------
            // decision trees

            /// Sample weights 1 + 2^-(i+1): every partial sum over at most 18 rows needs at most 23 significant bits, so
            /// weighted class frequencies are exact in f32 whatever the summation order, and two disjoint sets of rows
            /// can never have the same total (equal counts would need equal binary fractions): the modal class of a
            /// node is never decided by HashMap order.
            fn weights(n: usize) -> Array1<f32> {
                Array1::from_shape_fn(n, |i| 1.0 + 0.5f32.powi(1 + (i.min(17)) as i32))
            }

            fn same_node(a: &TreeNode<F, usize>, b: &TreeNode<F, usize>) -> bool {
                let (sa, sb) = (a.split(), b.split());
                if !(a.is_leaf() == b.is_leaf()
                    && a.depth() == b.depth()
                    && a.prediction() == b.prediction()
                    && sa.0 == sb.0
                    && same(sa.1, sb.1)
                    && same(sa.2, sb.2)
                    && a.feature_name() == b.feature_name())
                {
                    return false;
                }
                let (ca, cb) = (a.children(), b.children());
                ca.len() == cb.len()
                    && ca.iter().zip(cb.iter()).all(|(x, y)| match (x, y) {
                        (None, None) => true,
                        (Some(x), Some(y)) => same_node(x, y),
                        _ => false,
                    })
            }

            fn tree_dials(k: &mut Knobs, obs: &mut Obs, with_invalid: bool) -> linfa_trees::DecisionTreeParams<F, usize> {
                let mid = if with_invalid && k.rare() {
                    k.palette()
                } else {
                    [1e-5, 1e-3, 0.05][k.pick(3)]
                };
                let _ = obs;
                DecisionTree::<F, usize>::params()
                    .split_quality(if k.flag() { SplitQuality::Entropy } else { SplitQuality::Gini })
                    .max_depth([None, Some(1), Some(2), Some(4)][k.pick(4)])
                    .min_weight_split([2.0, 1.0, 4.0][k.pick(3)])
                    .min_weight_leaf([1.0, 0.5, 2.0][k.pick(3)])
                    .min_impurity_decrease(F::of(mid))
            }

            fn tree_params(c: &Case, obs: &mut Obs, k: &mut Knobs) {
                const T: &str = "DecisionTreeParams";
                let params = tree_dials(k, obs, true);
                obs.class(T);
                obs.nontrivial();
                let want_verdict = verdict(params.check_ref());
                obs.class_if(want_verdict.is_ok(), "params_valid");
                obs.class_if(want_verdict.is_err(), "params_invalid");
                // two classes only: impurity sums over a HashMap of two entries do not depend on its order
                let n = c.x.len();
                let ds = Dataset::new(mat::<F>(&c.x), Array1::from(labels(c, 2))).with_weights(weights(n));
                let want_fit = fit_outcome(|| params.fit(&ds));
                // fitting must be a function of (parameters, data) for the comparison to mean anything
                let stable = want_fit == fit_outcome(|| params.fit(&ds));
                obs.class_if(!stable, "fit_not_reproducible");
                for (fmt, back) in roundtrip(obs, T, &params, STABLE) {
                    eq_check(obs, T, fmt, &params, &back);
                    must(obs, T, fmt, "check_ref-verdict", verdict(back.check_ref()) == want_verdict);
                    if let (Ok(a), Ok(b)) = (params.check_ref(), back.check_ref()) {
                        must(obs, T, fmt, "split_quality", a.split_quality() == b.split_quality());
                        must(obs, T, fmt, "max_depth", a.max_depth() == b.max_depth());
                        must(obs, T, fmt, "min_weight_split", same(a.min_weight_split(), b.min_weight_split()));
                        must(obs, T, fmt, "min_weight_leaf", same(a.min_weight_leaf(), b.min_weight_leaf()));
                        must(obs, T, fmt, "min_impurity_decrease", same(a.min_impurity_decrease(), b.min_impurity_decrease()));
                    }
                    if stable {
                        same_refit(obs, T, fmt, &want_fit, fit_outcome(|| back.fit(&ds)));
                    }
                }
                if let Ok(valid) = params.check_ref() {
                    const V: &str = "DecisionTreeValidParams";
                    obs.class(V);
                    for (fmt, back) in roundtrip(obs, V, valid, STABLE) {
                        eq_check(obs, V, fmt, valid, &back);
                        if stable {
                            same_refit(obs, V, fmt, &want_fit, fit_outcome(|| back.fit(&ds)));
                        }
                    }
                }
            }

            fn tree_fitted(c: &Case, obs: &mut Obs, k: &mut Knobs) {
                const T: &str = "DecisionTree";
                let params = tree_dials(k, obs, false);
                let nclass = 2 + k.pick(2);
                let n = c.x.len();
                let names: Vec<String> = (0..ncols(c)).map(|j| format!("col {j} \u{e9}")).collect();
                let mut ds = Dataset::new(mat::<F>(&c.x), Array1::from(labels(c, nclass))).with_weights(weights(n));
                if k.flag() {
                    ds = ds.with_feature_names(names);
                    obs.class("tree_with_feature_names");
                }
                let model = match vengine::guard(|| params.fit(&ds)) {
                    Ok(Ok(m)) => m,
                    _ => return obs.skip("fit_failed"),
                };
                obs.class(T);
                obs.nontrivial();
                obs.class_if(model.num_leaves() == 1, "tree_single_leaf");
                obs.class_if(model.num_leaves() >= 3, "tree_three_or_more_leaves");
                let q = queries(c);
                let want = observe(|| model.predict(&q));
                let want_train = observe(|| model.predict(ds.records()));
                let sorted = |mut v: Vec<usize>| {
                    v.sort_unstable();
                    v
                };
                for (fmt, back) in roundtrip(obs, T, &model, STABLE) {
                    eq_check(obs, T, fmt, &model, &back);
                    must(obs, T, fmt, "nodes", same_node(model.root_node(), back.root_node()));
                    must(obs, T, fmt, "features", sorted(model.features()) == sorted(back.features()));
                    must(obs, T, fmt, "num_leaves", model.num_leaves() == back.num_leaves());
                    must(obs, T, fmt, "max_depth", model.max_depth() == back.max_depth());
                    let w = observe(|| (model.mean_impurity_decrease(), model.relative_impurity_decrease(), model.feature_importance()));
                    same_behaviour(
                        obs,
                        T,
                        fmt,
                        "impurity-decrease",
                        &w,
                        || (back.mean_impurity_decrease(), back.relative_impurity_decrease(), back.feature_importance()),
                        |a, b| same_slice(&a.0, &b.0) && same_slice(&a.1, &b.1) && same_slice(&a.2, &b.2),
                    );
                    let w = observe(|| model.export_to_tikz().to_string());
                    same_behaviour(obs, T, fmt, "tikz", &w, || back.export_to_tikz().to_string(), |a, b| a == b);
                    same_behaviour(obs, T, fmt, "predict", &want, || back.predict(&q), |a, b| a == b);
                    same_behaviour(obs, T, fmt, "predict-train", &want_train, || back.predict(ds.records()), |a, b| a == b);
                }
                // a node is a serialisable type of its own (its PartialEq only looks at the feature index)
                const N: &str = "TreeNode";
                for (fmt, back) in roundtrip(obs, N, model.root_node(), STABLE) {
                    eq_check(obs, N, fmt, model.root_node(), &back);
                    must(obs, N, fmt, "nodes", same_node(model.root_node(), &back));
                }
            }

            // ---------------------------------------------------------------------------------
            // naive Bayes (HashMap-backed)

            /// Predictions must agree except on rows where the two answers are tied under the model's own statistics.
            fn nb_predictions<M: serde::Serialize>(obs: &mut Obs, name: &str, fmt: Fmt, model: &M, gaussian: bool, q: &Array2<F>, want: &Array1<usize>, got: &Array1<usize>) {
                if want.len() != got.len() {
                    return must(obs, name, fmt, "predict", false);
                }
                for (i, (a, b)) in want.iter().zip(got.iter()).enumerate() {
                    if a != b {
                        let row: Vec<f64> = q.row(i).iter().map(|v| v.f()).collect();
                        if super::nb_tied(model, gaussian, &row, *a, *b, TIE_REL) {
                            obs.class("nb_tie_follows_map_order");
                        } else {
                            must(obs, name, fmt, "predict", false);
                        }
                    }
                }
            }

            fn gaussian_nb(c: &Case, obs: &mut Obs, k: &mut Knobs) {
                const P: &str = "GaussianNbValidParams";
                const T: &str = "GaussianNb";
                let nclass = 2 + k.pick(2);
                let valid = match GaussianNb::<F, usize>::params().var_smoothing(F::of([1e-9, 1e-3, 0.0, 1.0][k.pick(4)])).check() {
                    Ok(v) => v,
                    Err(_) => return obs.skip("params_invalid"),
                };
                let ds = Dataset::new(mat::<F>(&c.x), Array1::from(labels(c, nclass)));
                obs.class(P);
                let want_model = vengine::guard(|| valid.fit(&ds));
                for (fmt, back) in roundtrip(obs, P, &valid, STABLE) {
                    eq_check(obs, P, fmt, &valid, &back);
                    must(obs, P, fmt, "var_smoothing", same(valid.var_smoothing(), back.var_smoothing()));
                    // refit: compared by content (HashMap-backed model)
                    if let Ok(Ok(w)) = &want_model {
                        match vengine::guard(|| back.fit(&ds)) {
                            Ok(Ok(g)) => {
                                #[allow(clippy::eq_op)]
                                if w == w {
                                    obs.class("refit_compared_models");
                                    must(obs, P, fmt, "refit", *w == g);
                                }
                            }
                            _ => must(obs, P, fmt, "refit", false),
                        }
                    }
                }
                let model = match want_model {
                    Ok(Ok(m)) => m,
                    _ => return obs.class("no_fitted_instance"),
                };
                obs.class(T);
                obs.nontrivial();
                let q = queries(c);
                let want = observe(|| model.predict(&q));
                for (fmt, back) in roundtrip(obs, T, &model, HASHED) {
                    eq_check(obs, T, fmt, &model, &back);
                    match (&want, vengine::guard(|| back.predict(&q))) {
                        (Ok(w), Ok(g)) => nb_predictions(obs, T, fmt, &model, true, &q, w, &g),
                        (Ok(_), Err(p)) => obs.fail(format!("{T}:predict-panics:{}", fmt.name()), p),
                        (Err(_), _) => obs.class("orig_behaviour_panics"),
                    }
                }
            }

            fn multinomial_nb(c: &Case, obs: &mut Obs, k: &mut Knobs) {
                const P: &str = "MultinomialNbValidParams";
                const T: &str = "MultinomialNb";
                let nclass = 2 + k.pick(2);
                let valid = match MultinomialNb::<F, usize>::params().alpha(F::of([1.0, 0.5, 0.0, 2.0][k.pick(4)])).check() {
                    Ok(v) => v,
                    Err(_) => return obs.skip("params_invalid"),
                };
                // counts: non-negative
                let counts: Vec<Vec<f64>> = c.x.iter().map(|r| r.iter().map(|v| (v.abs() * 2.0).round()).collect()).collect();
                let ds = Dataset::new(mat::<F>(&counts), Array1::from(labels(c, nclass)));
                obs.class(P);
                let want_model = vengine::guard(|| valid.fit(&ds));
                for (fmt, back) in roundtrip(obs, P, &valid, STABLE) {
                    eq_check(obs, P, fmt, &valid, &back);
                    must(obs, P, fmt, "alpha", same(valid.alpha(), back.alpha()));
                    if let Ok(Ok(w)) = &want_model {
                        match vengine::guard(|| back.fit(&ds)) {
                            Ok(Ok(g)) => {
                                #[allow(clippy::eq_op)]
                                if w == w {
                                    obs.class("refit_compared_models");
                                    must(obs, P, fmt, "refit", *w == g);
                                }
                            }
                            _ => must(obs, P, fmt, "refit", false),
                        }
                    }
                }
                let model = match want_model {
                    Ok(Ok(m)) => m,
                    _ => return obs.class("no_fitted_instance"),
                };
                obs.class(T);
                obs.nontrivial();
                let qc: Vec<Vec<f64>> = with_fixed_queries(&c.q, ncols(c)).iter().map(|r| r.iter().map(|v| (v.abs() * 2.0).round()).collect()).collect();
                let q: Array2<F> = mat(&qc);
                let want = observe(|| model.predict(&q));
                for (fmt, back) in roundtrip(obs, T, &model, HASHED) {
                    eq_check(obs, T, fmt, &model, &back);
                    match (&want, vengine::guard(|| back.predict(&q))) {
                        (Ok(w), Ok(g)) => nb_predictions(obs, T, fmt, &model, false, &q, w, &g),
                        (Ok(_), Err(p)) => obs.fail(format!("{T}:predict-panics:{}", fmt.name()), p),
                        (Err(_), _) => obs.class("orig_behaviour_panics"),
                    }
                }
            }
        }
    };
}

adapters!(impl_f32, f32, 1e-4);
adapters!(impl_f64, f64, 1e-9);
