//! linfa-preprocessing count / tf-idf vectorisers and their parameter sets (HashMap / HashSet / RefCell<Regex> /
//! skipped function pointer + deserialisation guard).

use crate::rt::*;
use crate::util::Knobs;
use linfa::ParamGuard;
use linfa_preprocessing::tf_idf_vectorization::{FittedTfIdfVectorizer, TfIdfVectorizer};
use linfa_preprocessing::{CountVectorizer, CountVectorizerParams, PreprocessingError, Tokenizer};
use ndarray::{Array1, Array2};
use proptest::prelude::*;
use serde::{Deserialize, Serialize};
use std::collections::BTreeMap;
use vengine::{Obs, Tier};

pub const REQUIRED: &[&str] = &[
    "CountVectorizerParams",
    "CountVectorizer",
    "TfIdfVectorizer",
    "FittedTfIdfVectorizer",
    "function_tokenizer",
    "regex_tokenizer",
    "cased_regex_with_lowercasing",
    "cased_regex_without_lowercasing",
    "function_tokenizer_generations",
];

#[derive(Debug, Clone, Serialize, Deserialize)]
pub struct TextCase {
    /// 0 CountVectorizerParams, 1 CountVectorizer, 2 TfIdfVectorizer, 3 FittedTfIdfVectorizer
    pub kind: u16,
    /// training documents as word indices into `VOCAB`
    pub docs: Vec<Vec<u16>>,
    /// query documents
    pub qdocs: Vec<Vec<u16>>,
    pub knobs: Vec<u16>,
}

/// Words with upper case, composed / compatibility characters (NFKD changes them), single letters and digits.
const VOCAB: [&str; 16] = [
    "one", "Two", "three", "FOUR", "five", "ab", "b", "caf\u{e9}", "Stra\u{df}e", "\u{fb01}n", "x1", "the", "and", "e\u{301}cole", "two", "a",
];
const SEPS: [&str; 3] = [" ", " ; ", ", "];

fn render(doc: &[u16], sep_dial: usize) -> String {
    let mut s = String::new();
    for (i, w) in doc.iter().enumerate() {
        if i > 0 {
            s.push_str(SEPS[(sep_dial + i) % SEPS.len()]);
        }
        s.push_str(VOCAB[vengine::gen::idx(*w, VOCAB.len())]);
    }
    s
}

pub fn strategy(t: Tier) -> impl Strategy<Value = TextCase> {
    let max_docs = t.pick(6usize, 12);
    let doc = || proptest::collection::vec(any::<u16>(), 0..=8);
    (
        0u16..4,
        proptest::collection::vec(doc(), 1..=max_docs),
        proptest::collection::vec(doc(), 1..=3),
        proptest::collection::vec(any::<u16>(), 14),
    )
        .prop_map(|(kind, docs, qdocs, knobs)| TextCase { kind, docs, qdocs, knobs })
}

/// The function tokenizer: unlike the default regex it keeps one-letter words and splits on blanks and ';' only.
fn tok(s: &str) -> Vec<&str> {
    s.split(|c: char| c == ' ' || c == ';').filter(|t| !t.is_empty()).collect()
}

#[derive(Clone, Copy, PartialEq, Debug)]
enum Tk {
    DefaultRegex,
    Regex(&'static str),
    Function,
    /// function first, then a regex: the builder keeps the function but clears the guard (C04 finding)
    FunctionThenRegex,
}

/// Tokenizer choice from the primary dial, the history flag and (for custom expressions) a later dial that selects
/// expressions whose matches depend on letter case.
fn choose_tk(primary: usize, hist: bool, sub: usize, allow_invalid: bool) -> Tk {
    match primary {
        0 | 1 | 2 => Tk::DefaultRegex,
        3 => Tk::Regex([r"\w+", r"[A-Z]\w+", r"[A-Z][a-z]+|[a-z]{3,}", r"\b[A-Z]{2,}\b"][sub.min(3)]),
        4 => Tk::Regex([r"[a-z]+", r"\b[a-z]{2,}\b", r"[A-Z]\w+", r"\b[a-z]\w*\b"][sub.min(3)]),
        5 | 6 => Tk::Function,
        _ => {
            if hist {
                Tk::FunctionThenRegex
            } else if allow_invalid {
                Tk::Regex("[")
            } else {
                Tk::Regex(r"\b\w+\b")
            }
        }
    }
}

fn cased(tk: Tk) -> bool {
    matches!(tk, Tk::Regex(r) if r.contains("A-Z") || r.contains("a-z"))
}

struct Built {
    params: CountVectorizerParams,
    tk: Tk,
}

fn build(k: &mut Knobs, obs: &mut Obs, allow_invalid: bool) -> Built {
    let primary = k.pick(8);
    let hist = if primary == 7 { k.flag() } else { false };
    let mut p = CountVectorizer::params();
    let lower = !k.rare();
    p = p.convert_to_lowercase(lower).normalize(!k.rare());
    let ranges: &[(usize, usize)] = if allow_invalid { &[(1, 1), (1, 2), (2, 2), (1, 3), (0, 1), (2, 1)] } else { &[(1, 1), (1, 2), (2, 2), (1, 3)] };
    let (a, b) = ranges[k.pick(ranges.len())];
    p = p.n_gram_range(a, b);
    let dfs: &[(f32, f32)] = if allow_invalid {
        &[(0.0, 1.0), (0.0, 1.0), (0.2, 0.9), (0.0, 0.75), (-0.1, 1.0), (0.9, 0.1), (f32::NAN, 1.0)]
    } else {
        &[(0.0, 1.0), (0.0, 1.0), (0.2, 0.9), (0.0, 0.75)]
    };
    let (lo, hi) = dfs[k.pick(dfs.len())];
    p = p.document_frequency(lo, hi);
    match k.pick(3) {
        0 => {}
        1 => {
            p = p.stopwords(&["the", "and", "a", "one", "two", "b"]);
            obs.class("with_stopwords");
        }
        _ => {
            p = p.stopwords(&["the"]);
            obs.class("with_stopwords");
        }
    }
    if k.rare() {
        p = p.max_features(Some(1 + k.pick(4)));
        obs.class("with_max_features");
    }
    // the tokenizer is chosen last (a later dial picks among case-dependent expressions); setters are independent
    let tk = choose_tk(primary, hist, k.pick(4), allow_invalid);
    // one case in three: the builder is checked once (with the default expression still in place) before the custom
    // expression is set - a parameter set with a history, whose restored copy must still refit like the original
    let checked_first = k.pick(3) == 2;
    match tk {
        Tk::DefaultRegex => {}
        Tk::Regex(r) => {
            if checked_first {
                use linfa::ParamGuard;
                let _ = p.check_ref();
                obs.class("regex_set_after_an_earlier_check");
            }
            p = p.tokenizer(Tokenizer::Regex(r.to_string()))
        }
        Tk::Function => p = p.tokenizer(Tokenizer::Function(tok)),
        Tk::FunctionThenRegex => p = p.tokenizer(Tokenizer::Function(tok)).tokenizer(Tokenizer::Regex(r"\w+".to_string())),
    }
    obs.class_if(matches!(tk, Tk::Function), "function_tokenizer");
    obs.class_if(matches!(tk, Tk::DefaultRegex | Tk::Regex(_)), "regex_tokenizer");
    obs.class_if(matches!(tk, Tk::FunctionThenRegex), "function_then_regex_history");
    obs.class_if(cased(tk) && lower, "cased_regex_with_lowercasing");
    obs.class_if(cased(tk) && !lower, "cased_regex_without_lowercasing");
    Built { params: p, tk }
}

fn texts(docs: &[Vec<u16>], sep: usize) -> Array1<String> {
    docs.iter().map(|d| render(d, sep)).collect()
}

fn err_text<T>(r: Result<T, PreprocessingError>) -> Result<T, String> {
    r.map_err(|e| e.to_string())
}

/// word -> column of the dense count matrix (a fit's column order follows HashMap iteration)
fn by_word(v: &CountVectorizer, x: &Array1<String>) -> Result<BTreeMap<String, Vec<usize>>, String> {
    let m: Array2<usize> = err_text(v.transform(x))?.to_dense();
    let voc = v.vocabulary();
    if voc.len() != m.ncols() || v.nentries() != voc.len() {
        return Err(format!("<vocabulary of {} words, {} entries, {} columns>", voc.len(), v.nentries(), m.ncols()));
    }
    Ok(voc.iter().enumerate().map(|(j, w)| (w.clone(), m.column(j).to_vec())).collect())
}

fn by_word_tfidf(v: &FittedTfIdfVectorizer, x: &Array1<String>) -> Result<BTreeMap<String, Vec<u64>>, String> {
    let m: Array2<f64> = err_text(v.transform(x))?.to_dense();
    let voc = v.vocabulary();
    if voc.len() != m.ncols() || v.nentries() != voc.len() {
        return Err(format!("<vocabulary of {} words, {} entries, {} columns>", voc.len(), v.nentries(), m.ncols()));
    }
    Ok(voc.iter().enumerate().map(|(j, w)| (w.clone(), m.column(j).iter().map(|f| f.to_bits()).collect())).collect())
}

pub fn check(c: &TextCase, obs: &mut Obs) {
    let mut k = Knobs::new(&c.knobs);
    let sep = k.pick(3);
    let x = texts(&c.docs, sep);
    let q = texts(&c.qdocs, sep + 1);
    obs.class_if(c.docs.iter().any(|d| d.is_empty()), "empty_document");
    match c.kind {
        0 => count_params(obs, &mut k, &x, &q),
        1 => count_fitted(obs, &mut k, &x, &q),
        2 => tfidf_params(obs, &mut k, &x, &q),
        _ => tfidf_fitted(obs, &mut k, &x, &q),
    }
}

// ------------------------------------------------------------------------------------------------

fn params_obligations(obs: &mut Obs, t: &str, fmt: Fmt, tk: Tk, params: &CountVectorizerParams, back: &CountVectorizerParams, want_verdict: &Result<(), String>) {
    must(obs, t, fmt, "check_ref-verdict", verdict(back.check_ref()) == *want_verdict);
    if let (Ok(a), Ok(b)) = (params.check_ref(), back.check_ref()) {
        must(obs, t, fmt, "max_features", a.max_features() == b.max_features());
        must(obs, t, fmt, "convert_to_lowercase", a.convert_to_lowercase() == b.convert_to_lowercase());
        // (`split_regex()` unwraps the regex cell: a restored set without it panics)
        let re = |p: &linfa_preprocessing::CountVectorizerValidParams| p.split_regex().as_str().to_string();
        same_behaviour(obs, t, fmt, "split_regex", &observe(|| re(a)), || re(b), |x, y| x == y);
        must(obs, t, fmt, "n_gram_range", a.n_gram_range() == b.n_gram_range());
        must(obs, t, fmt, "normalize", a.normalize() == b.normalize());
        must(
            obs,
            t,
            fmt,
            "document_frequency",
            a.document_frequency().0.to_bits() == b.document_frequency().0.to_bits() && a.document_frequency().1.to_bits() == b.document_frequency().1.to_bits(),
        );
        must(obs, t, fmt, "stopwords", a.stopwords() == b.stopwords());
        // a function pointer cannot travel (documented `serde(skip)`): it must be gone, never replaced by something else
        must(obs, t, fmt, "tokenizer_function-is-dropped", b.tokenizer_function().is_none());
        if matches!(tk, Tk::DefaultRegex | Tk::Regex(_)) {
            must(obs, t, fmt, "tokenizer_function", a.tokenizer_function().is_none());
        }
    }
}

/// Refit obligations of a count-vectoriser parameter set. `fit` abstracts over CountVectorizerParams / TfIdfVectorizer.
fn refit_obligations<P, M>(
    obs: &mut Obs,
    t: &str,
    fmt: Fmt,
    tk: Tk,
    params: &P,
    back: &P,
    redefine: impl Fn(&P) -> P,
    fit: impl Fn(&P) -> Result<M, String>,
    view: impl Fn(&M) -> Result<BTreeMap<String, Vec<u64>>, String>,
    redefine_model: impl Fn(&mut M),
) {
    let want = observe(|| fit(params).and_then(|m| view(&m)));
    let want = match want {
        Ok(w) => w,
        Err(_) => return obs.class("orig_behaviour_panics"),
    };
    obs.class_if(want.is_ok(), "refit_compared_models");
    match tk {
        Tk::DefaultRegex | Tk::Regex(_) => {
            let got = vengine::guard(|| fit(back).and_then(|m| view(&m)));
            match got {
                Err(p) => obs.fail(format!("{t}:refit-panics:{}", fmt.name()), p),
                Ok(g) => must(obs, t, fmt, "refit", g == want),
            }
        }
        Tk::Function => {
            // (a) re-supplying the function (the documented way) must give the original's model
            let again = redefine(back);
            match vengine::guard(|| fit(&again).and_then(|m| view(&m))) {
                Err(p) => obs.fail(format!("{t}:refit-after-redefinition-panics:{}", fmt.name()), p),
                Ok(g) => must(obs, t, fmt, "refit-after-redefinition", g == want),
            }
            // (b) without it the restored set must not quietly train with a different tokenizer: either the fit refuses,
            //     or the model it returns equals the original's once the function is re-supplied to the model
            match vengine::guard(|| {
                fit(back).and_then(|mut m| {
                    redefine_model(&mut m);
                    view(&m)
                })
            }) {
                Err(p) => obs.fail(format!("{t}:refit-panics:{}", fmt.name()), p),
                Ok(Err(_)) => obs.class("restored_function_params_refuse_to_fit"),
                Ok(Ok(g)) => {
                    if want.as_ref().ok() != Some(&g) {
                        obs.fail(
                            format!("{t}:restored-function-tokenizer-fits-with-regex"),
                            format!(
                                "[{}] parameters built with Tokenizer::Function lose the function in the round trip (guard set), yet `fit` on the restored set \
                                 answers Ok and builds its vocabulary with the default regex: {} words instead of the original's {}",
                                fmt.name(),
                                g.len(),
                                want.as_ref().map(|w| w.len()).unwrap_or(0)
                            ),
                        );
                    }
                }
            }
        }
        Tk::FunctionThenRegex => {
            // the original keeps using the function although a regex was set afterwards and the guard is clear; the restored set uses the regex
            let got = vengine::guard(|| fit(back).and_then(|m| view(&m)));
            match got {
                Err(p) => obs.fail(format!("{t}:refit-panics:{}", fmt.name()), p),
                Ok(g) => {
                    if g != want {
                        obs.fail(
                            format!("{t}:function-then-regex:refit-differs"),
                            format!(
                                "[{}] builder .tokenizer(Function).tokenizer(Regex) keeps the function with the guard cleared: the original fits with the function, \
                                 the restored set silently fits with the regex",
                                fmt.name()
                            ),
                        );
                    }
                }
            }
        }
    }
}

fn u64s(m: BTreeMap<String, Vec<usize>>) -> BTreeMap<String, Vec<u64>> {
    m.into_iter().map(|(k, v)| (k, v.into_iter().map(|x| x as u64).collect())).collect()
}

fn count_params(obs: &mut Obs, k: &mut Knobs, x: &Array1<String>, _q: &Array1<String>) {
    const T: &str = "CountVectorizerParams";
    let Built { params, tk } = build(k, obs, true);
    obs.class(T);
    obs.nontrivial();
    // pristine (split_regex cell still empty)
    let pristine = roundtrip(obs, T, &params, HASHED);
    let want_verdict = verdict(params.check_ref());
    obs.class_if(want_verdict.is_ok(), "params_valid");
    obs.class_if(want_verdict.is_err(), "params_invalid");
    // after check_ref the RefCell holds the compiled regex, which is serialised too
    let checked = roundtrip(obs, T, &params, HASHED);
    for (fmt, back) in pristine.into_iter().chain(checked) {
        params_obligations(obs, T, fmt, tk, &params, &back, &want_verdict);
        if want_verdict.is_ok() {
            refit_obligations(
                obs,
                T,
                fmt,
                tk,
                &params,
                &back,
                |p| p.clone().tokenizer(Tokenizer::Function(tok)),
                |p| err_text(p.fit(x)),
                |m| by_word(m, x).map(u64s),
                |m| m.force_tokenizer_function_redefinition(tok),
            );
        }
    }
    if let Ok(valid) = params.check_ref() {
        const V: &str = "CountVectorizerValidParams";
        obs.class(V);
        for (fmt, back) in roundtrip(obs, V, valid, HASHED) {
            let re = |p: &linfa_preprocessing::CountVectorizerValidParams| p.split_regex().as_str().to_string();
            same_behaviour(obs, V, fmt, "split_regex", &observe(|| re(valid)), || re(&back), |x, y| x == y);
            must(obs, V, fmt, "n_gram_range", valid.n_gram_range() == back.n_gram_range());
            must(obs, V, fmt, "stopwords", valid.stopwords() == back.stopwords());
            if matches!(tk, Tk::DefaultRegex | Tk::Regex(_)) {
                let want = observe(|| err_text(valid.fit(x)).and_then(|m| by_word(&m, x)));
                same_behaviour(obs, V, fmt, "refit", &want, || err_text(back.fit(x)).and_then(|m| by_word(&m, x)), |a, b| a == b);
            }
        }
    }
}

/// Obligations for a fitted count vectoriser given how its tokenizer was configured.
fn fitted_obligations<M: Clone + Serialize + serde::de::DeserializeOwned>(
    obs: &mut Obs,
    t: &str,
    fmt: Fmt,
    tk: Tk,
    want: &Result<Result<BTreeMap<String, Vec<u64>>, String>, String>,
    back: &M,
    view: impl Fn(&M) -> Result<BTreeMap<String, Vec<u64>>, String>,
    redefine: impl Fn(&mut M),
    not_set_text: &str,
) {
    let want = match want {
        Ok(w) => w,
        Err(_) => return obs.class("orig_behaviour_panics"),
    };
    match tk {
        Tk::DefaultRegex | Tk::Regex(_) => match vengine::guard(|| view(back)) {
            Err(p) => obs.fail(format!("{t}:transform-panics:{}", fmt.name()), p),
            Ok(g) => must(obs, t, fmt, "transform", g == *want),
        },
        Tk::Function => {
            // Generations: restore -> (must refuse) -> supply the function again (must behave like the original) -> serialise that
            // working object -> restore -> must refuse again ... A function pointer never travels, whatever happened before.
            let mut current: M = back.clone();
            for generation in 1..=3u8 {
                let (missing, after) = if generation == 1 {
                    (format!("{t}:tokenizer-guard-missing:{}", fmt.name()), "transform-after-redefinition".to_string())
                } else {
                    (
                        format!("{t}:tokenizer-guard-missing-after-redefinition:{}", fmt.name()),
                        format!("transform-after-redefinition-gen{generation}"),
                    )
                };
                match vengine::guard(|| view(&current)) {
                    Err(p) => obs.fail(format!("{t}:transform-panics:{}", fmt.name()), p),
                    Ok(Err(e)) => must(obs, t, fmt, "tokenizer-guard-error-kind", e == not_set_text),
                    Ok(Ok(_)) => obs.fail(
                        missing,
                        format!(
                            "generation {generation}: a vectoriser fitted with a function tokenizer transforms right after being restored although the function was \
                             not supplied again to this copy (it silently uses the regex tokenizer)"
                        ),
                    ),
                }
                let mut working = current.clone();
                redefine(&mut working);
                match vengine::guard(|| view(&working)) {
                    Err(p) => obs.fail(format!("{t}:{after}-panics:{}", fmt.name()), p),
                    Ok(g) => must(obs, t, fmt, &after, g == *want),
                }
                if generation == 3 {
                    break;
                }
                // the repaired, working object is serialised again
                current = match vengine::guard(|| fmt.ser(&working).and_then(|b| fmt.de::<M>(&b))) {
                    Ok(Ok(next)) => next,
                    Ok(Err(e)) => {
                        obs.fail(format!("{t}:second-generation-roundtrip-error:{}", fmt.name()), e);
                        break;
                    }
                    Err(p) => {
                        obs.fail(format!("{t}:second-generation-roundtrip-panics:{}", fmt.name()), p);
                        break;
                    }
                };
                obs.class("function_tokenizer_generations");
            }
        }
        Tk::FunctionThenRegex => match vengine::guard(|| view(back)) {
            Err(p) => obs.fail(format!("{t}:transform-panics:{}", fmt.name()), p),
            Ok(g) => {
                if g != *want {
                    obs.fail(
                        format!("{t}:function-then-regex:transform-differs"),
                        format!(
                            "[{}] builder .tokenizer(Function).tokenizer(Regex) keeps the function with the guard cleared: the original vectoriser tokenises with the \
                             function, the restored one silently with the regex",
                            fmt.name()
                        ),
                    );
                }
            }
        },
    }
}

fn count_fitted(obs: &mut Obs, k: &mut Knobs, x: &Array1<String>, q: &Array1<String>) {
    const T: &str = "CountVectorizer";
    let Built { params, tk } = build(k, obs, false);
    let by_vocabulary = k.rare();
    let model = match vengine::guard(|| if by_vocabulary { params.fit_vocabulary(&["one", "two", "caf\u{e9}", "b", "one two"]) } else { params.fit(x) }) {
        Ok(Ok(m)) => m,
        _ => return obs.skip("fit_failed"),
    };
    obs.class(T);
    obs.class_if(by_vocabulary, "fit_vocabulary");
    obs.class_if(model.nentries() == 0, "empty_vocabulary");
    obs.class_if(model.nentries() >= 4, "vocabulary_of_four_or_more");
    obs.nontrivial();
    let not_set = PreprocessingError::TokenizerNotSet.to_string();
    // column order is part of the fitted state: compare in the model's own order (index-tagged)
    let view = |m: &CountVectorizer| -> Result<BTreeMap<String, Vec<u64>>, String> {
        let mut out = BTreeMap::new();
        for (name, docs) in [("train", x), ("query", q)] {
            let d: Array2<usize> = err_text(m.transform(docs))?.to_dense();
            out.insert(format!("{name}:shape"), vec![d.nrows() as u64, d.ncols() as u64]);
            out.insert(format!("{name}:data"), d.iter().map(|v| *v as u64).collect());
        }
        Ok(out)
    };
    let want = observe(|| view(&model));
    for (fmt, back) in roundtrip(obs, T, &model, HASHED) {
        must(obs, T, fmt, "nentries", model.nentries() == back.nentries());
        must(obs, T, fmt, "vocabulary", model.vocabulary() == back.vocabulary());
        fitted_obligations(obs, T, fmt, tk, &want, &back, view, |m| m.force_tokenizer_function_redefinition(tok), &not_set);
    }
}

/// `TfIdfVectorizer` offers no setter for its method (always `Smooth`); the three `TfIdfMethod` values are covered by the
/// enumeration sub-check.
fn tfidf_builder(k: &mut Knobs, obs: &mut Obs, allow_invalid: bool) -> (TfIdfVectorizer, Tk) {
    // mirror `build` through TfIdfVectorizer's own builder methods
    let primary = k.pick(8);
    let hist = if primary == 7 { k.flag() } else { false };
    let mut p = TfIdfVectorizer::default();
    let lower = !k.rare();
    p = p.convert_to_lowercase(lower).normalize(!k.rare());
    let ranges: &[(usize, usize)] = if allow_invalid { &[(1, 1), (1, 2), (2, 2), (0, 1), (2, 1)] } else { &[(1, 1), (1, 2), (2, 2)] };
    let (a, b) = ranges[k.pick(ranges.len())];
    p = p.n_gram_range(a, b);
    let dfs: &[(f32, f32)] = if allow_invalid { &[(0.0, 1.0), (0.2, 0.9), (-0.1, 1.0), (0.9, 0.1)] } else { &[(0.0, 1.0), (0.0, 1.0), (0.2, 0.9)] };
    let (lo, hi) = dfs[k.pick(dfs.len())];
    p = p.document_frequency(lo, hi);
    if k.flag() {
        p = p.stopwords(&["the", "and", "b"]);
        obs.class("with_stopwords");
    }
    if k.rare() {
        p = p.max_features(Some(1 + k.pick(4)));
        obs.class("with_max_features");
    }
    // the tokenizer is chosen last (a later dial picks among case-dependent expressions); setters are independent
    let tk = choose_tk(primary, hist, k.pick(4), allow_invalid);
    // one case in three: the builder is checked once (with the default expression still in place) before the custom
    // expression is set - a parameter set with a history, whose restored copy must still refit like the original
    let checked_first = k.pick(3) == 2;
    match tk {
        Tk::DefaultRegex => {}
        Tk::Regex(r) => {
            if checked_first {
                use linfa::ParamGuard;
                let _ = p.fit(&ndarray::array!["ab cd".to_string(), "cd".to_string()]);
                obs.class("regex_set_after_an_earlier_check");
            }
            p = p.tokenizer(Tokenizer::Regex(r.to_string()))
        }
        Tk::Function => p = p.tokenizer(Tokenizer::Function(tok)),
        Tk::FunctionThenRegex => p = p.tokenizer(Tokenizer::Function(tok)).tokenizer(Tokenizer::Regex(r"\w+".to_string())),
    }
    obs.class_if(matches!(tk, Tk::Function), "function_tokenizer");
    obs.class_if(matches!(tk, Tk::DefaultRegex | Tk::Regex(_)), "regex_tokenizer");
    obs.class_if(matches!(tk, Tk::FunctionThenRegex), "function_then_regex_history");
    obs.class_if(cased(tk) && lower, "cased_regex_with_lowercasing");
    obs.class_if(cased(tk) && !lower, "cased_regex_without_lowercasing");
    (p, tk)
}

fn tfidf_params(obs: &mut Obs, k: &mut Knobs, x: &Array1<String>, _q: &Array1<String>) {
    const T: &str = "TfIdfVectorizer";
    let (params, tk) = tfidf_builder(k, obs, true);
    obs.class(T);
    obs.nontrivial();
    let pristine = roundtrip(obs, T, &params, HASHED);
    // fitting runs check_ref on the inner CountVectorizerParams, which fills the regex cell
    let verdict0 = observe(|| err_text(params.fit(x)).map(|_| ()));
    obs.class_if(matches!(verdict0, Ok(Ok(()))), "params_valid");
    obs.class_if(matches!(verdict0, Ok(Err(_))), "params_invalid");
    let checked = roundtrip(obs, T, &params, HASHED);
    for (fmt, back) in pristine.into_iter().chain(checked) {
        if matches!(verdict0, Ok(Ok(()))) {
            refit_obligations(
                obs,
                T,
                fmt,
                tk,
                &params,
                &back,
                |p| p.clone().tokenizer(Tokenizer::Function(tok)),
                |p| err_text(p.fit(x)),
                |m| by_word_tfidf(m, x),
                |m| m.force_tokenizer_redefinition(tok),
            );
        } else if let Ok(Err(e)) = &verdict0 {
            // an invalid set must stay invalid with the same error
            let got = vengine::guard(|| err_text(back.fit(x)).map(|_| ()));
            must(obs, T, fmt, "fit-verdict", matches!(&got, Ok(Err(g)) if g == e));
        }
    }
}

fn tfidf_fitted(obs: &mut Obs, k: &mut Knobs, x: &Array1<String>, q: &Array1<String>) {
    const T: &str = "FittedTfIdfVectorizer";
    let (params, tk) = tfidf_builder(k, obs, false);
    let model = match vengine::guard(|| params.fit(x)) {
        Ok(Ok(m)) => m,
        _ => return obs.skip("fit_failed"),
    };
    obs.class(T);
    obs.class_if(model.nentries() == 0, "empty_vocabulary");
    obs.class_if(model.nentries() >= 4, "vocabulary_of_four_or_more");
    obs.nontrivial();
    let not_set = PreprocessingError::TokenizerNotSet.to_string();
    let view = |m: &FittedTfIdfVectorizer| -> Result<BTreeMap<String, Vec<u64>>, String> {
        let mut out = BTreeMap::new();
        for (name, docs) in [("train", x), ("query", q)] {
            let d: Array2<f64> = err_text(m.transform(docs))?.to_dense();
            out.insert(format!("{name}:shape"), vec![d.nrows() as u64, d.ncols() as u64]);
            out.insert(format!("{name}:data"), d.iter().map(|v| v.to_bits()).collect());
        }
        Ok(out)
    };
    let want = observe(|| view(&model));
    for (fmt, back) in roundtrip(obs, T, &model, HASHED) {
        must(obs, T, fmt, "nentries", model.nentries() == back.nentries());
        must(obs, T, fmt, "vocabulary", model.vocabulary() == back.vocabulary());
        must(obs, T, fmt, "method", model.method() == back.method());
        fitted_obligations(obs, T, fmt, tk, &want, &back, view, |m| m.force_tokenizer_redefinition(tok), &not_set);
    }
}
