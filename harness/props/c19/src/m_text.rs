use proptest::prelude::*;
use vengine::{Obs, Tier};
pub const REQUIRED: &[&str] = &[];
pub fn strategy(_t: Tier) -> impl Strategy<Value = u8> { any::<u8>() }
pub fn check(_c: &u8, _obs: &mut Obs) {}
