//! linfa-pls, linfa-reduction (PCA), linfa-ica, linfa-preprocessing scalers / whiteners, linfa-kernel, LpDist.

use crate::rt::{roundtrip, Fmt, Opts};
use crate::Case;
use serde::de::DeserializeOwned;
use serde::Serialize;
use vengine::Obs;

pub const NKINDS: u16 = 10;
pub const REQUIRED: &[&str] = &[
    "PlsRegression",
    "PlsCanonical",
    "PlsCca",
    "PlsSvdParams",
    "Pca",
    "PcaParams",
    "FastIca",
    "FastIcaValidParams",
    "LinearScaler",
    "LinearScalerParams",
    "NormScaler",
    "FittedWhitener",
    "Whitener",
    "LpDist",
    "KernelMethod",
    "Kernel",
    "shape_single_sample",
    "shape_fewer_samples_than_features",
    "shape_samples_eq_features",
    "shape_samples_eq_features_plus_1",
    "wide_fitted_whitener",
];

pub fn check(c: &Case, obs: &mut Obs) {
    obs.class_if(c.f32, "f32");
    obs.class_if(!c.f32, "f64");
    // PLS / PCA / ICA / whitener decompositions get at least two rows: on a single sample the covariance is 0/0 and e.g.
    // `Whitener::zca().fit` never returns (a hang cannot be skipped); the scalers and kernels also see a single row
    let min_rows = if matches!(c.kind, 0 | 2 | 3 | 6) { 2 } else { 1 };
    let c = &crate::util::shape_variant(c, obs, min_rows);
    if c.x.is_empty() {
        return obs.skip("no_rows");
    }
    if c.f32 {
        impl_f32::run(c, obs)
    } else {
        impl_f64::run(c, obs)
    }
}

// Compile-time probe (autoref specialisation): does a concrete type implement the serde traits?
// `(&Probe(&value)).try_roundtrip(..)` resolves to `ViaSerde` when it does and to `ViaNone` otherwise,
// so the adapter for a type whose derive can never be satisfied still compiles — and starts testing
// the round trip as soon as the implementation exists.
pub struct Probe<'a, T>(pub &'a T);
pub trait ViaSerde<T> {
    fn try_roundtrip(&self, obs: &mut Obs, name: &str, opts: Opts) -> Option<Vec<(Fmt, T)>>;
}
impl<'a, T: Serialize + DeserializeOwned> ViaSerde<T> for Probe<'a, T> {
    fn try_roundtrip(&self, obs: &mut Obs, name: &str, opts: Opts) -> Option<Vec<(Fmt, T)>> {
        Some(roundtrip(obs, name, self.0, opts))
    }
}
pub trait ViaNone<T> {
    fn try_roundtrip(&self, _obs: &mut Obs, _name: &str, _opts: Opts) -> Option<Vec<(Fmt, T)>> {
        None
    }
}
impl<'a, T> ViaNone<T> for &Probe<'a, T> {}

macro_rules! adapters {
    ($modname:ident, $F:ty) => {
        mod $modname {
            #[allow(unused_imports)]
            use super::{Probe, ViaNone, ViaSerde};
            use crate::rt::*;
            use crate::util::*;
            use crate::Case;
            use linfa::traits::{Fit, Predict, Transformer};
            use linfa::{Dataset, DatasetBase, ParamGuard};
            use linfa_ica::fast_ica::{FastIca, GFunc};
            use linfa_kernel::{Kernel, KernelMethod, KernelType};
            use linfa_nn::distance::{Distance, LpDist};
            use linfa_pls::{PlsCanonical, PlsCca, PlsRegression, PlsSvd};
            use linfa_preprocessing::linear_scaling::{LinearScaler, LinearScalerParams, ScalingMethod};
            use linfa_preprocessing::norm_scaling::NormScaler;
            use linfa_preprocessing::whitening::Whitener;
            use ndarray::Array2;
            use vengine::Obs;
            type F = $F;

            pub fn run(c: &Case, obs: &mut Obs) {
                let mut k = Knobs::new(&c.knobs);
                match c.kind {
                    0 => pls(c, obs, &mut k),
                    1 => pls_svd_params(c, obs, &mut k),
                    2 => pca(c, obs, &mut k),
                    3 => ica(c, obs, &mut k),
                    4 => linear_scaler(c, obs, &mut k),
                    5 => norm_scaler(c, obs, &mut k),
                    6 => whitener(c, obs, &mut k),
                    7 => lp_dist(c, obs, &mut k),
                    8 => kernel_method(c, obs, &mut k),
                    _ => kernel(c, obs, &mut k),
                }
            }

            fn queries(c: &Case) -> Array2<F> {
                mat(&with_fixed_queries(&c.q, ncols(c)))
            }
            fn ymat(c: &Case, cols: usize) -> Array2<F> {
                let n = c.x.len();
                let t: Vec<Vec<F>> = (0..cols).map(|j| targets::<F>(c, j)).collect();
                Array2::from_shape_fn((n, cols), |(i, j)| t[j].get(i).copied().unwrap_or(F::of(0.0)))
            }

            macro_rules! pls_one {
                ($name:literal, $ty:ident, $c:expr, $obs:expr, $k:expr) => {{
                    const T: &str = $name;
                    let (c, obs, k) = ($c, $obs, $k);
                    let p = ncols(c);
                    let ycols = 1 + k.pick(2);
                    let ncomp = 1 + k.pick(p.min(ycols).max(1));
                    let params = $ty::<F>::params(ncomp)
                        .scale(k.flag())
                        .max_iterations(100)
                        .tolerance(F::of(1e-6))
                        .algorithm(if k.flag() { linfa_pls::Algorithm::Svd } else { linfa_pls::Algorithm::Nipals });
                    let ds = Dataset::new(mat::<F>(&c.x), ymat(c, ycols));
                    let model = match vengine::guard(|| params.fit(&ds)) {
                        Ok(Ok(m)) => m,
                        _ => return obs.skip("fit_failed"),
                    };
                    obs.class(T);
                    obs.nontrivial();
                    let q = queries(c);
                    let qy = ymat(c, ycols).slice(ndarray::s![..q.nrows().min(c.x.len()), ..]).to_owned();
                    let qx = q.slice(ndarray::s![..qy.nrows(), ..]).to_owned();
                    let want_pred = observe(|| model.predict(&q));
                    let want_tr = observe(|| {
                        let d = model.transform(Dataset::new(qx.clone(), qy.clone()));
                        (d.records, d.targets)
                    });
                    let scores = want_tr.clone().ok();
                    let want_inv = observe(|| {
                        let (r, t) = scores.clone().expect("scores");
                        let d = model.inverse_transform(Dataset::new(r, t));
                        (d.records, d.targets)
                    });
                    for (fmt, back) in roundtrip(obs, T, &model, STABLE) {
                        eq_check(obs, T, fmt, &model, &back);
                        must(obs, T, fmt, "weights", same_arr(model.weights().0, back.weights().0) && same_arr(model.weights().1, back.weights().1));
                        must(obs, T, fmt, "loadings", same_arr(model.loadings().0, back.loadings().0) && same_arr(model.loadings().1, back.loadings().1));
                        must(obs, T, fmt, "rotations", same_arr(model.rotations().0, back.rotations().0) && same_arr(model.rotations().1, back.rotations().1));
                        must(obs, T, fmt, "coefficients", same_arr(model.coefficients(), back.coefficients()));
                        same_behaviour(obs, T, fmt, "predict", &want_pred, || back.predict(&q), |a, b| same_arr(a, b));
                        same_behaviour(
                            obs,
                            T,
                            fmt,
                            "transform",
                            &want_tr,
                            || {
                                let d = back.transform(Dataset::new(qx.clone(), qy.clone()));
                                (d.records, d.targets)
                            },
                            |a, b| same_arr(&a.0, &b.0) && same_arr(&a.1, &b.1),
                        );
                        same_behaviour(
                            obs,
                            T,
                            fmt,
                            "inverse_transform",
                            &want_inv,
                            || {
                                let (r, t) = scores.clone().expect("scores");
                                let d = back.inverse_transform(Dataset::new(r, t));
                                (d.records, d.targets)
                            },
                            |a, b| same_arr(&a.0, &b.0) && same_arr(&a.1, &b.1),
                        );
                    }
                }};
            }

            fn pls(c: &Case, obs: &mut Obs, k: &mut Knobs) {
                match k.pick(3) {
                    0 => pls_one!("PlsRegression", PlsRegression, c, obs, k),
                    1 => pls_one!("PlsCanonical", PlsCanonical, c, obs, k),
                    _ => pls_one!("PlsCca", PlsCca, c, obs, k),
                }
            }

            fn pls_svd_params(c: &Case, obs: &mut Obs, k: &mut Knobs) {
                const T: &str = "PlsSvdParams";
                let params = PlsSvd::<F>::params(k.pick(4)).scale(k.flag());
                let ds = Dataset::new(mat::<F>(&c.x), ymat(c, 1 + k.pick(2)));
                obs.class(T);
                // the fitted PlsSvd is not serialisable: compare what it does
                let beh = |p: &linfa_pls::PlsSvdParams| -> Result<(Array2<F>, Array2<F>, Array2<F>, Array2<F>), String> {
                    let m: PlsSvd<F> = p.fit(&ds).map_err(|e| e.to_string())?;
                    let d = m.transform(ds.clone());
                    Ok((m.weights().0.clone(), m.weights().1.clone(), d.records, d.targets))
                };
                let want = observe(|| beh(&params));
                obs.class_if(matches!(want, Ok(Ok(_))), "refit_compared_models");
                for (fmt, back) in roundtrip(obs, T, &params, STABLE) {
                    eq_check(obs, T, fmt, &params, &back);
                    same_behaviour(obs, T, fmt, "refit", &want, || beh(&back), |a, b| match (a, b) {
                        (Ok(a), Ok(b)) => same_arr(&a.0, &b.0) && same_arr(&a.1, &b.1) && same_arr(&a.2, &b.2) && same_arr(&a.3, &b.3),
                        (Err(a), Err(b)) => a == b,
                        _ => false,
                    });
                }
            }

            fn pca(c: &Case, obs: &mut Obs, k: &mut Knobs) {
                const P: &str = "PcaParams";
                const T: &str = "Pca";
                // Pca is fitted in f64 only
                let x: Array2<f64> = mat(&c.x);
                let params = linfa_reduction::Pca::params(k.pick(ncols(c) + 2)).whiten(k.flag());
                let ds = DatasetBase::from(x);
                obs.class(P);
                let want_fit = fit_outcome(|| params.fit(&ds));
                for (fmt, back) in roundtrip(obs, P, &params, STABLE) {
                    eq_check(obs, P, fmt, &params, &back);
                    same_refit(obs, P, fmt, &want_fit, fit_outcome(|| back.fit(&ds)));
                }
                let model = match vengine::guard(|| params.fit(&ds)) {
                    Ok(Ok(m)) => m,
                    _ => return obs.class("no_fitted_instance"),
                };
                obs.class(T);
                obs.nontrivial();
                let q: Array2<f64> = mat(&with_fixed_queries(&c.q, ncols(c)));
                let want = observe(|| model.predict(&q));
                let proj = want.clone().ok();
                let want_inv = observe(|| model.inverse_transform(proj.clone().expect("projection")));
                let want_tr = observe(|| model.transform(DatasetBase::from(q.clone())).records);
                for (fmt, back) in roundtrip(obs, T, &model, STABLE) {
                    eq_check(obs, T, fmt, &model, &back);
                    must(obs, T, fmt, "components", same_arr(model.components(), back.components()));
                    must(obs, T, fmt, "mean", same_arr(model.mean(), back.mean()));
                    must(obs, T, fmt, "singular_values", same_arr(model.singular_values(), back.singular_values()));
                    must(obs, T, fmt, "explained_variance", same_arr(&model.explained_variance(), &back.explained_variance()));
                    must(obs, T, fmt, "explained_variance_ratio", same_arr(&model.explained_variance_ratio(), &back.explained_variance_ratio()));
                    same_behaviour(obs, T, fmt, "predict", &want, || back.predict(&q), |a, b| same_arr(a, b));
                    same_behaviour(obs, T, fmt, "transform", &want_tr, || back.transform(DatasetBase::from(q.clone())).records, |a, b| same_arr(a, b));
                    same_behaviour(obs, T, fmt, "inverse_transform", &want_inv, || back.inverse_transform(proj.clone().expect("projection")), |a, b| same_arr(a, b));
                }
            }

            fn ica(c: &Case, obs: &mut Obs, k: &mut Knobs) {
                const P: &str = "FastIcaValidParams";
                const T: &str = "FastIca";
                let p = ncols(c);
                let mut params = FastIca::<F>::params()
                    .gfunc([GFunc::Logcosh(1.0), GFunc::Logcosh(1.5), GFunc::Exp, GFunc::Cube, GFunc::Logcosh(3.0)][k.pick(5)])
                    .max_iter(1 + k.pick(30))
                    .tol(F::of([1e-4, 1e-2, 0.0][k.pick(3)]))
                    .random_state((c.seed % 1000) as usize);
                if k.flag() {
                    params = params.ncomponents(1 + k.pick(p));
                }
                let valid = match params.check() {
                    Ok(v) => v,
                    Err(_) => return obs.skip("params_invalid"),
                };
                let ds = DatasetBase::from(mat::<F>(&c.x));
                obs.class(P);
                let want_fit = fit_outcome(|| valid.fit(&ds));
                for (fmt, back) in roundtrip(obs, P, &valid, STABLE) {
                    eq_check(obs, P, fmt, &valid, &back);
                    must(obs, P, fmt, "ncomponents", valid.ncomponents() == back.ncomponents());
                    must(obs, P, fmt, "gfunc", valid.gfunc() == back.gfunc());
                    must(obs, P, fmt, "max_iter", valid.max_iter() == back.max_iter());
                    must(obs, P, fmt, "tol", same(valid.tol(), back.tol()));
                    must(obs, P, fmt, "random_state", valid.random_state() == back.random_state());
                    same_refit(obs, P, fmt, &want_fit, fit_outcome(|| back.fit(&ds)));
                }
                let model = match vengine::guard(|| valid.fit(&ds)) {
                    Ok(Ok(m)) => m,
                    _ => return obs.class("no_fitted_instance"),
                };
                obs.class(T);
                obs.nontrivial();
                let q = queries(c);
                let want = observe(|| model.predict(&q));
                for (fmt, back) in roundtrip(obs, T, &model, STABLE) {
                    eq_check(obs, T, fmt, &model, &back);
                    same_behaviour(obs, T, fmt, "predict", &want, || back.predict(&q), |a, b| same_arr(a, b));
                }
            }

            fn linear_scaler(c: &Case, obs: &mut Obs, k: &mut Knobs) {
                const P: &str = "LinearScalerParams";
                const T: &str = "LinearScaler";
                let method: ScalingMethod<F> = match k.pick(4) {
                    0 => ScalingMethod::Standard(k.flag(), k.flag()),
                    1 => ScalingMethod::MinMax(F::of(k.range(-2.0, 0.0)), F::of(k.range(0.5, 3.0))),
                    2 => ScalingMethod::MinMax(F::of(k.palette()), F::of(k.palette())),
                    _ => ScalingMethod::MaxAbs,
                };
                const M: &str = "ScalingMethod";
                for (fmt, back) in roundtrip(obs, M, &method, STABLE) {
                    eq_check(obs, M, fmt, &method, &back);
                    let bits = |m: &ScalingMethod<F>| match m {
                        ScalingMethod::Standard(a, b) => (0u8, *a as u64, *b as u64),
                        ScalingMethod::MinMax(a, b) => (1, a.bits(), b.bits()),
                        ScalingMethod::MaxAbs => (2, 0, 0),
                    };
                    must(obs, M, fmt, "content", bits(&method) == bits(&back));
                }
                let params = LinearScalerParams::new(method);
                let ds = DatasetBase::from(mat::<F>(&c.x));
                obs.class(P);
                let want_fit = fit_outcome(|| params.fit(&ds));
                for (fmt, back) in roundtrip(obs, P, &params, STABLE) {
                    eq_check(obs, P, fmt, &params, &back);
                    same_refit(obs, P, fmt, &want_fit, fit_outcome(|| back.fit(&ds)));
                }
                let model = match vengine::guard(|| params.fit(&ds)) {
                    Ok(Ok(m)) => m,
                    _ => return obs.class("no_fitted_instance"),
                };
                obs.class(T);
                obs.nontrivial();
                let q = queries(c);
                let want = observe(|| model.transform(q.clone()));
                let want_ds = observe(|| model.transform(DatasetBase::from(q.clone())).records);
                for (fmt, back) in roundtrip(obs, T, &model, STABLE) {
                    eq_check(obs, T, fmt, &model, &back);
                    must(obs, T, fmt, "offsets", same_arr(model.offsets(), back.offsets()));
                    must(obs, T, fmt, "scales", same_arr(model.scales(), back.scales()));
                    must(obs, T, fmt, "method", {
                        #[allow(clippy::eq_op)]
                        let self_eq = model.method() == model.method();
                        !self_eq || model.method() == back.method()
                    });
                    same_behaviour(obs, T, fmt, "transform", &want, || back.transform(q.clone()), |a, b| same_arr(a, b));
                    same_behaviour(obs, T, fmt, "transform-dataset", &want_ds, || back.transform(DatasetBase::from(q.clone())).records, |a, b| same_arr(a, b));
                }
            }

            fn norm_scaler(c: &Case, obs: &mut Obs, k: &mut Knobs) {
                const T: &str = "NormScaler";
                let model = [NormScaler::l2(), NormScaler::l1(), NormScaler::max()][k.pick(3)].clone();
                obs.class(T);
                let q = queries(c);
                let want = observe(|| model.transform(q.clone()));
                for (fmt, back) in roundtrip(obs, T, &model, STABLE) {
                    eq_check(obs, T, fmt, &model, &back);
                    same_behaviour(obs, T, fmt, "transform", &want, || back.transform(q.clone()), |a, b| same_arr(a, b));
                }
            }

            fn whitener(c: &Case, obs: &mut Obs, k: &mut Knobs) {
                const P: &str = "Whitener";
                const T: &str = "FittedWhitener";
                let params = [Whitener::pca(), Whitener::zca(), Whitener::cholesky()][k.pick(3)].clone();
                let ds = DatasetBase::from(mat::<F>(&c.x));
                obs.class(P);
                let want_fit = fit_outcome(|| Fit::<Array2<F>, _, _>::fit(&params, &ds));
                for (fmt, back) in roundtrip(obs, P, &params, STABLE) {
                    eq_check(obs, P, fmt, &params, &back);
                    same_refit(obs, P, fmt, &want_fit, fit_outcome(|| Fit::<Array2<F>, _, _>::fit(&back, &ds)));
                }
                let model = match vengine::guard(|| Fit::<Array2<F>, _, _>::fit(&params, &ds)) {
                    Ok(Ok(m)) => m,
                    _ => return obs.class("no_fitted_instance"),
                };
                obs.class(T);
                obs.class_if(model.transformation_matrix().nrows() != model.transformation_matrix().ncols(), "wide_fitted_whitener");
                obs.nontrivial();
                let q = queries(c);
                let want = observe(|| model.transform(q.clone()));
                for (fmt, back) in roundtrip(obs, T, &model, STABLE) {
                    eq_check(obs, T, fmt, &model, &back);
                    must(obs, T, fmt, "transformation_matrix", same_arr(&model.transformation_matrix(), &back.transformation_matrix()));
                    must(obs, T, fmt, "mean", same_arr(&model.mean(), &back.mean()));
                    same_behaviour(obs, T, fmt, "transform", &want, || back.transform(q.clone()), |a, b| same_arr(a, b));
                }
            }

            fn lp_dist(c: &Case, obs: &mut Obs, k: &mut Knobs) {
                const T: &str = "LpDist";
                let d = LpDist::<F>(F::of(if k.rare() { k.palette() } else { [1.0, 2.0, 3.0, 1.5, 0.5][k.pick(5)] }));
                obs.class(T);
                let x: Array2<F> = mat(&c.x);
                let q = queries(c);
                let want = observe(|| q.outer_iter().map(|r| Distance::<F>::distance(&d, r, x.row(0))).collect::<Vec<F>>());
                for (fmt, back) in roundtrip(obs, T, &d, STABLE) {
                    eq_check(obs, T, fmt, &d, &back);
                    must(obs, T, fmt, "exponent", same(d.0, back.0));
                    same_behaviour(obs, T, fmt, "distance", &want, || q.outer_iter().map(|r| Distance::<F>::distance(&back, r, x.row(0))).collect::<Vec<F>>(), |a, b| same_slice(a, b));
                }
            }

            fn method_dial(k: &mut Knobs) -> KernelMethod<F> {
                match k.pick(4) {
                    0 => KernelMethod::Linear,
                    1 => KernelMethod::Gaussian(F::of([0.5, 4.0, 16.0][k.pick(3)])),
                    2 => KernelMethod::Polynomial(F::of([1.0, 0.0, -1.0][k.pick(3)]), F::of([2.0, 3.0, 1.0][k.pick(3)])),
                    _ => KernelMethod::Gaussian(F::of(k.palette())),
                }
            }

            fn kernel_method(c: &Case, obs: &mut Obs, k: &mut Knobs) {
                const T: &str = "KernelMethod";
                let m = method_dial(k);
                obs.class(T);
                let x: Array2<F> = mat(&c.x);
                let q = queries(c);
                let want = observe(|| q.outer_iter().map(|r| m.distance(r, x.row(0))).collect::<Vec<F>>());
                for (fmt, back) in roundtrip(obs, T, &m, STABLE) {
                    eq_check(obs, T, fmt, &m, &back);
                    let bits = |m: &KernelMethod<F>| match m {
                        KernelMethod::Gaussian(a) => (0u8, a.bits(), 0),
                        KernelMethod::Linear => (1, 0, 0),
                        KernelMethod::Polynomial(a, b) => (2, a.bits(), b.bits()),
                    };
                    must(obs, T, fmt, "content", bits(&m) == bits(&back));
                    must(obs, T, fmt, "is_linear", m.is_linear() == back.is_linear());
                    same_behaviour(obs, T, fmt, "distance", &want, || q.outer_iter().map(|r| back.distance(r, x.row(0))).collect::<Vec<F>>(), |a, b| same_slice(a, b));
                }
            }

            fn kernel(c: &Case, obs: &mut Obs, k: &mut Knobs) {
                const T: &str = "Kernel";
                let x: Array2<F> = mat(&c.x);
                let n = x.nrows();
                let sparse = k.flag();
                let kind = if sparse { KernelType::Sparse(1 + k.pick((n - 1).max(1).min(3))) } else { KernelType::Dense };
                let method = match k.pick(3) {
                    0 => KernelMethod::Linear,
                    1 => KernelMethod::Gaussian(F::of([0.5, 4.0, 16.0][k.pick(3)])),
                    _ => KernelMethod::Polynomial(F::of(1.0), F::of(2.0)),
                };
                let params = Kernel::<F>::params().kind(kind).method(method);
                let model: Kernel<F> = match vengine::guard(|| params.transform(&x)) {
                    Ok(m) => m,
                    Err(_) => return obs.skip("kernel_build_panicked"),
                };
                obs.class(T);
                obs.class_if(sparse, "kernel_sparse");
                obs.class_if(!sparse, "kernel_dense");
                obs.nontrivial();
                // `KernelBase` derives the serde traits with the bound `KernelInner<K1, K2>: Serialize`; whether a kernel
                // can be serialised at all is decided at compile time by the probe
                let backs: Option<Vec<(Fmt, Kernel<F>)>> = (&Probe(&model)).try_roundtrip(obs, T, STABLE);
                let backs = match backs {
                    Some(b) => b,
                    None => {
                        obs.fail(
                            "Kernel:serde-impl-missing",
                            "linfa_kernel::Kernel<F> derives Serialize/Deserialize under the bound `KernelInner<K1, K2>: Serialize`, but KernelInner \
                             implements neither trait, so no kernel (dense or sparse) can be serialised",
                        );
                        return;
                    }
                };
                let want_dot = observe(|| model.dot(&x.view()));
                for (fmt, back) in backs {
                    eq_check(obs, T, fmt, &model, &back);
                    must(obs, T, fmt, "size", model.size() == back.size());
                    must(obs, T, fmt, "is_linear", model.is_linear() == back.is_linear());
                    must(obs, T, fmt, "method", model.method == back.method);
                    let w = observe(|| (model.sum(), model.diagonal(), model.to_upper_triangle(), (0..model.size()).map(|i| model.column(i)).collect::<Vec<_>>()));
                    same_behaviour(
                        obs,
                        T,
                        fmt,
                        "entries",
                        &w,
                        || (back.sum(), back.diagonal(), back.to_upper_triangle(), (0..back.size()).map(|i| back.column(i)).collect::<Vec<_>>()),
                        |a, b| same_arr(&a.0, &b.0) && same_arr(&a.1, &b.1) && same_slice(&a.2, &b.2) && a.3.len() == b.3.len() && a.3.iter().zip(b.3.iter()).all(|(x, y)| same_slice(x, y)),
                    );
                    same_behaviour(obs, T, fmt, "dot", &want_dot, || back.dot(&x.view()), |a, b| same_arr(a, b));
                }
            }
        }
    };
}

adapters!(impl_f32, f32);
adapters!(impl_f64, f64);
