//! linfa-clustering (+ the linfa-nn selectors and metrics carried inside the parameter sets).

use crate::rt::*;
use crate::util::*;
use crate::Case;
use linfa::prelude::*;
use linfa::traits::{Fit, FitWith, Predict, Transformer};
use linfa::{DatasetBase, ParamGuard};
use linfa_clustering::{
    Dbscan, GaussianMixtureModel, GmmInitMethod, KMeans, KMeansInit, Optics, OpticsAnalysis,
};
use linfa_nn::distance::{Distance, L1Dist, L2Dist, LInfDist, LpDist};
use linfa_nn::{BallTree, CommonNearestNeighbour, KdTree, LinearSearch, NearestNeighbour};
use ndarray::Array2;
use serde::de::DeserializeOwned;
use serde::Serialize;
use vengine::Obs;

pub const NKINDS: u16 = 6;
pub const REQUIRED: &[&str] = &[
    "KMeans",
    "KMeansParams",
    "GaussianMixtureModel",
    "GmmParams",
    "DbscanValidParams",
    "OpticsParams",
    "OpticsAnalysis",
    "precomputed_centroids_column_major",
    "kmeans_incremental_model",
    "incremental_model_column_major",
    "shape_fewer_samples_than_features",
];

pub trait Dist<F: linfa::Float>: Distance<F> + Serialize + DeserializeOwned + PartialEq + std::fmt::Debug + Clone + 'static {}
impl<F: linfa::Float, T: Distance<F> + Serialize + DeserializeOwned + PartialEq + std::fmt::Debug + Clone + 'static> Dist<F> for T {}
pub trait Nn: NearestNeighbour + Serialize + DeserializeOwned + PartialEq + std::fmt::Debug + Clone + 'static {}
impl<T: NearestNeighbour + Serialize + DeserializeOwned + PartialEq + std::fmt::Debug + Clone + 'static> Nn for T {}

pub trait LF: linfa::Float + Fl {}
impl LF for f32 {}
impl LF for f64 {}

/// Run `$body` with a (metric, selector) pair chosen by the dial.
macro_rules! with_dist_nn {
    ($sel:expr, $F:ty, $lp:expr, |$d:ident, $n:ident| $body:expr) => {
        match $sel {
            0 => {
                let ($d, $n) = (L2Dist, CommonNearestNeighbour::KdTree);
                $body
            }
            1 => {
                let ($d, $n) = (L1Dist, CommonNearestNeighbour::BallTree);
                $body
            }
            2 => {
                let ($d, $n) = (LInfDist, CommonNearestNeighbour::LinearSearch);
                $body
            }
            3 => {
                let ($d, $n) = (LpDist::<$F>($lp), KdTree);
                $body
            }
            4 => {
                let ($d, $n) = (L2Dist, BallTree);
                $body
            }
            _ => {
                let ($d, $n) = (L1Dist, LinearSearch);
                $body
            }
        }
    };
}

pub fn check(c: &Case, obs: &mut Obs) {
    obs.class_if(c.f32, "f32");
    obs.class_if(!c.f32, "f64");
    let c = &shape_variant(c, obs, 1);
    if c.x.is_empty() {
        return obs.skip("no_rows");
    }
    if c.f32 {
        run::<f32>(c, obs)
    } else {
        run::<f64>(c, obs)
    }
}

fn run<F: LF>(c: &Case, obs: &mut Obs) {
    let mut k = Knobs::new(&c.knobs);
    let sel = k.pick(6);
    let lp = F::of([1.0, 2.0, 3.0, 1.5][k.pick(4)]);
    match c.kind {
        0 => match sel % 3 {
            0 => kmeans_fitted::<F, _>(c, obs, &mut k, L2Dist),
            1 => kmeans_fitted::<F, _>(c, obs, &mut k, L1Dist),
            _ => kmeans_fitted::<F, _>(c, obs, &mut k, LpDist::<F>(lp)),
        },
        1 => match sel % 3 {
            0 => kmeans_params::<F, _>(c, obs, &mut k, L2Dist),
            1 => kmeans_params::<F, _>(c, obs, &mut k, LInfDist),
            _ => kmeans_params::<F, _>(c, obs, &mut k, LpDist::<F>(lp)),
        },
        2 => gmm_fitted::<F>(c, obs, &mut k),
        3 => gmm_params::<F>(c, obs, &mut k),
        4 => with_dist_nn!(sel, F, lp, |d, n| dbscan::<F, _, _>(c, obs, &mut k, d, n)),
        _ => with_dist_nn!(sel, F, lp, |d, n| optics::<F, _, _>(c, obs, &mut k, d, n)),
    }
}

fn init_method<F: LF>(k: &mut Knobs, obs: &mut Obs, x: &Array2<F>, nc: usize, with_para: bool) -> KMeansInit<F> {
    match k.pick(if with_para { 5 } else { 4 }) {
        0 => KMeansInit::KMeansPlusPlus,
        1 => KMeansInit::Random,
        2 | 3 => {
            // the user's array is stored as it is: vary its memory layout (serde restores row-major)
            let layout = k.pick(3);
            let a = x.slice(ndarray::s![..nc.min(x.nrows()), ..]).to_owned();
            obs.class("kmeans_precomputed_init");
            obs.class_if(layout > 0 && a.nrows() > 1 && a.ncols() > 1, "precomputed_centroids_column_major");
            KMeansInit::Precomputed(relayout(&a, layout))
        }
        _ => KMeansInit::KMeansPara,
    }
}

fn kmeans_fitted<F: LF, D: Dist<F>>(c: &Case, obs: &mut Obs, k: &mut Knobs, dist: D) {
    const T: &str = "KMeans";
    let x: Array2<F> = mat(&c.x);
    let nc = 1 + k.pick(3.min(x.nrows()));
    let init = init_method(k, obs, &x, nc, false);
    let params = KMeans::params_with(nc, SerRng::new(c.seed), dist)
        .n_runs(1 + k.pick(2))
        .max_n_iterations(1 + k.pick(20) as u64)
        .tolerance(F::of(1e-3))
        .init_method(init);
    let ds = DatasetBase::from(x.clone());
    // batch fit, or the incremental path (`fit_with`, one or two batches), whose model keeps the initial centroids' layout
    let incremental = k.pick(3) == 2;
    let model = if incremental {
        let valid = match params.check_ref() {
            Ok(v) => v,
            Err(_) => return obs.skip("params_invalid"),
        };
        let step = |m: Option<KMeans<F, D>>| match vengine::guard(|| valid.fit_with(m, &ds)) {
            Ok(Ok(m)) => Some(m),
            Ok(Err(linfa_clustering::IncrKMeansError::NotConverged(m))) => Some(m),
            _ => None,
        };
        let first = match step(None) {
            Some(m) => m,
            None => return obs.skip("fit_failed"),
        };
        if k.flag() {
            match step(Some(first.clone())) {
                Some(m) => m,
                None => first,
            }
        } else {
            first
        }
    } else {
        match vengine::guard(|| params.fit(&ds)) {
            Ok(Ok(m)) => m,
            _ => return obs.skip("fit_failed"),
        }
    };
    obs.class(T);
    obs.class_if(incremental, "kmeans_incremental_model");
    obs.class_if(incremental && !model.centroids().is_standard_layout(), "incremental_model_column_major");
    obs.nontrivial();
    obs.class_if(nc == 1, "single_cluster");
    // one more incremental step from the restored model must end where the original ends
    let next = |m: &KMeans<F, D>| -> Option<(Array2<F>, ndarray::Array1<F>, F)> {
        let valid = params.check_ref().ok()?;
        let r = match valid.fit_with(Some(m.clone()), &ds) {
            Ok(m) => m,
            Err(linfa_clustering::IncrKMeansError::NotConverged(m)) => m,
            Err(_) => return None,
        };
        Some((r.centroids().clone(), r.cluster_count().clone(), r.inertia()))
    };
    let want_next = observe(|| next(&model));
    let q: Array2<F> = mat(&with_fixed_queries(&c.q, x.ncols()));
    let want_pred = observe(|| model.predict(&q));
    let want_tr = observe(|| model.transform(&q));
    let want_one = observe(|| model.predict(&q.row(0)));
    for (fmt, back) in roundtrip(obs, T, &model, STABLE) {
        eq_check(obs, T, fmt, &model, &back);
        must(obs, T, fmt, "centroids", same_arr(model.centroids(), back.centroids()));
        must(obs, T, fmt, "cluster_count", same_arr(model.cluster_count(), back.cluster_count()));
        must(obs, T, fmt, "inertia", same(model.inertia(), back.inertia()));
        same_behaviour(obs, T, fmt, "predict", &want_pred, || back.predict(&q), |a, b| same_arr(a, b));
        same_behaviour(obs, T, fmt, "transform", &want_tr, || back.transform(&q), |a, b| same_arr(a, b));
        same_behaviour(obs, T, fmt, "predict-one", &want_one, || back.predict(&q.row(0)), |a, b| a == b);
        same_behaviour(obs, T, fmt, "next-incremental-step", &want_next, || next(&back), |a, b| match (a, b) {
            (Some(a), Some(b)) => same_arr(&a.0, &b.0) && same_arr(&a.1, &b.1) && same(a.2, b.2),
            (None, None) => true,
            _ => false,
        });
    }
}

fn kmeans_params<F: LF, D: Dist<F>>(c: &Case, obs: &mut Obs, k: &mut Knobs, dist: D) {
    const T: &str = "KMeansParams";
    let x: Array2<F> = mat(&c.x);
    let nc = k.pick(4);
    let init = init_method(k, obs, &x, nc.max(1), true);
    let refit_ok = !matches!(init, KMeansInit::KMeansPara);
    let huge = k.huge_u64();
    obs.class_if(huge.is_some(), "huge_integer_setting");
    let refit_ok = refit_ok && huge.is_none();
    let params = KMeans::params_with(nc, SerRng::new(c.seed), dist)
        .n_runs(k.pick(3))
        .max_n_iterations(huge.unwrap_or(k.pick(8) as u64))
        .tolerance(F::of(if k.flag() { k.palette() } else { 1e-3 }))
        .init_method(init);
    obs.class(T);
    obs.nontrivial();
    let want_verdict = verdict(params.check_ref());
    obs.class_if(want_verdict.is_ok(), "params_valid");
    obs.class_if(want_verdict.is_err(), "params_invalid");
    let ds = DatasetBase::from(x);
    let can_fit = refit_ok && nc <= ds.nsamples();
    let want_fit = if can_fit { Some(fit_outcome(|| params.fit(&ds))) } else { None };
    for (fmt, back) in roundtrip(obs, T, &params, STABLE) {
        eq_check(obs, T, fmt, &params, &back);
        must(obs, T, fmt, "check_ref-verdict", verdict(back.check_ref()) == want_verdict);
        if let (Ok(a), Ok(b)) = (params.check_ref(), back.check_ref()) {
            must(obs, T, fmt, "n_runs", a.n_runs() == b.n_runs());
            must(obs, T, fmt, "tolerance", same(a.tolerance(), b.tolerance()));
            must(obs, T, fmt, "max_n_iterations", a.max_n_iterations() == b.max_n_iterations());
            must(obs, T, fmt, "n_clusters", a.n_clusters() == b.n_clusters());
            must(obs, T, fmt, "rng", a.rng() == b.rng());
            must(obs, T, fmt, "dist_fn", a.dist_fn() == b.dist_fn());
            let same_init = match (a.init_method(), b.init_method()) {
                (KMeansInit::Precomputed(p), KMeansInit::Precomputed(q)) => same_arr(p, q),
                (p, q) => p == q,
            };
            must(obs, T, fmt, "init_method", same_init);
        }
        if let Some(w) = &want_fit {
            same_refit(obs, T, fmt, w, fit_outcome(|| back.fit(&ds)));
        }
    }
    // the checked form is a serialisable type of its own
    if let Ok(valid) = params.clone().check() {
        const V: &str = "KMeansValidParams";
        obs.class(V);
        for (fmt, back) in roundtrip(obs, V, &valid, STABLE) {
            eq_check(obs, V, fmt, &valid, &back);
            if let Some(w) = &want_fit {
                same_refit(obs, V, fmt, w, fit_outcome(|| back.fit(&ds)));
            }
        }
    }
}

fn gmm_fitted<F: LF>(c: &Case, obs: &mut Obs, k: &mut Knobs) {
    const T: &str = "GaussianMixtureModel";
    let x: Array2<F> = mat(&c.x);
    let nc = 1 + k.pick(2);
    let params = GaussianMixtureModel::params_with_rng(nc, SerRng::new(c.seed))
        .n_runs(1 + k.pick(2) as u64)
        .max_n_iterations(60)
        .tolerance(F::of(1e-2))
        .reg_covariance(F::of([1e-2, 1e-4, 0.5][k.pick(3)]))
        .init_method(if k.flag() { GmmInitMethod::Random } else { GmmInitMethod::KMeans });
    let ds = DatasetBase::from(x.clone());
    let model = match vengine::guard(|| params.fit(&ds)) {
        Ok(Ok(m)) => m,
        _ => return obs.skip("fit_failed"),
    };
    obs.class(T);
    obs.nontrivial();
    let q: Array2<F> = mat(&with_fixed_queries(&c.q, x.ncols()));
    let want_pred = observe(|| model.predict(&q));
    let want_proba = observe(|| model.predict_proba(&q));
    for (fmt, back) in roundtrip(obs, T, &model, STABLE) {
        eq_check(obs, T, fmt, &model, &back);
        must(obs, T, fmt, "weights", same_arr(model.weights(), back.weights()));
        must(obs, T, fmt, "means", same_arr(model.means(), back.means()));
        must(obs, T, fmt, "covariances", same_arr(model.covariances(), back.covariances()));
        must(obs, T, fmt, "precisions", same_arr(model.precisions(), back.precisions()));
        must(obs, T, fmt, "centroids", same_arr(model.centroids(), back.centroids()));
        same_behaviour(obs, T, fmt, "predict", &want_pred, || back.predict(&q), |a, b| same_arr(a, b));
        same_behaviour(obs, T, fmt, "predict_proba", &want_proba, || back.predict_proba(&q), |a, b| same_arr(a, b));
    }
}

fn gmm_params<F: LF>(c: &Case, obs: &mut Obs, k: &mut Knobs) {
    const T: &str = "GmmParams";
    let x: Array2<F> = mat(&c.x);
    let huge = k.huge_u64();
    obs.class_if(huge.is_some(), "huge_integer_setting");
    let params = GaussianMixtureModel::params_with_rng(k.pick(3), SerRng::new(c.seed))
        .n_runs(k.pick(3) as u64)
        .max_n_iterations(huge.unwrap_or([60, 0, 1][k.pick(3)]))
        .tolerance(F::of(if k.flag() { k.palette() } else { 1e-2 }))
        .reg_covariance(F::of(if k.flag() { k.palette() } else { 1e-2 }))
        .init_method(if k.flag() { GmmInitMethod::Random } else { GmmInitMethod::KMeans });
    obs.class(T);
    obs.nontrivial();
    let want_verdict = verdict(params.check_ref());
    obs.class_if(want_verdict.is_ok(), "params_valid");
    obs.class_if(want_verdict.is_err(), "params_invalid");
    let ds = DatasetBase::from(x);
    if huge.is_some() {
        // an iteration limit nobody can wait for: the parameter set itself is round-tripped, no fit
        for (fmt, back) in roundtrip(obs, T, &params, STABLE) {
            eq_check(obs, T, fmt, &params, &back);
            must(obs, T, fmt, "check_ref-verdict", verdict(back.check_ref()) == want_verdict);
            if let (Ok(a), Ok(b)) = (params.check_ref(), back.check_ref()) {
                must(obs, T, fmt, "max_n_iterations", a.max_n_iterations() == b.max_n_iterations());
            }
        }
        return;
    }
    let want_fit = fit_outcome(|| params.fit(&ds));
    for (fmt, back) in roundtrip(obs, T, &params, STABLE) {
        eq_check(obs, T, fmt, &params, &back);
        must(obs, T, fmt, "check_ref-verdict", verdict(back.check_ref()) == want_verdict);
        if let (Ok(a), Ok(b)) = (params.check_ref(), back.check_ref()) {
            must(obs, T, fmt, "n_clusters", a.n_clusters() == b.n_clusters());
            must(obs, T, fmt, "covariance_type", a.covariance_type() == b.covariance_type());
            must(obs, T, fmt, "tolerance", same(a.tolerance(), b.tolerance()));
            must(obs, T, fmt, "reg_covariance", same(a.reg_covariance(), b.reg_covariance()));
            must(obs, T, fmt, "n_runs", a.n_runs() == b.n_runs());
            must(obs, T, fmt, "max_n_iterations", a.max_n_iterations() == b.max_n_iterations());
            must(obs, T, fmt, "init_method", a.init_method() == b.init_method());
            must(obs, T, fmt, "rng", a.rng() == b.rng());
        }
        same_refit(obs, T, fmt, &want_fit, fit_outcome(|| back.fit(&ds)));
    }
    if let Ok(valid) = params.clone().check() {
        const V: &str = "GmmValidParams";
        obs.class(V);
        for (fmt, back) in roundtrip(obs, V, &valid, STABLE) {
            eq_check(obs, V, fmt, &valid, &back);
            same_refit(obs, V, fmt, &want_fit, fit_outcome(|| back.fit(&ds)));
        }
    }
}

fn tolerance_dial<F: LF>(k: &mut Knobs) -> F {
    F::of([1.0, 0.5, 2.0, 4.0, 0.25, 1e30][k.pick(6)])
}

fn dbscan<F: LF, D: Dist<F>, N: Nn>(c: &Case, obs: &mut Obs, k: &mut Knobs, dist: D, nn: N) {
    const T: &str = "DbscanValidParams";
    let x: Array2<F> = mat(&c.x);
    let valid = match Dbscan::params_with::<F, D, N>(2 + k.pick(3), dist, nn).tolerance(tolerance_dial::<F>(k)).check() {
        Ok(v) => v,
        Err(_) => return obs.skip("params_invalid"),
    };
    obs.class(T);
    obs.nontrivial();
    let want = observe(|| valid.transform(&x));
    if let Ok(w) = &want {
        obs.class_if(w.iter().any(|l| l.is_some()), "some_cluster_found");
        obs.class_if(w.iter().any(|l| l.is_none()), "some_noise_found");
    }
    for (fmt, back) in roundtrip(obs, T, &valid, STABLE) {
        eq_check(obs, T, fmt, &valid, &back);
        must(obs, T, fmt, "tolerance", same(valid.tolerance(), back.tolerance()));
        must(obs, T, fmt, "minimum_points", valid.minimum_points() == back.minimum_points());
        must(obs, T, fmt, "dist_fn", valid.dist_fn() == back.dist_fn());
        must(obs, T, fmt, "nn_algo", valid.nn_algo() == back.nn_algo());
        same_behaviour(obs, T, fmt, "transform", &want, || back.transform(&x), |a, b| a == b);
    }
}

fn same_analysis<F: LF>(a: &OpticsAnalysis<F>, b: &OpticsAnalysis<F>) -> bool {
    a.as_slice().len() == b.as_slice().len()
        && a.iter().zip(b.iter()).all(|(s, t)| {
            s.index() == t.index()
                && same(*s.core_distance(), *t.core_distance())
                && same(*s.reachability_distance(), *t.reachability_distance())
        })
}

fn optics<F: LF, D: Dist<F>, N: Nn>(c: &Case, obs: &mut Obs, k: &mut Knobs, dist: D, nn: N) {
    const T: &str = "OpticsParams";
    let x: Array2<F> = mat(&c.x);
    let mut params = Optics::params_with::<F, D, N>(k.pick(5), dist, nn);
    match k.pick(4) {
        0 => {} // default tolerance: +infinity
        1 => params = params.tolerance(tolerance_dial::<F>(k)),
        2 => params = params.tolerance(F::of(k.palette())),
        _ => params = params.tolerance(F::of(3.0)),
    }
    obs.class(T);
    obs.nontrivial();
    let want_verdict = verdict(params.check_ref());
    obs.class_if(want_verdict.is_ok(), "params_valid");
    obs.class_if(want_verdict.is_err(), "params_invalid");
    let want_tr = match params.check_ref() {
        Ok(v) => Some(observe(|| v.transform(x.view()))),
        Err(_) => None,
    };
    for (fmt, back) in roundtrip(obs, T, &params, STABLE) {
        eq_check(obs, T, fmt, &params, &back);
        must(obs, T, fmt, "check_ref-verdict", verdict(back.check_ref()) == want_verdict);
        if let (Ok(a), Ok(b)) = (params.check_ref(), back.check_ref()) {
            must(obs, T, fmt, "tolerance", same(a.tolerance(), b.tolerance()));
            must(obs, T, fmt, "minimum_points", a.minimum_points() == b.minimum_points());
            must(obs, T, fmt, "dist_fn", a.dist_fn() == b.dist_fn());
            must(obs, T, fmt, "nn_algo", a.nn_algo() == b.nn_algo());
            if let Some(w) = &want_tr {
                same_behaviour(obs, T, fmt, "transform", w, || b.transform(x.view()), same_analysis);
            }
        }
    }
    let valid = match params.check() {
        Ok(v) => v,
        Err(_) => return,
    };
    const V: &str = "OpticsValidParams";
    obs.class(V);
    for (fmt, back) in roundtrip(obs, V, &valid, STABLE) {
        eq_check(obs, V, fmt, &valid, &back);
        if let Some(w) = &want_tr {
            same_behaviour(obs, V, fmt, "transform", w, || back.transform(x.view()), same_analysis);
        }
    }
    // the analysis itself (and one of its samples) are serialisable results
    if let Some(Ok(analysis)) = &want_tr {
        const A: &str = "OpticsAnalysis";
        obs.class(A);
        obs.class_if(analysis.iter().any(|s| s.core_distance().is_none()), "sample_without_core_distance");
        obs.class_if(analysis.iter().any(|s| s.reachability_distance().is_some()), "sample_with_reachability");
        for (fmt, back) in roundtrip(obs, A, analysis, STABLE) {
            eq_check(obs, A, fmt, analysis, &back);
            must(obs, A, fmt, "samples", same_analysis(analysis, &back));
        }
        // pick the sample with the most content
        if let Some(s) = analysis.iter().max_by_key(|s| s.core_distance().is_some() as u8 + s.reachability_distance().is_some() as u8) {
            const S: &str = "Sample";
            for (fmt, back) in roundtrip(obs, S, s, STABLE) {
                must(obs, S, fmt, "index", s.index() == back.index());
                must(obs, S, fmt, "core_distance", same(*s.core_distance(), *back.core_distance()));
                must(obs, S, fmt, "reachability_distance", same(*s.reachability_distance(), *back.reachability_distance()));
            }
        }
    }
}
