fn main() {
    vengine::main(c19::property())
}
