//! linfa-linear (OLS, isotonic, Tweedie GLM), linfa-elasticnet, linfa-logistic, linfa-ftrl.

use crate::Case;
use vengine::Obs;

pub const NKINDS: u16 = 8;
pub const REQUIRED: &[&str] = &[
    "LinearRegression",
    "FittedLinearRegression",
    "FittedIsotonicRegression",
    "TweedieRegressorValidParams",
    "TweedieRegressor",
    "ElasticNetValidParams",
    "ElasticNet",
    "MultiTaskElasticNet",
    "LogisticRegressionParams",
    "FittedLogisticRegression",
    "MultiLogisticRegressionParams",
    "MultiFittedLogisticRegression",
    "FtrlParams",
    "Ftrl",
    "variance_is_ok",
    "variance_err_ill_conditioned",
    "variance_err_not_enough_samples",
    "initial_params_column_major",
];

pub fn check(c: &Case, obs: &mut Obs) {
    obs.class_if(c.f32, "f32");
    obs.class_if(!c.f32, "f64");
    if c.f32 {
        impl_f32::run(c, obs)
    } else {
        impl_f64::run(c, obs)
    }
}

macro_rules! adapters {
    ($modname:ident, $F:ty) => {
        mod $modname {
            use crate::rt::*;
            use crate::util::*;
            use crate::Case;
            use linfa::dataset::Pr;
            use linfa::traits::{Fit, FitWith, Predict};
            use linfa::{Dataset, ParamGuard};
            use linfa_elasticnet::{ElasticNet, MultiTaskElasticNet};
            use linfa_ftrl::Ftrl;
            use linfa_linear::{IsotonicRegression, LinearRegression, Link, TweedieRegressor};
            use linfa_logistic::{LogisticRegression, MultiLogisticRegression};
            use ndarray::{Array1, Array2};
            use vengine::Obs;
            type F = $F;
            /// values every logistic parameter check rejects (fits with huge finite values can keep the line search busy forever)
            const BAD: [f64; 4] = [-1.0, f64::NAN, f64::INFINITY, f64::NEG_INFINITY];
            const BAD0: [f64; 5] = [0.0, -1.0, f64::NAN, f64::INFINITY, -0.0];

            pub fn run(c: &Case, obs: &mut Obs) {
                let mut k = Knobs::new(&c.knobs);
                match c.kind {
                    0 => ols(c, obs, &mut k),
                    1 => isotonic(c, obs, &mut k),
                    2 => tweedie(c, obs, &mut k),
                    3 => enet(c, obs, &mut k),
                    4 => mt_enet(c, obs, &mut k),
                    5 => logistic(c, obs, &mut k),
                    6 => multi_logistic(c, obs, &mut k),
                    _ => ftrl(c, obs, &mut k),
                }
            }

            fn queries(c: &Case) -> Array2<F> {
                mat(&with_fixed_queries(&c.q, ncols(c)))
            }
            fn y1(c: &Case) -> Array1<F> {
                Array1::from(targets::<F>(c, 0))
            }

            /// Training rows of the elastic-net adapters. Besides the raw matrix: an exactly duplicated column or an all-zero
            /// column (X^T X exactly singular: with more rows than columns the variance estimate is `Err(IllConditioned)`),
            /// or no more rows than columns (`Err(NotEnoughSamples)`).
            fn enet_design(c: &Case, k: &mut Knobs, obs: &mut Obs) -> Vec<Vec<f64>> {
                let p = ncols(c);
                let mut x: Vec<Vec<f64>> = c.x.clone();
                match k.pick(6) {
                    4 => {
                        obs.class("design_duplicated_column");
                        for r in x.iter_mut() {
                            let v = r.first().copied().unwrap_or(0.0);
                            if p >= 2 {
                                if let Some(last) = r.last_mut() {
                                    *last = v;
                                }
                            } else {
                                r.push(v);
                            }
                        }
                    }
                    5 => {
                        obs.class("design_zero_column");
                        let j = k.pick(p.max(1));
                        for r in x.iter_mut() {
                            if let Some(v) = r.get_mut(j) {
                                *v = 0.0;
                            }
                        }
                    }
                    3 => {
                        obs.class("design_few_rows");
                        x.truncate(p.min(c.x.len()));
                    }
                    _ => {}
                }
                x
            }

            fn ols(c: &Case, obs: &mut Obs, k: &mut Knobs) {
                const P: &str = "LinearRegression";
                const T: &str = "FittedLinearRegression";
                let params = LinearRegression::new().with_intercept(k.flag());
                let ds = Dataset::new(mat::<F>(&c.x), y1(c));
                obs.class(P);
                let want_fit = fit_outcome(|| params.fit(&ds));
                for (fmt, back) in roundtrip(obs, P, &params, STABLE) {
                    eq_check(obs, P, fmt, &params, &back);
                    same_refit(obs, P, fmt, &want_fit, fit_outcome(|| back.fit(&ds)));
                }
                let model = match vengine::guard(|| params.fit(&ds)) {
                    Ok(Ok(m)) => m,
                    _ => return obs.class("no_fitted_instance"),
                };
                obs.class(T);
                obs.nontrivial();
                let q = queries(c);
                let want = observe(|| model.predict(&q));
                for (fmt, back) in roundtrip(obs, T, &model, STABLE) {
                    eq_check(obs, T, fmt, &model, &back);
                    must(obs, T, fmt, "params", same_arr(model.params(), back.params()));
                    must(obs, T, fmt, "intercept", same(model.intercept(), back.intercept()));
                    same_behaviour(obs, T, fmt, "predict", &want, || back.predict(&q), |a, b| same_arr(a, b));
                }
            }

            fn isotonic(c: &Case, obs: &mut Obs, _k: &mut Knobs) {
                const P: &str = "IsotonicRegression";
                const T: &str = "FittedIsotonicRegression";
                let x1: Vec<Vec<f64>> = c.x.iter().map(|r| vec![r.first().copied().unwrap_or(0.0)]).collect();
                let ds = Dataset::new(mat::<F>(&x1), y1(c));
                let params = IsotonicRegression::new();
                let want_fit = fit_outcome(|| params.fit(&ds));
                obs.class(P);
                for (fmt, back) in roundtrip(obs, P, &params, STABLE) {
                    eq_check(obs, P, fmt, &params, &back);
                    same_refit(obs, P, fmt, &want_fit, fit_outcome(|| back.fit(&ds)));
                }
                let model = match vengine::guard(|| params.fit(&ds)) {
                    Ok(Ok(m)) => m,
                    _ => return obs.class("no_fitted_instance"),
                };
                obs.class(T);
                obs.nontrivial();
                let q: Array2<F> = mat(&with_fixed_queries(&c.q, 1));
                let want = observe(|| model.predict(&q));
                let want_train = observe(|| model.predict(ds.records()));
                for (fmt, back) in roundtrip(obs, T, &model, STABLE) {
                    eq_check(obs, T, fmt, &model, &back);
                    same_behaviour(obs, T, fmt, "predict", &want, || back.predict(&q), |a, b| same_arr(a, b));
                    same_behaviour(obs, T, fmt, "predict-train", &want_train, || back.predict(ds.records()), |a, b| same_arr(a, b));
                }
            }

            fn tweedie(c: &Case, obs: &mut Obs, k: &mut Knobs) {
                const P: &str = "TweedieRegressorValidParams";
                const T: &str = "TweedieRegressor";
                let power = [0.0, 1.0, 2.0, 3.0, 1.5][k.pick(5)];
                let alpha = [0.0, 1.0, 0.1][k.pick(3)];
                let intercept = k.flag();
                // only link / family pairs whose mean stays inside the family's domain for every coefficient vector
                // (the identity link with a positive power lets the line search run into NaN and never return)
                let link = match (k.pick(3), power > 0.0) {
                    (0, _) => None,
                    (_, true) => Some(Link::Log),
                    (_, false) => Some(Link::Identity),
                };
                macro_rules! params {
                    ($T:ty) => {{
                        let mut p = TweedieRegressor::<$T>::params()
                            .power(power as $T)
                            .alpha(alpha as $T)
                            .fit_intercept(intercept)
                            .max_iter(30)
                            .tol(1e-4 as $T);
                        if let Some(l) = link {
                            p = p.link(l);
                        }
                        p.check()
                    }};
                }
                let valid = match params!(F) {
                    Ok(v) => v,
                    Err(_) => return obs.skip("params_invalid"),
                };
                // Every fit runs in f64: `TweedieRegressor::<f32>` fits (any family, e.g. the normal one with identity link on ten
                // rows) can keep the line search busy for ever, and a hang cannot be skipped. Records are scaled into (-2, 2) and
                // targets are strictly positive, inside the domain of every family used here.
                let valid64 = match params!(f64) {
                    Ok(v) => v,
                    Err(_) => return obs.skip("params_invalid"),
                };
                let y: Array1<f64> = Array1::from(targets::<f64>(c, 0)).mapv(|v| v.abs() + 0.25);
                let xs: Vec<Vec<f64>> = c.x.iter().map(|r| r.iter().map(|v| v / 8.0).collect()).collect();
                let ds = Dataset::new(mat::<f64>(&xs), y);
                obs.class(P);
                let is64 = std::any::TypeId::of::<F>() == std::any::TypeId::of::<f64>();
                let want_fit = fit_outcome(|| valid64.fit(&ds));
                for (fmt, back) in roundtrip(obs, P, &valid, STABLE) {
                    eq_check(obs, P, fmt, &valid, &back);
                    must(obs, P, fmt, "alpha", same(valid.alpha(), back.alpha()));
                    must(obs, P, fmt, "fit_intercept", valid.fit_intercept() == back.fit_intercept());
                    must(obs, P, fmt, "power", same(valid.power(), back.power()));
                    must(obs, P, fmt, "link", valid.link() == back.link());
                    must(obs, P, fmt, "max_iter", valid.max_iter() == back.max_iter());
                    must(obs, P, fmt, "tol", same(valid.tol(), back.tol()));
                }
                if is64 {
                    for (fmt, back) in roundtrip(obs, P, &valid64, STABLE) {
                        same_refit(obs, P, fmt, &want_fit, fit_outcome(|| back.fit(&ds)));
                    }
                }
                let model64 = match vengine::guard(|| valid64.fit(&ds)) {
                    Ok(Ok(m)) => m,
                    _ => return obs.class("no_fitted_instance"),
                };
                // the instance of the case's float type: the f64 fit itself, or (f32) its JSON form read back as f32
                let model: TweedieRegressor<F> = match serde_json::to_value(&model64).ok().and_then(|j| serde_json::from_value(j).ok()) {
                    Some(m) => m,
                    None => return obs.class("no_fitted_instance"),
                };
                obs.class(T);
                obs.nontrivial();
                let q = queries(c);
                let want = observe(|| model.predict(&q));
                for (fmt, back) in roundtrip(obs, T, &model, STABLE) {
                    eq_check(obs, T, fmt, &model, &back);
                    must(obs, T, fmt, "coef", same_arr(&model.coef, &back.coef));
                    must(obs, T, fmt, "intercept", same(model.intercept, back.intercept));
                    same_behaviour(obs, T, fmt, "predict", &want, || back.predict(&q), |a, b| same_arr(a, b));
                }
            }

            fn enet(c: &Case, obs: &mut Obs, k: &mut Knobs) {
                const P: &str = "ElasticNetValidParams";
                const T: &str = "ElasticNet";
                let huge = k.huge_u64();
                let valid = match ElasticNet::<F>::params()
                    .penalty(F::of([0.1, 1.0, 0.0, 0.01][k.pick(4)]))
                    .l1_ratio(F::of([0.5, 0.0, 1.0, 0.25][k.pick(4)]))
                    .with_intercept(k.flag())
                    .max_iterations(huge.map(|h| h.min(u32::MAX as u64) as u32).unwrap_or(1 + k.pick(200) as u32))
                    .tolerance(F::of([1e-4, 1e-2, 0.0][k.pick(3)]))
                    .check()
                {
                    Ok(v) => v,
                    Err(_) => return obs.skip("params_invalid"),
                };
                if huge.is_some() {
                    obs.class("huge_integer_setting");
                    obs.class(P);
                    for (fmt, back) in roundtrip(obs, P, &valid, STABLE) {
                        eq_check(obs, P, fmt, &valid, &back);
                        must(obs, P, fmt, "max_iterations", valid.max_iterations() == back.max_iterations());
                    }
                    return;
                }
                let design = enet_design(c, k, obs);
                let rows = design.len();
                let ds = Dataset::new(mat::<F>(&design), y1(c).slice(ndarray::s![..rows]).to_owned());
                obs.class(P);
                let want_fit = fit_outcome(|| valid.fit(&ds));
                for (fmt, back) in roundtrip(obs, P, &valid, STABLE) {
                    eq_check(obs, P, fmt, &valid, &back);
                    must(obs, P, fmt, "penalty", same(valid.penalty(), back.penalty()));
                    must(obs, P, fmt, "l1_ratio", same(valid.l1_ratio(), back.l1_ratio()));
                    must(obs, P, fmt, "with_intercept", valid.with_intercept() == back.with_intercept());
                    must(obs, P, fmt, "max_iterations", valid.max_iterations() == back.max_iterations());
                    must(obs, P, fmt, "tolerance", same(valid.tolerance(), back.tolerance()));
                    same_refit(obs, P, fmt, &want_fit, fit_outcome(|| back.fit(&ds)));
                }
                let model = match vengine::guard(|| valid.fit(&ds)) {
                    Ok(Ok(m)) => m,
                    _ => return obs.class("no_fitted_instance"),
                };
                obs.class(T);
                obs.nontrivial();
                let zs = |m: &ElasticNet<F>| m.z_score().map_err(|e| e.to_string());
                let cf = |m: &ElasticNet<F>| m.confidence_95th().map_err(|e| e.to_string());
                let q = queries(c);
                let want = observe(|| model.predict(&q));
                // (MultiTaskElasticNet::z_score panics unless tasks == features: broadcast of the variance vector; not C19's subject)
                let want_z = observe(|| zs(&model));
                obs.class_if(matches!(want_z, Ok(Err(_))), "variance_is_error");
                obs.class_if(matches!(want_z, Ok(Ok(_))), "variance_is_ok");
                if let Ok(Err(e)) = &want_z {
                    obs.class_if(*e == linfa_elasticnet::ElasticNetError::IllConditioned.to_string(), "variance_err_ill_conditioned");
                    obs.class_if(*e == linfa_elasticnet::ElasticNetError::NotEnoughSamples.to_string(), "variance_err_not_enough_samples");
                }
                let want_c = observe(|| cf(&model));
                for (fmt, back) in roundtrip(obs, T, &model, STABLE) {
                    must(obs, T, fmt, "hyperplane", same_arr(model.hyperplane(), back.hyperplane()));
                    must(obs, T, fmt, "intercept", same(model.intercept(), back.intercept()));
                    must(obs, T, fmt, "n_steps", model.n_steps() == back.n_steps());
                    must(obs, T, fmt, "duality_gap", same(model.duality_gap(), back.duality_gap()));
                    same_behaviour(obs, T, fmt, "z_score", &want_z, || zs(&back), |a, b| match (a, b) {
                        (Ok(a), Ok(b)) => same_arr(a, b),
                        (Err(a), Err(b)) => a == b,
                        _ => false,
                    });
                    same_behaviour(obs, T, fmt, "confidence_95th", &want_c, || cf(&back), |a, b| match (a, b) {
                        (Ok(a), Ok(b)) => a.len() == b.len() && a.iter().zip(b.iter()).all(|(x, y)| same(x.0, y.0) && same(x.1, y.1)),
                        (Err(a), Err(b)) => a == b,
                        _ => false,
                    });
                    same_behaviour(obs, T, fmt, "predict", &want, || back.predict(&q), |a, b| same_arr(a, b));
                }
            }

            fn mt_enet(c: &Case, obs: &mut Obs, k: &mut Knobs) {
                const P: &str = "MultiTaskElasticNetValidParams";
                const T: &str = "MultiTaskElasticNet";
                let valid = match MultiTaskElasticNet::<F>::params()
                    .penalty(F::of([0.1, 1.0, 0.0, 0.01][k.pick(4)]))
                    .l1_ratio(F::of([0.5, 0.0, 1.0, 0.25][k.pick(4)]))
                    .with_intercept(k.flag())
                    .max_iterations(1 + k.pick(200) as u32)
                    .tolerance(F::of([1e-4, 1e-2, 0.0][k.pick(3)]))
                    .check()
                {
                    Ok(v) => v,
                    Err(_) => return obs.skip("params_invalid"),
                };
                let tasks = 1 + k.pick(3);
                let design = enet_design(c, k, obs);
                let n = design.len();
                let y = Array2::from_shape_fn((n, tasks), |(i, t)| targets::<F>(c, t).get(i).copied().unwrap_or(F::of(0.0)));
                let ds = Dataset::new(mat::<F>(&design), y);
                obs.class(P);
                let want_fit = fit_outcome(|| valid.fit(&ds));
                for (fmt, back) in roundtrip(obs, P, &valid, STABLE) {
                    eq_check(obs, P, fmt, &valid, &back);
                    must(obs, P, fmt, "penalty", same(valid.penalty(), back.penalty()));
                    must(obs, P, fmt, "l1_ratio", same(valid.l1_ratio(), back.l1_ratio()));
                    must(obs, P, fmt, "with_intercept", valid.with_intercept() == back.with_intercept());
                    must(obs, P, fmt, "max_iterations", valid.max_iterations() == back.max_iterations());
                    must(obs, P, fmt, "tolerance", same(valid.tolerance(), back.tolerance()));
                    same_refit(obs, P, fmt, &want_fit, fit_outcome(|| back.fit(&ds)));
                }
                let model = match vengine::guard(|| valid.fit(&ds)) {
                    Ok(Ok(m)) => m,
                    _ => return obs.class("no_fitted_instance"),
                };
                obs.class(T);
                obs.nontrivial();
                let zs = |m: &MultiTaskElasticNet<F>| m.z_score().map_err(|e| e.to_string());
                let cf = |m: &MultiTaskElasticNet<F>| m.confidence_95th().map_err(|e| e.to_string());
                let q = queries(c);
                let want = observe(|| model.predict(&q));
                // (MultiTaskElasticNet::z_score panics unless tasks == features: broadcast of the variance vector; not C19's subject)
                let want_z = observe(|| zs(&model));
                let want_c = observe(|| cf(&model));
                obs.class_if(matches!(want_z, Ok(Err(_))), "variance_is_error");
                obs.class_if(matches!(want_z, Ok(Ok(_))), "variance_is_ok");
                if let Ok(Err(e)) = &want_z {
                    obs.class_if(*e == linfa_elasticnet::ElasticNetError::IllConditioned.to_string(), "variance_err_ill_conditioned");
                    obs.class_if(*e == linfa_elasticnet::ElasticNetError::NotEnoughSamples.to_string(), "variance_err_not_enough_samples");
                }
                for (fmt, back) in roundtrip(obs, T, &model, STABLE) {
                    must(obs, T, fmt, "hyperplane", same_arr(model.hyperplane(), back.hyperplane()));
                    must(obs, T, fmt, "intercept", same_arr(model.intercept(), back.intercept()));
                    must(obs, T, fmt, "n_steps", model.n_steps() == back.n_steps());
                    must(obs, T, fmt, "duality_gap", same(model.duality_gap(), back.duality_gap()));
                    same_behaviour(obs, T, fmt, "z_score", &want_z, || zs(&back), |a, b| match (a, b) {
                        (Ok(a), Ok(b)) => same_arr(a, b),
                        (Err(a), Err(b)) => a == b,
                        _ => false,
                    });
                    same_behaviour(obs, T, fmt, "confidence_95th", &want_c, || cf(&back), |a, b| match (a, b) {
                        (Ok(a), Ok(b)) => a.shape() == b.shape() && a.iter().zip(b.iter()).all(|(x, y)| same(x.0, y.0) && same(x.1, y.1)),
                        (Err(a), Err(b)) => a == b,
                        _ => false,
                    });
                    same_behaviour(obs, T, fmt, "predict", &want, || back.predict(&q), |a, b| same_arr(a, b));
                }
            }

            fn logistic(c: &Case, obs: &mut Obs, k: &mut Knobs) {
                const P: &str = "LogisticRegressionParams";
                const T: &str = "FittedLogisticRegression";
                let p = ncols(c);
                let intercept = k.flag();
                let huge = k.huge_u64();
                let mut params = LogisticRegression::<F>::default()
                    .alpha(F::of(if k.rare() { BAD[k.pick(BAD.len())] } else { [1.0, 0.1, 0.0, -0.0][k.pick(4)] }))
                    .with_intercept(intercept)
                    .max_iterations(huge.unwrap_or(1 + k.pick(40) as u64))
                    .gradient_tolerance(F::of(if k.rare() { BAD0[k.pick(BAD0.len())] } else { [1e-3, 1e-1][k.pick(2)] }));
                match k.pick(4) {
                    0 | 1 => {}
                    2 => {
                        params = params.initial_params(Array1::from_shape_fn(p + intercept as usize, |i| F::of(i as f64 * 0.125 - 0.25)));
                        obs.class("with_initial_params");
                    }
                    _ => {
                        let bad = [f64::NAN, f64::INFINITY, 2.0][k.pick(3)];
                        params = params.initial_params(Array1::from_shape_fn(p + intercept as usize, |i| F::of(if i == 0 { bad } else { 0.5 })));
                        obs.class("with_initial_params");
                    }
                }
                // two class values that are neither 0/1 nor adjacent
                let y: Array1<usize> = labels(c, 2).into_iter().map(|l| 3 + 4 * l).collect();
                let ds = Dataset::new(mat::<F>(&c.x), y);
                obs.class(P);
                obs.nontrivial();
                let want_verdict = verdict(params.check_ref());
                obs.class_if(want_verdict.is_ok(), "params_valid");
                obs.class_if(want_verdict.is_err(), "params_invalid");
                if huge.is_some() {
                    // an iteration limit nobody can wait for: the parameter set itself is round-tripped, no fit
                    obs.class("huge_integer_setting");
                    for (fmt, back) in roundtrip(obs, P, &params, STABLE) {
                        eq_check(obs, P, fmt, &params, &back);
                        must(obs, P, fmt, "check_ref-verdict", verdict(back.check_ref()) == want_verdict);
                    }
                    if let Ok(valid) = params.check_ref() {
                        for (fmt, back) in roundtrip(obs, "LogisticRegressionValidParams", valid, STABLE) {
                            eq_check(obs, "LogisticRegressionValidParams", fmt, valid, &back);
                        }
                    }
                    return;
                }
                let want_fit = fit_outcome(|| params.fit(&ds));
                for (fmt, back) in roundtrip(obs, P, &params, STABLE) {
                    eq_check(obs, P, fmt, &params, &back);
                    must(obs, P, fmt, "check_ref-verdict", verdict(back.check_ref()) == want_verdict);
                    same_refit(obs, P, fmt, &want_fit, fit_outcome(|| back.fit(&ds)));
                }
                if let Ok(valid) = params.check_ref() {
                    const V: &str = "LogisticRegressionValidParams";
                    obs.class(V);
                    for (fmt, back) in roundtrip(obs, V, valid, STABLE) {
                        eq_check(obs, V, fmt, valid, &back);
                        same_refit(obs, V, fmt, &want_fit, fit_outcome(|| back.fit(&ds)));
                    }
                }
                let model = match vengine::guard(|| params.fit(&ds)) {
                    Ok(Ok(m)) => m.set_threshold(F::of([0.5, 0.25, 0.75, 0.0, 1.0][k.pick(5)])),
                    _ => return obs.class("no_fitted_instance"),
                };
                obs.class(T);
                let q = queries(c);
                let want = observe(|| model.predict(&q));
                let want_train = observe(|| model.predict(ds.records()));
                let want_p = observe(|| model.predict_probabilities(&q));
                if let (Ok(a), Ok(b)) = (&want, &want_train) {
                    obs.class_if(a.iter().chain(b.iter()).any(|l| *l == 3) && a.iter().chain(b.iter()).any(|l| *l == 7), "both_classes_predicted");
                }
                for (fmt, back) in roundtrip(obs, T, &model, STABLE) {
                    eq_check(obs, T, fmt, &model, &back);
                    must(obs, T, fmt, "params", same_arr(model.params(), back.params()));
                    must(obs, T, fmt, "intercept", same(model.intercept(), back.intercept()));
                    let (a, b) = (model.labels(), back.labels());
                    must(
                        obs,
                        T,
                        fmt,
                        "labels",
                        a.pos.class == b.pos.class && a.neg.class == b.neg.class && same(a.pos.label, b.pos.label) && same(a.neg.label, b.neg.label),
                    );
                    same_behaviour(obs, T, fmt, "predict", &want, || back.predict(&q), |a, b| a == b);
                    same_behaviour(obs, T, fmt, "predict-train", &want_train, || back.predict(ds.records()), |a, b| a == b);
                    same_behaviour(obs, T, fmt, "predict_probabilities", &want_p, || back.predict_probabilities(&q), |a, b| same_arr(a, b));
                }
                // the label pair is a serialisable type of its own
                const L: &str = "BinaryClassLabels";
                for (fmt, back) in roundtrip(obs, L, model.labels(), STABLE) {
                    eq_check(obs, L, fmt, model.labels(), &back);
                }
            }

            fn multi_logistic(c: &Case, obs: &mut Obs, k: &mut Knobs) {
                const P: &str = "MultiLogisticRegressionParams";
                const T: &str = "MultiFittedLogisticRegression";
                let p = ncols(c);
                let intercept = k.flag();
                let nclass = 2 + k.pick(2);
                let huge = k.huge_u64();
                let mut params = MultiLogisticRegression::<F>::default()
                    .alpha(F::of(if k.rare() { BAD[k.pick(BAD.len())] } else { [1.0, 0.1, 0.0, -0.0][k.pick(4)] }))
                    .with_intercept(intercept)
                    .max_iterations(huge.unwrap_or(1 + k.pick(40) as u64))
                    .gradient_tolerance(F::of(if k.rare() { BAD0[k.pick(BAD0.len())] } else { [1e-3, 1e-1][k.pick(2)] }));
                if k.pick(3) == 2 {
                    let init = Array2::from_shape_fn((p + intercept as usize, nclass), |(i, j)| F::of((i + 2 * j) as f64 * 0.125 - 0.25));
                    let layout = k.pick(3);
                    obs.class_if(layout > 0, "initial_params_column_major");
                    params = params.initial_params(relayout(&init, layout));
                    obs.class("with_initial_params");
                }
                let y: Array1<usize> = labels(c, nclass).into_iter().map(|l| 10 * l + 1).collect();
                let ds = Dataset::new(mat::<F>(&c.x), y);
                obs.class(P);
                obs.nontrivial();
                let want_verdict = verdict(params.check_ref());
                obs.class_if(want_verdict.is_ok(), "params_valid");
                obs.class_if(want_verdict.is_err(), "params_invalid");
                if huge.is_some() {
                    obs.class("huge_integer_setting");
                    for (fmt, back) in roundtrip(obs, P, &params, STABLE) {
                        eq_check(obs, P, fmt, &params, &back);
                        must(obs, P, fmt, "check_ref-verdict", verdict(back.check_ref()) == want_verdict);
                    }
                    return;
                }
                let want_fit = fit_outcome(|| params.fit(&ds));
                for (fmt, back) in roundtrip(obs, P, &params, STABLE) {
                    eq_check(obs, P, fmt, &params, &back);
                    must(obs, P, fmt, "check_ref-verdict", verdict(back.check_ref()) == want_verdict);
                    same_refit(obs, P, fmt, &want_fit, fit_outcome(|| back.fit(&ds)));
                }
                let model = match vengine::guard(|| params.fit(&ds)) {
                    Ok(Ok(m)) => m,
                    _ => return obs.class("no_fitted_instance"),
                };
                obs.class(T);
                let q = queries(c);
                let want = observe(|| model.predict(&q));
                let want_p = observe(|| model.predict_probabilities(&q));
                for (fmt, back) in roundtrip(obs, T, &model, STABLE) {
                    eq_check(obs, T, fmt, &model, &back);
                    must(obs, T, fmt, "params", same_arr(model.params(), back.params()));
                    must(obs, T, fmt, "intercept", same_arr(model.intercept(), back.intercept()));
                    must(obs, T, fmt, "classes", model.classes() == back.classes());
                    same_behaviour(obs, T, fmt, "predict", &want, || back.predict(&q), |a, b| a == b);
                    same_behaviour(obs, T, fmt, "predict_probabilities", &want_p, || back.predict_probabilities(&q), |a, b| same_arr(a, b));
                }
            }

            fn ftrl(c: &Case, obs: &mut Obs, k: &mut Knobs) {
                const P: &str = "FtrlParams";
                const T: &str = "Ftrl";
                let params = Ftrl::<F>::params_with_rng(SerRng::new(c.seed))
                    .alpha(F::of(if k.rare() { k.palette() } else { [0.005, 0.1, 1.0][k.pick(3)] }))
                    .beta(F::of(if k.rare() { k.palette() } else { [0.0, 0.1, 1.0][k.pick(3)] }))
                    .l1_ratio(F::of(if k.rare() { k.palette() } else { [0.5, 0.0, 1.0][k.pick(3)] }))
                    .l2_ratio(F::of(if k.rare() { k.palette() } else { [0.5, 0.0, 1.0][k.pick(3)] }));
                let y: Array1<bool> = labels(c, 2).into_iter().map(|l| l == 1).collect();
                let ds = Dataset::new(mat::<F>(&c.x), y);
                obs.class(P);
                obs.nontrivial();
                let want_verdict = verdict(params.check_ref());
                obs.class_if(want_verdict.is_ok(), "params_valid");
                obs.class_if(want_verdict.is_err(), "params_invalid");
                let want_fit = fit_outcome(|| params.fit_with(None, &ds));
                for (fmt, back) in roundtrip(obs, P, &params, STABLE) {
                    eq_check(obs, P, fmt, &params, &back);
                    must(obs, P, fmt, "check_ref-verdict", verdict(back.check_ref()) == want_verdict);
                    if let (Ok(a), Ok(b)) = (params.check_ref(), back.check_ref()) {
                        must(obs, P, fmt, "alpha", same(a.alpha(), b.alpha()));
                        must(obs, P, fmt, "beta", same(a.beta(), b.beta()));
                        must(obs, P, fmt, "l1_ratio", same(a.l1_ratio(), b.l1_ratio()));
                        must(obs, P, fmt, "l2_ratio", same(a.l2_ratio(), b.l2_ratio()));
                        must(obs, P, fmt, "rng", a.rng() == b.rng());
                    }
                    same_refit(obs, P, fmt, &want_fit, fit_outcome(|| back.fit_with(None, &ds)));
                }
                if let Ok(valid) = params.check_ref() {
                    const V: &str = "FtrlValidParams";
                    obs.class(V);
                    for (fmt, back) in roundtrip(obs, V, valid, STABLE) {
                        eq_check(obs, V, fmt, valid, &back);
                        same_refit(obs, V, fmt, &want_fit, fit_outcome(|| back.fit_with(None, &ds)));
                    }
                }
                // a model after one or two passes
                let passes = 1 + k.pick(2);
                // half of the models are additionally trained through the public `update` entry point after the
                // `fit_with` passes (a model with a mixed history)
                let then_update = k.flag();
                obs.class_if(then_update, "ftrl_fit_with_then_update");
                let model = match vengine::guard(|| {
                    let mut m = params.fit_with(None, &ds)?;
                    for _ in 1..passes {
                        m = params.fit_with(Some(m), &ds)?;
                    }
                    if then_update {
                        let pr: Array1<Pr> = m.predict(ds.records());
                        let _ = m.update(&ds, pr.view());
                    }
                    Ok::<_, linfa_ftrl::FtrlError>(m)
                }) {
                    Ok(Ok(m)) => m,
                    _ => return obs.class("no_fitted_instance"),
                };
                obs.class(T);
                let q = queries(c);
                let want = observe(|| -> Array1<Pr> { model.predict(&q) });
                let want_w = observe(|| model.get_weights());
                // continuing the training from the restored state must give the same state
                let want_next = match params.check_ref() {
                    Ok(v) => Some(fit_outcome(|| v.fit_with(Some(model.clone()), &ds))),
                    Err(_) => None,
                };
                for (fmt, back) in roundtrip(obs, T, &model, STABLE) {
                    must(obs, T, fmt, "z", same_arr(model.z(), back.z()));
                    must(obs, T, fmt, "n", same_arr(model.n(), back.n()));
                    must(obs, T, fmt, "alpha", same(model.alpha(), back.alpha()));
                    must(obs, T, fmt, "beta", same(model.beta(), back.beta()));
                    must(obs, T, fmt, "l1_ratio", same(model.l1_ratio(), back.l1_ratio()));
                    must(obs, T, fmt, "l2_ratio", same(model.l2_ratio(), back.l2_ratio()));
                    same_behaviour(obs, T, fmt, "get_weights", &want_w, || back.get_weights(), |a, b| same_arr(a, b));
                    same_behaviour(obs, T, fmt, "predict", &want, || back.predict(&q), |a, b| same_arr(a, b));
                    if let (Some(w), Ok(v)) = (&want_next, params.check_ref()) {
                        let got = fit_outcome(|| v.fit_with(Some(back.clone()), &ds));
                        obs.ensure(*w == got, &format!("{T}:continued-training-differs:{}", fmt.name()), || {
                            "one more training pass from the restored state ends in a different state".to_string()
                        });
                    }
                }
            }
        }
    };
}

adapters!(impl_f32, f32);
adapters!(impl_f64, f64);
