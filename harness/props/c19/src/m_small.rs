//! Enumeration of every unit / enum / error type that derives the serde traits, plus a few values that can
//! only be reached through deserialisation (non-default tf-idf methods inside a fitted vectoriser).

use crate::rt::*;
use linfa::traits::Transformer;
use linfa_nn::distance::{Distance, L1Dist, L2Dist, LInfDist};
use linfa_nn::{BallTree, CommonNearestNeighbour, KdTree, LinearSearch, NearestNeighbour};
use ndarray::{array, Array1, Array2};
use serde::de::DeserializeOwned;
use serde::{Deserialize, Serialize};
use vengine::{Obs, Tier};

#[derive(Debug, Clone, Serialize, Deserialize)]
pub struct SmallCase {
    /// position in `TABLE`
    pub id: usize,
    pub name: String,
}

type Entry = (&'static str, fn(&mut Obs, &'static str));

fn points() -> Array2<f64> {
    array![[0.0, 0.0], [1.0, 0.5], [-2.0, 3.0], [4.0, -1.0], [0.5, 0.5], [3.0, 3.0], [-1.0, -1.0]]
}

/// value with `PartialEq`: equality + byte stability
fn plain<T: Serialize + DeserializeOwned + PartialEq>(obs: &mut Obs, name: &'static str, v: T) -> Vec<T> {
    obs.class(name);
    let mut out = vec![];
    for (fmt, back) in roundtrip(obs, name, &v, STABLE) {
        eq_check(obs, name, fmt, &v, &back);
        out.push(back);
    }
    out
}

/// error value (no `PartialEq`): Display and Debug text must survive
fn error<T: Serialize + DeserializeOwned + std::fmt::Display + std::fmt::Debug>(obs: &mut Obs, name: &'static str, v: T) {
    obs.class(name);
    for (fmt, back) in roundtrip(obs, name, &v, STABLE) {
        must(obs, name, fmt, "display", v.to_string() == back.to_string());
        must(obs, name, fmt, "debug", format!("{v:?}") == format!("{back:?}"));
    }
}

fn selector<N: NearestNeighbour + Serialize + DeserializeOwned + PartialEq>(obs: &mut Obs, name: &'static str, v: N) {
    let pts = points();
    let ans = |n: &N| -> Vec<(usize, usize, Vec<usize>)> {
        let idx = n.from_batch(&pts, L2Dist).expect("index");
        let mut out = vec![];
        for (qi, q) in pts.outer_iter().enumerate() {
            for k in 1..=3 {
                let mut r: Vec<usize> = idx.k_nearest(q, k).expect("k_nearest").into_iter().map(|(_, i)| i).collect();
                r.sort_unstable();
                out.push((qi, k, r));
            }
            let mut r: Vec<usize> = idx.within_range(q, 2.25).expect("within_range").into_iter().map(|(_, i)| i).collect();
            r.sort_unstable();
            out.push((qi, 0, r));
        }
        out
    };
    let want = observe(|| ans(&v));
    obs.class(name);
    for (fmt, back) in roundtrip(obs, name, &v, STABLE) {
        eq_check(obs, name, fmt, &v, &back);
        same_behaviour(obs, name, fmt, "queries", &want, || ans(&back), |a, b| a == b);
    }
}

fn metric<D: Distance<f64> + Serialize + DeserializeOwned + PartialEq>(obs: &mut Obs, name: &'static str, v: D) {
    let pts = points();
    let ans = |d: &D| -> Vec<u64> {
        let mut out = vec![];
        for a in pts.outer_iter() {
            for b in pts.outer_iter() {
                out.push(d.distance(a, b).to_bits());
                out.push(d.rdistance(a, b).to_bits());
            }
        }
        out
    };
    let want = observe(|| ans(&v));
    obs.class(name);
    for (fmt, back) in roundtrip(obs, name, &v, STABLE) {
        eq_check(obs, name, fmt, &v, &back);
        same_behaviour(obs, name, fmt, "distances", &want, || ans(&back), |a, b| a == b);
    }
}

fn link(obs: &mut Obs, name: &'static str, l: linfa_linear::Link) {
    let v: Array1<f64> = array![0.25, 0.5, 0.75, 0.9];
    let ans = |l: &linfa_linear::Link| {
        let mut out: Vec<u64> = vec![];
        for a in [l.link(&v), l.link_derivative(&v), l.inverse(&v), l.inverse_derviative(&v)] {
            out.extend(a.iter().map(|x| x.to_bits()));
        }
        out
    };
    for back in plain(obs, name, l) {
        obs.ensure(ans(&l) == ans(&back), &format!("{name}:link-functions"), || "restored link computes different values".into());
    }
}

fn tfidf_method(obs: &mut Obs, name: &'static str, m: linfa_preprocessing::tf_idf_vectorization::TfIdfMethod) {
    let ans = |m: &linfa_preprocessing::tf_idf_vectorization::TfIdfMethod| -> Vec<u64> {
        let mut out = vec![];
        for n in [1usize, 2, 5, 10] {
            for df in 0..=n {
                out.push(m.compute_idf(n, df).to_bits());
            }
        }
        out
    };
    for back in plain(obs, name, m.clone()) {
        obs.ensure(ans(&m) == ans(&back), &format!("{name}:compute_idf"), || "restored method computes different idf values".into());
    }
}

/// A fitted tf-idf vectoriser whose method is not the default can only be obtained by deserialising one: build it from
/// the JSON of a default one, then require the usual round-trip obligations of that value.
fn fitted_tfidf_with_method(obs: &mut Obs, name: &'static str, method: &str) {
    use linfa_preprocessing::tf_idf_vectorization::{FittedTfIdfVectorizer, TfIdfVectorizer};
    let docs: Array1<String> = array!["one two two", "two three", "four one one one", ""].mapv(|s: &str| s.to_string());
    let fitted = match TfIdfVectorizer::default().fit(&docs) {
        Ok(f) => f,
        Err(_) => return obs.skip("fit_failed"),
    };
    let mut j = match serde_json::to_value(&fitted) {
        Ok(j) => j,
        Err(_) => return obs.skip("fit_failed"),
    };
    match j.get_mut("method") {
        Some(m) => *m = serde_json::Value::String(method.to_string()),
        None => return obs.fail(format!("{name}:json-shape"), "serialised FittedTfIdfVectorizer has no `method` entry"),
    }
    let model: FittedTfIdfVectorizer = match serde_json::from_value(j) {
        Ok(m) => m,
        Err(e) => return obs.fail(format!("{name}:method-variant-rejected"), format!("method {method} does not deserialise: {e}")),
    };
    obs.class(name);
    obs.nontrivial();
    obs.ensure(format!("{:?}", model.method()) == method, &format!("{name}:method-variant"), || "deserialised a different method variant".into());
    let view = |m: &FittedTfIdfVectorizer| -> Result<Vec<u64>, String> {
        Ok(m.transform(&docs).map_err(|e| e.to_string())?.to_dense().iter().map(|v: &f64| v.to_bits()).collect())
    };
    let want = observe(|| view(&model));
    for (fmt, back) in roundtrip(obs, name, &model, HASHED) {
        must(obs, name, fmt, "method", model.method() == back.method());
        must(obs, name, fmt, "vocabulary", model.vocabulary() == back.vocabulary());
        same_behaviour(obs, name, fmt, "transform", &want, || view(&back), |a, b| a == b);
    }
}

/// `linfa::Error::NdShape` is documented as not serialisable: every format must answer with an error (never panic, never
/// produce bytes that decode to something else).
fn nd_shape(obs: &mut Obs, name: &'static str) {
    let shape_err = Array2::<f64>::zeros((2, 3)).into_shape((4, 4)).err();
    let e = match shape_err {
        Some(e) => linfa::Error::NdShape(e),
        None => return obs.skip("no_shape_error"),
    };
    obs.class(name);
    obs.nontrivial();
    for fmt in Fmt::ALL {
        match vengine::guard(|| fmt.ser(&e)) {
            Err(p) => obs.fail(format!("{name}:serialize-panic:{}", fmt.name()), p),
            Ok(Err(_)) => {}
            Ok(Ok(bytes)) => {
                // bytes were produced: they must at least not decode into a different error
                if let Ok(back) = fmt.de::<linfa::Error>(&bytes) {
                    obs.ensure(back.to_string() == e.to_string(), &format!("{name}:skipped-variant-decodes-as-other:{}", fmt.name()), || {
                        format!("NdShape serialised and came back as '{back}'")
                    });
                }
            }
        }
    }
    // wrapped inside another error type the same must hold
    let wrapped = linfa::composing::platt_scaling::PlattError::LinfaError(e);
    for fmt in Fmt::ALL {
        if let Err(p) = vengine::guard(|| fmt.ser(&wrapped)) {
            obs.fail(format!("{name}:wrapped-serialize-panic:{}", fmt.name()), p);
        }
    }
}

fn table() -> Vec<Entry> {
    use linfa::composing::platt_scaling::PlattError;
    use linfa::Error as LErr;
    use linfa_clustering::{Dbscan, GmmCovarType, GmmInitMethod, KMeansInit, Optics};
    use linfa_elasticnet::ElasticNetError;
    use linfa_ftrl::FtrlError;
    use linfa_ica::fast_ica::GFunc;
    use linfa_linear::{IsotonicRegression, LinearRegression, Link};
    use linfa_preprocessing::norm_scaling::NormScaler;
    use linfa_preprocessing::tf_idf_vectorization::TfIdfMethod;
    use linfa_preprocessing::whitening::{Whitener, WhiteningMethod};
    use linfa_svm::{ExitReason, SeparatingHyperplane};
    use linfa_trees::SplitQuality;
    vec![
        // ---- linfa core errors
        ("Error::Parameters", |o, n| error(o, n, LErr::Parameters("bad \u{e9} \"quoted\"".into()))),
        ("Error::Priors", |o, n| error(o, n, LErr::Priors(String::new()))),
        ("Error::NotConverged", |o, n| error(o, n, LErr::NotConverged("after 3 steps".into()))),
        ("Error::NotEnoughSamples", |o, n| error(o, n, LErr::NotEnoughSamples)),
        ("Error::MismatchedShapes", |o, n| error(o, n, LErr::MismatchedShapes(3, usize::MAX))),
        ("Error::NdShape", |o, n| nd_shape(o, n)),
        ("PlattError::LineSearchNotConverged", |o, n| error(o, n, PlattError::LineSearchNotConverged)),
        ("PlattError::MaxIterReached", |o, n| error(o, n, PlattError::MaxIterReached)),
        ("PlattError::MaxIterZero", |o, n| error(o, n, PlattError::MaxIterZero)),
        ("PlattError::MinStepNegative", |o, n| error(o, n, PlattError::MinStepNegative(-1.5e-10))),
        ("PlattError::SigmaNegative", |o, n| error(o, n, PlattError::SigmaNegative(f32::NEG_INFINITY))),
        ("PlattError::LinfaError", |o, n| error(o, n, PlattError::LinfaError(LErr::MismatchedShapes(1, 2)))),
        // ---- elastic net / ftrl errors
        ("ElasticNetError::NotEnoughSamples", |o, n| error(o, n, ElasticNetError::NotEnoughSamples)),
        ("ElasticNetError::IllConditioned", |o, n| error(o, n, ElasticNetError::IllConditioned)),
        ("ElasticNetError::InvalidL1Ratio", |o, n| error(o, n, ElasticNetError::InvalidL1Ratio(1.5))),
        ("ElasticNetError::InvalidPenalty", |o, n| error(o, n, ElasticNetError::InvalidPenalty(-0.0))),
        ("ElasticNetError::InvalidTolerance", |o, n| error(o, n, ElasticNetError::InvalidTolerance(f32::NAN))),
        ("ElasticNetError::IncorrectTargetShape", |o, n| error(o, n, ElasticNetError::IncorrectTargetShape)),
        ("ElasticNetError::BaseCrate", |o, n| error(o, n, ElasticNetError::BaseCrate(LErr::NotEnoughSamples))),
        ("FtrlError::InvalidL1Ratio", |o, n| error(o, n, FtrlError::InvalidL1Ratio(2.0))),
        ("FtrlError::InvalidL2Ratio", |o, n| error(o, n, FtrlError::InvalidL2Ratio(-1.0))),
        ("FtrlError::InvalidAlpha", |o, n| error(o, n, FtrlError::InvalidAlpha(f32::INFINITY))),
        ("FtrlError::InvalidBeta", |o, n| error(o, n, FtrlError::InvalidBeta(f32::MIN_POSITIVE))),
        ("FtrlError::InvalidNFeatures", |o, n| error(o, n, FtrlError::InvalidNFeatures(0))),
        ("FtrlError::LinfaError", |o, n| error(o, n, FtrlError::LinfaError(LErr::Priors("p".into())))),
        // ---- nearest-neighbour selectors and metrics
        ("CommonNearestNeighbour::LinearSearch", |o, n| selector(o, n, CommonNearestNeighbour::LinearSearch)),
        ("CommonNearestNeighbour::KdTree", |o, n| selector(o, n, CommonNearestNeighbour::KdTree)),
        ("CommonNearestNeighbour::BallTree", |o, n| selector(o, n, CommonNearestNeighbour::BallTree)),
        ("LinearSearch", |o, n| selector(o, n, LinearSearch)),
        ("KdTree", |o, n| selector(o, n, KdTree)),
        ("BallTree", |o, n| selector(o, n, BallTree)),
        ("L1Dist", |o, n| metric(o, n, L1Dist)),
        ("L2Dist", |o, n| metric(o, n, L2Dist)),
        ("LInfDist", |o, n| metric(o, n, LInfDist)),
        // ---- clustering markers and enums
        ("Dbscan", |o, n| drop(plain(o, n, Dbscan))),
        ("Optics", |o, n| drop(plain(o, n, Optics))),
        ("GmmCovarType::Full", |o, n| drop(plain(o, n, GmmCovarType::Full))),
        ("GmmInitMethod::KMeans", |o, n| drop(plain(o, n, GmmInitMethod::KMeans))),
        ("GmmInitMethod::Random", |o, n| drop(plain(o, n, GmmInitMethod::Random))),
        ("KMeansInit::Random", |o, n| drop(plain(o, n, KMeansInit::<f64>::Random))),
        ("KMeansInit::KMeansPlusPlus", |o, n| drop(plain(o, n, KMeansInit::<f32>::KMeansPlusPlus))),
        ("KMeansInit::KMeansPara", |o, n| drop(plain(o, n, KMeansInit::<f64>::KMeansPara))),
        ("KMeansInit::Precomputed", |o, n| drop(plain(o, n, KMeansInit::<f64>::Precomputed(points())))),
        ("KMeansInit::Precomputed(column-major)", |o, n| drop(plain(o, n, KMeansInit::<f64>::Precomputed(crate::util::relayout(&points(), 1))))),
        // ---- linear models
        ("Link::Identity", |o, n| link(o, n, Link::Identity)),
        ("Link::Log", |o, n| link(o, n, Link::Log)),
        ("Link::Logit", |o, n| link(o, n, Link::Logit)),
        ("LinearRegression(intercept)", |o, n| drop(plain(o, n, LinearRegression::new()))),
        ("LinearRegression(no intercept)", |o, n| drop(plain(o, n, LinearRegression::new().with_intercept(false)))),
        ("IsotonicRegression", |o, n| drop(plain(o, n, IsotonicRegression::new()))),
        // ---- svm, trees, ica
        ("ExitReason::ReachedThreshold", |o, n| drop(plain(o, n, ExitReason::ReachedThreshold))),
        ("ExitReason::ReachedIterations", |o, n| drop(plain(o, n, ExitReason::ReachedIterations))),
        ("SeparatingHyperplane::Linear", |o, n| drop(plain(o, n, SeparatingHyperplane::<f64>::Linear(array![0.5, -1.25, 1e-300])))),
        ("SeparatingHyperplane::WeightedCombination", |o, n| drop(plain(o, n, SeparatingHyperplane::<f32>::WeightedCombination(array![[0.5, -1.25], [3.0, 4.0]])))),
        ("SplitQuality::Gini", |o, n| drop(plain(o, n, SplitQuality::Gini))),
        ("SplitQuality::Entropy", |o, n| drop(plain(o, n, SplitQuality::Entropy))),
        ("GFunc::Logcosh", |o, n| drop(plain(o, n, GFunc::Logcosh(1.25)))),
        ("GFunc::Logcosh(inf)", |o, n| drop(plain(o, n, GFunc::Logcosh(f64::INFINITY)))),
        ("GFunc::Exp", |o, n| drop(plain(o, n, GFunc::Exp))),
        ("GFunc::Cube", |o, n| drop(plain(o, n, GFunc::Cube))),
        // ---- preprocessing
        ("WhiteningMethod::Pca", |o, n| drop(plain(o, n, WhiteningMethod::Pca))),
        ("WhiteningMethod::Zca", |o, n| drop(plain(o, n, WhiteningMethod::Zca))),
        ("WhiteningMethod::Cholesky", |o, n| drop(plain(o, n, WhiteningMethod::Cholesky))),
        ("Whitener::method", |o, n| drop(plain(o, n, Whitener::pca().method(WhiteningMethod::Cholesky)))),
        ("NormScaler::l1", |o, n| {
            let x = points();
            for back in plain(o, n, NormScaler::l1()) {
                o.ensure(same_arr(&NormScaler::l1().transform(x.clone()), &back.transform(x.clone())), "NormScaler::l1:transform", || "different transform".into());
            }
        }),
        ("TfIdfMethod::Smooth", |o, n| tfidf_method(o, n, TfIdfMethod::Smooth)),
        ("TfIdfMethod::NonSmooth", |o, n| tfidf_method(o, n, TfIdfMethod::NonSmooth)),
        ("TfIdfMethod::Textbook", |o, n| tfidf_method(o, n, TfIdfMethod::Textbook)),
        ("FittedTfIdfVectorizer(NonSmooth)", |o, n| fitted_tfidf_with_method(o, n, "NonSmooth")),
        ("FittedTfIdfVectorizer(Textbook)", |o, n| fitted_tfidf_with_method(o, n, "Textbook")),
    ]
}

pub fn cases(_t: Tier) -> Vec<SmallCase> {
    table().iter().enumerate().map(|(id, (name, _))| SmallCase { id, name: name.to_string() }).collect()
}

pub fn check(c: &SmallCase, obs: &mut Obs) {
    let t = table();
    match t.get(c.id) {
        Some((name, f)) if *name == c.name => f(obs, name),
        // a stored case from an older table: look the entry up by name
        _ => match t.iter().find(|(n, _)| *n == c.name) {
            Some((name, f)) => f(obs, name),
            None => obs.skip("unknown_small_type"),
        },
    }
}
