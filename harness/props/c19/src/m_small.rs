use vengine::{Obs, Tier};
pub fn cases(_t: Tier) -> Vec<u8> { vec![] }
pub fn check(_c: &u8, _obs: &mut Obs) {}
