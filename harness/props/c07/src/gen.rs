//! Generators of C07. Everything is constructed from proptest values (raw `i16` material mapped
//! monotonically), so shrinking removes rows and pulls coordinates towards 0.

use crate::case::*;
use crate::oracle::DistCase;
use proptest::collection::vec;
use proptest::prelude::*;
use vengine::gen::idx;

/// monotone map of a raw i16 onto the integers -l..=l (0 stays 0)
fn lat(raw: i16, l: i32) -> f64 {
    let u = (raw as i32 + 32768) as u16;
    (idx(u, (2 * l + 1) as usize) as i32 - l) as f64
}

fn row_lat(raw: &[i16], l: i32) -> Vec<f64> {
    raw.iter().map(|r| lat(*r, l)).collect()
}

fn unsigned(raw: i16) -> u16 {
    (raw as i32 + 32768) as u16
}

pub fn metric_strategy() -> impl Strategy<Value = Metric> {
    prop_oneof![
        3 => Just(Metric::L2),
        3 => Just(Metric::L1),
        3 => Just(Metric::LInf),
        2 => Just(Metric::Lp(1.5)),
        2 => Just(Metric::Lp(3.0)),
        1 => Just(Metric::Lp(1.0)),
        1 => Just(Metric::Lp(2.0)),
    ]
}

fn dim_strategy() -> impl Strategy<Value = usize> {
    prop_oneof![
        5 => 1usize..=3,
        2 => 4usize..=8,
        1 => 9usize..=16,
    ]
}

fn class_strategy() -> impl Strategy<Value = PointClass> {
    prop_oneof![
        5 => Just(PointClass::Lattice),
        1 => Just(PointClass::AllEqual),
        2 => Just(PointClass::Duplicates),
        2 => Just(PointClass::Clustered),
        2 => Just(PointClass::Uniform),
        2 => Just(PointClass::Collinear),
        1 => Just(PointClass::Rough),
    ]
}

/// raw material -> point set of the requested class
fn build_points(class: PointClass, raw: &[Vec<i16>], l: i32, m: usize) -> Vec<Vec<f64>> {
    let n = raw.len();
    let first = |j: usize| raw.get(j.min(n.saturating_sub(1))).cloned().unwrap_or_default();
    match class {
        PointClass::Lattice | PointClass::Bytes | PointClass::AdjacentFloats | PointClass::LargeStructured | PointClass::OffsetCloud => raw.iter().map(|r| row_lat(r, l)).collect(),
        PointClass::AllEqual => {
            let p = row_lat(&first(0), l);
            raw.iter().map(|_| p.clone()).collect()
        }
        PointClass::Duplicates => {
            let m = m.min(n).max(1);
            let base: Vec<Vec<f64>> = (0..m).map(|j| row_lat(&first(j), 3)).collect();
            raw.iter()
                .map(|r| {
                    let sel = idx(unsigned(r.first().copied().unwrap_or(0)), m);
                    base.get(sel).cloned().unwrap_or_default()
                })
                .collect()
        }
        PointClass::Clustered => {
            let m = m.min(n).max(1);
            let centres: Vec<Vec<f64>> =
                (0..m).map(|j| row_lat(&first(j), 3).iter().map(|x| x * 8.0).collect()).collect();
            raw.iter()
                .map(|r| {
                    let sel = idx(unsigned(r.last().copied().unwrap_or(0)), m);
                    let c = centres.get(sel).cloned().unwrap_or_default();
                    // offsets on a 2^-10 grid within +-1
                    r.iter().zip(c.iter()).map(|(x, c)| c + ((*x >> 5) as f64) / 1024.0).collect()
                })
                .collect()
        }
        PointClass::Uniform => raw.iter().map(|r| r.iter().map(|x| (*x as f64) / 512.0).collect()).collect(),
        PointClass::Collinear => {
            let base = row_lat(&first(0), 3);
            let mut dir = row_lat(&first(1), 2);
            if dir.iter().all(|x| *x == 0.0) {
                if let Some(d0) = dir.first_mut() {
                    *d0 = 1.0;
                }
            }
            raw.iter()
                .map(|r| {
                    let t = lat(r.first().copied().unwrap_or(0), 8);
                    base.iter().zip(dir.iter()).map(|(b, d)| b + t * d).collect()
                })
                .collect()
        }
        // values that are not exactly representable (decimal step), to exercise rounding in both element types
        PointClass::Rough => raw.iter().map(|r| r.iter().map(|x| (*x as f64) * 0.0003).collect()).collect(),
    }
}

pub const HUGE_K: [usize; 5] = [1usize << 20, ((1u64 << 40) & (usize::MAX as u64)) as usize, usize::MAX / 2, usize::MAX - 1, usize::MAX];

#[derive(Debug, Clone)]
struct RawQuery {
    kind: u8,
    a: u16,
    b: u16,
    coords: Vec<i16>,
    kmode: u8,
    kraw: u16,
    rmode: u8,
    rraw: u16,
    strided: bool,
}

fn raw_query(dim: usize) -> impl Strategy<Value = RawQuery> {
    (0u8..12, any::<u16>(), any::<u16>(), vec(any::<i16>(), dim), 0u8..10, any::<u16>(), 0u8..15, any::<u16>(), prop::bool::weighted(0.15))
        .prop_map(|(kind, a, b, coords, kmode, kraw, rmode, rraw, strided)| RawQuery { kind, a, b, coords, kmode, kraw, rmode, rraw, strided })
}

fn build_query(rq: &RawQuery, points: &[Vec<f64>], dim: usize, l: i32, wrong_len: Option<usize>) -> Query {
    let n = points.len();
    let lattice = |l: i32| -> Vec<f64> { (0..dim).map(|j| lat(rq.coords.get(j).copied().unwrap_or(0), l)).collect() };
    let stored = |i: u16| points.get(idx(i, n)).cloned();
    let (mut point, mut class) = match rq.kind {
        0..=2 => match stored(rq.a) {
            Some(p) => (p, QueryClass::Stored),
            None => (lattice(l), QueryClass::Lattice),
        },
        3..=4 => (lattice(l + 1), QueryClass::Lattice),
        5..=6 => match (stored(rq.a), stored(rq.b)) {
            (Some(p), Some(q)) => (p.iter().zip(q.iter()).map(|(x, y)| (x + y) / 2.0).collect(), QueryClass::Midpoint),
            _ => (lattice(l), QueryClass::Lattice),
        },
        7..=8 => match stored(rq.a) {
            Some(p) => (p.iter().map(|x| x + 0.5).collect(), QueryClass::CellCentre),
            None => (lattice(l).iter().map(|x| x + 0.5).collect(), QueryClass::CellCentre),
        },
        9 => (lattice(3).iter().map(|x| x * 1000.0 + 500.0).collect(), QueryClass::Far),
        _ => ((0..dim).map(|j| (rq.coords.get(j).copied().unwrap_or(0) as f64) / 512.0).collect(), QueryClass::Other),
    };
    if let Some(len) = wrong_len {
        if len != dim {
            point = (0..len).map(|j| point.get(j).copied().unwrap_or(1.0)).collect();
            class = QueryClass::WrongLength;
        }
    }
    let k = match rq.kmode {
        0 => 0,
        1 => n,
        2 => n + 1 + idx(rq.kraw, 3),
        8 => 2 * n,
        // "k ... beyond n" without bound: no index may size anything by k
        9 => HUGE_K[idx(rq.kraw, HUGE_K.len()).min(HUGE_K.len() - 1)],
        _ => idx(rq.kraw, n + 4),
    };
    let radius = match rq.rmode {
        0 => Radius::Abs(0.0),
        1..=2 => Radius::Abs(idx(rq.rraw, 9) as f64), // integer radii: exact on lattices
        3..=6 => Radius::ToPoint(rq.rraw),
        7..=9 => Radius::Between(rq.rraw),
        10 => Radius::Beyond,
        11 => Radius::Abs((idx(rq.rraw, 64) as f64) / 4.0),
        12 => Radius::ToPointUlps(rq.rraw, (rq.b % 7) as i8 - 3),
        _ => Radius::ToRankUlps((rq.rraw % 8) as u16, (rq.b % 7) as i8 - 3),
    };
    Query { point, class, k, radius, strided: rq.strided }
}

#[derive(Debug, Clone, Copy, PartialEq)]
pub enum Malformed {
    /// well-formed cases with a small share of malformed ones
    Rare,
    /// every case carries at least one malformation
    Always,
}

pub fn layout_strategy() -> impl Strategy<Value = Layout> {
    prop_oneof![
        6 => Just(Layout::RowMajor),
        1 => Just(Layout::ColMajorOwned),
        1 => Just(Layout::TransposedView),
        1 => Just(Layout::StridedRows),
        1 => Just(Layout::ReversedRows),
    ]
}

pub fn entry_strategy() -> impl Strategy<Value = Entry> {
    prop_oneof![
        3 => Just(Entry::Enum),
        2 => Just(Entry::Struct),
        2 => Just(Entry::Direct),
        1 => Just(Entry::EnumDefaultLeaf),
        1 => Just(Entry::StructDefaultLeaf),
    ]
}

fn leaf_strategy() -> impl Strategy<Value = (u8, u16)> {
    (0u8..10, any::<u16>())
}

/// 0 none, 1 zero dimension, 2 zero leaf, 3 wrong query length
fn malformation(mode: Malformed) -> BoxedStrategy<(u8, u8)> {
    match mode {
        Malformed::Rare => prop_oneof![
            47 => Just((0u8, 0u8)),
            1 => (Just(1u8), any::<u8>()),
            1 => (Just(2u8), any::<u8>()),
            1 => (Just(3u8), any::<u8>()),
        ]
        .boxed(),
        Malformed::Always => (1u8..=3, any::<u8>()).boxed(),
    }
}

pub fn case_strategy(nmax: usize, mode: Malformed) -> impl Strategy<Value = Case> {
    dim_strategy().prop_flat_map(move |dim| {
        (
            (any::<bool>(), metric_strategy(), class_strategy(), 1i32..=4, 1usize..=4, layout_strategy(), entry_strategy()),
            vec(vec(any::<i16>(), dim), 0..=nmax),
            vec(raw_query(dim), 1..=3),
            leaf_strategy(),
            malformation(mode),
        )
            .prop_map(move |((single, metric, class, l, m, layout, entry), raw, rqs, (lmode, lraw), (mal, malarg))| {
                let n = raw.len();
                let mut dim_eff = dim;
                let mut points = build_points(class, &raw, l, m);
                let mut leaf = match lmode {
                    0 | 1 => 1,
                    2 => 2,
                    3 => 3,
                    4 => 16,
                    5 => n.max(1),
                    _ => 1 + idx(lraw, n + 1),
                };
                let mut wrong: Option<usize> = None;
                match mal {
                    1 => {
                        dim_eff = 0;
                        points = points.iter().map(|_| vec![]).collect();
                    }
                    2 => leaf = 0,
                    3 => {
                        wrong = Some(match malarg % 4 {
                            0 => 0,
                            1 => dim.saturating_sub(1),
                            2 => dim + 1,
                            _ => dim + 5,
                        });
                    }
                    _ => {}
                }
                let queries = rqs
                    .iter()
                    .enumerate()
                    .map(|(i, rq)| {
                        let mut q = build_query(rq, &points, dim_eff, l, if i == 0 { wrong } else { None });
                        if dim_eff == 0 {
                            q.point = if malarg % 2 == 0 { vec![] } else { vec![0.0] };
                        }
                        q
                    })
                    .collect();
                Case { single, metric, class, dim: dim_eff, points, leaf, queries, layout, entry }
            })
    })
}

// ------------------------------------------------------------------------------------------------
// exhaustive small strata

fn all_metrics() -> Vec<Metric> {
    vec![Metric::L1, Metric::L2, Metric::LInf, Metric::Lp(1.5), Metric::Lp(3.0)]
}

/// Every multiset over {0,1,2,3} with multiplicity <= 2 (1-D) and every subset of the 3x3 grid (2-D),
/// each queried at every grid and half-grid point with every k in 0..=n+1 and radii 0, 1/2, 1, ... .
pub fn small_exhaustive(thorough: bool) -> Vec<Case> {
    let mut out = vec![];
    let radii = |j: usize| -> Radius {
        match j % 7 {
            0 => Radius::Abs(0.0),
            1 => Radius::Abs(0.5),
            2 => Radius::Abs(1.0),
            3 => Radius::Abs(1.5),
            4 => Radius::Abs(2.0),
            5 => Radius::ToPoint((j * 7919 % 65536) as u16),
            _ => Radius::Beyond,
        }
    };
    // ---- 1-D
    let mut sets1: Vec<Vec<Vec<f64>>> = vec![];
    for code in 0..81usize {
        let mut pts = vec![];
        let mut c = code;
        for pos in 0..4 {
            for _ in 0..(c % 3) {
                pts.push(vec![pos as f64]);
            }
            c /= 3;
        }
        // interleave so that duplicates are not adjacent in the batch
        let half = pts.len() / 2;
        let mut mixed = vec![];
        for i in 0..half {
            mixed.push(pts[i].clone());
            mixed.push(pts[half + i].clone());
        }
        if pts.len() % 2 == 1 {
            if let Some(last) = pts.last() {
                mixed.push(last.clone());
            }
        }
        sets1.push(mixed);
    }
    let mut counter = 0usize;
    for (si, pts) in sets1.iter().enumerate() {
        for leaf in [1usize, 2, 3] {
            for metric in all_metrics() {
                let n = pts.len();
                let mut queries = vec![];
                for step in -2i32..=8 {
                    let x = step as f64 / 2.0;
                    let huge: &[usize] = if step == 0 { &HUGE_K } else { &[] };
                    for k in (0..=n + 1).chain([2 * n]).chain(huge.iter().copied()) {
                        counter += 1;
                        queries.push(Query {
                            point: vec![x],
                            class: if step % 2 == 0 { QueryClass::Lattice } else { QueryClass::CellCentre },
                            k,
                            radius: radii(counter),
                            strided: counter % 3 == 0,
                        });
                    }
                }
                out.push(Case {
                    single: (si + leaf) % 2 == 0,
                    metric,
                    class: PointClass::Lattice,
                    dim: 1,
                    points: pts.clone(),
                    leaf,
                    queries,
                    // every (layout, entry point) pair over 25 consecutive cases
                    layout: ALL_LAYOUTS[out.len() % 5],
                    entry: ALL_ENTRIES[(out.len() / 5) % 5],
                });
            }
        }
    }
    // ---- 2-D subsets of the 3x3 grid
    let step = if thorough { 1 } else { 3 };
    for code in (0..512usize).step_by(step) {
        let mut pts = vec![];
        for bit in 0..9 {
            if code >> bit & 1 == 1 {
                pts.push(vec![(bit % 3) as f64, (bit / 3) as f64]);
            }
        }
        // a duplicate of the first point for odd codes
        if code % 2 == 1 {
            if let Some(p) = pts.first().cloned() {
                pts.push(p);
            }
        }
        let n = pts.len();
        for leaf in [1usize, 2] {
            for metric in all_metrics() {
                let mut queries = vec![];
                for gx in -1i32..=5 {
                    for gy in -1i32..=5 {
                        counter += 1;
                        queries.push(Query {
                            point: vec![gx as f64 / 2.0, gy as f64 / 2.0],
                            class: if gx % 2 == 0 && gy % 2 == 0 { QueryClass::Lattice } else { QueryClass::CellCentre },
                            k: counter % (n + 2),
                            radius: radii(counter / 3),
                            strided: counter % 4 == 1,
                        });
                    }
                }
                out.push(Case {
                    single: (code + leaf) % 2 == 1,
                    metric,
                    class: PointClass::Lattice,
                    dim: 2,
                    points: pts.clone(),
                    leaf,
                    queries,
                    // every (layout, entry point) pair over 25 consecutive cases
                    layout: ALL_LAYOUTS[out.len() % 5],
                    entry: ALL_ENTRIES[(out.len() / 5) % 5],
                });
            }
        }
    }
    out
}

// ------------------------------------------------------------------------------------------------
// Distance functions

pub fn dist_case_strategy() -> impl Strategy<Value = DistCase> {
    (prop_oneof![3 => dim_strategy().boxed(), 2 => (8usize..=16).boxed(), 1 => (17usize..=32).boxed()], 0u8..7, any::<bool>()).prop_flat_map(|(dim, mode, single)| {
        // modes 4..6: small integers / halves on top of a large common offset (exactly representable in the element type)
        let off = if single { 8192.0 } else { 134217728.0 };
        let coord = move |x: i16| -> f64 {
            match mode {
                0 => lat(x, 3),
                1 => (x as f64) / 512.0,
                2 => (x as f64) * 0.0003,
                3 => lat(x, 2) * 1000.0 + (x as f64) / 4096.0,
                4 => off + lat(x, 3),
                5 => -off + lat(x, 6) / 2.0,
                _ => off * 1.5 + lat(x, 40),
            }
        };
        let v = move || vec(any::<i16>().prop_map(coord), dim);
        (Just(single), metric_strategy(), v(), v(), v(), v(), 0u8..6).prop_map(|(single, metric, a, b, c, d, same)| {
            // related pairs: identical points, equal distances by construction (shifted copy)
            let (c, d) = match same {
                0 => (a.clone(), b.clone()),
                1 => (b.clone(), a.clone()),
                _ => (c, d),
            };
            let b = if same == 2 { a.clone() } else { b };
            DistCase { single, metric, a, b, c, d }
        })
    })
}

// ------------------------------------------------------------------------------------------------
// adjacent floats (coordinates a few ulps apart)

/// `base` moved `k` ulps away from zero in the element type, widened to f64
fn ulps(base: f64, k: u32, single: bool) -> f64 {
    if single {
        f32::from_bits((base as f32).to_bits().saturating_add(k)) as f64
    } else {
        f64::from_bits(base.to_bits().saturating_add(k as u64))
    }
}

const BASES: [f64; 8] = [1.0, 0.1, 3.0, -2.5, 1024.0, 0.001, 1.9999990463256836, 65537.0];

pub fn adjacent_strategy() -> impl Strategy<Value = Case> {
    let offset = || prop_oneof![4 => 0u32..=1, 2 => 0u32..=3, 1 => 0u32..=40];
    (1usize..=3, any::<bool>()).prop_flat_map(move |(dim, single)| {
        (
            metric_strategy(),
            vec(0usize..BASES.len(), dim),
            vec(vec(offset(), dim), 0..=14),
            vec((0u8..8, any::<u16>(), any::<u16>(), vec(offset(), dim), any::<u16>(), 0u8..10, any::<u16>()), 1..=3),
            1usize..=4,
            (layout_strategy(), entry_strategy()),
        )
            .prop_map(move |(metric, bases, offs, rqs, leaf, (layout, entry))| {
                let point = |o: &Vec<u32>| -> Vec<f64> {
                    (0..dim).map(|j| ulps(BASES[bases.get(j).copied().unwrap_or(0) % BASES.len()], o.get(j).copied().unwrap_or(0), single)).collect()
                };
                let points: Vec<Vec<f64>> = offs.iter().map(point).collect();
                let n = points.len();
                let queries = rqs
                    .iter()
                    .map(|(kind, a, b, o, kraw, rmode, rraw)| {
                        let stored = |i: u16| points.get(idx(i, n)).cloned();
                        let (p, class) = match kind {
                            0..=1 => (stored(*a).unwrap_or_else(|| point(o)), QueryClass::Stored),
                            2..=4 => (point(o), QueryClass::Lattice),
                            5 => match (stored(*a), stored(*b)) {
                                (Some(x), Some(y)) => (x.iter().zip(y.iter()).map(|(u, v)| {
                                    let m = (u + v) / 2.0;
                                    if single { (m as f32) as f64 } else { m }
                                }).collect(), QueryClass::Midpoint),
                                _ => (point(o), QueryClass::Lattice),
                            },
                            6 => (point(o).iter().map(|x| x + 1000.0).collect(), QueryClass::Far),
                            _ => (point(o).iter().map(|x| x * 0.5).collect(), QueryClass::Other),
                        };
                        let radius = match rmode {
                            0 => Radius::Abs(0.0),
                            1..=4 => Radius::ToPoint(*rraw),
                            5..=7 => Radius::Between(*rraw),
                            8 => Radius::Beyond,
                            _ => Radius::Abs(1.0),
                        };
                        Query { point: p, class, k: idx(*kraw, n + 3), radius, strided: *a % 5 == 0 }
                    })
                    .collect();
                Case { single, metric, class: PointClass::AdjacentFloats, dim, points, leaf, queries, layout, entry }
            })
    })
}

// ------------------------------------------------------------------------------------------------
// large structured point sets (derived from a seed so that the stored case stays small)

#[derive(Debug, Clone, Copy, PartialEq, Eq, serde::Serialize, serde::Deserialize)]
pub enum LargeShape {
    /// (t, t, ..) for t = 0..n
    Diagonal,
    /// base + t * step * dir with an integer direction and a dyadic step
    Strip,
    /// the first n points of a square / cubic integer lattice
    Lattice,
    /// coarse lattice of cluster centres (spacing 64) with fine offsets on a 1/16 grid
    TwoScale,
}

#[derive(Debug, Clone, serde::Serialize, serde::Deserialize)]
pub struct LargeCase {
    pub seed: u64,
    pub shape: LargeShape,
    pub n: usize,
    pub dim: usize,
    pub single: bool,
    pub metric: Metric,
    pub leaf: usize,
    /// number of queries (all stored points)
    pub nq: usize,
    /// batch rows in generated order (false) or shuffled (true)
    pub shuffled: bool,
}

/// Expands the description into the explicit case the common oracle judges. Queries are stored points;
/// radii are the distance to the point of rank 1..=6 moved by -3..=3 ulps (or exactly), k sits around that rank.
pub fn expand_large(lc: &LargeCase) -> Case {
    let mut rng = vengine::gen::SplitMix(lc.seed);
    let n = lc.n.clamp(1, MAX_POINTS);
    let dim = lc.dim.clamp(1, 4);
    let mut points: Vec<Vec<f64>> = Vec::with_capacity(n);
    match lc.shape {
        LargeShape::Diagonal => {
            for t in 0..n {
                points.push(vec![t as f64; dim]);
            }
        }
        LargeShape::Strip => {
            let steps = [1.0, 0.125, 0.75, 0.5];
            let step = steps[rng.below(steps.len())];
            let dir: Vec<f64> = (0..dim).map(|j| if j == 0 { 1.0 } else { (1 + rng.below(3)) as f64 }).collect();
            let base: Vec<f64> = (0..dim).map(|_| (rng.below(5) * 500) as f64).collect();
            for t in 0..n {
                points.push(base.iter().zip(dir.iter()).map(|(b, d)| b + (t as f64) * step * d).collect());
            }
        }
        LargeShape::Lattice => {
            let side = ((n as f64).powf(1.0 / dim as f64).ceil() as usize).max(1);
            for t in 0..n {
                let mut r = t;
                let mut p = Vec::with_capacity(dim);
                for _ in 0..dim {
                    p.push((r % side) as f64);
                    r /= side;
                }
                points.push(p);
            }
        }
        LargeShape::TwoScale => {
            let clusters = 2 + rng.below(6);
            let centres: Vec<Vec<f64>> = (0..clusters).map(|_| (0..dim).map(|_| (rng.below(9) as f64 - 4.0) * 64.0).collect()).collect();
            for _ in 0..n {
                let c = &centres[rng.below(clusters)];
                points.push(c.iter().map(|x| x + (rng.below(33) as f64 - 16.0) / 16.0).collect());
            }
        }
    }
    if lc.shuffled {
        for i in (1..points.len()).rev() {
            let j = rng.below(i + 1);
            points.swap(i, j);
        }
    }
    let nq = lc.nq.clamp(1, 200);
    let mut queries = Vec::with_capacity(nq);
    for qi in 0..nq {
        let i = rng.below(points.len());
        let rank = 1 + rng.below(6);
        // mostly "a few ulps above", the regime in which a rounded-up pruning bound loses a point
        let ulps = [0i8, 1, 1, 2, 3, -1, -2, 0][rng.below(8)];
        let k = (rank + rng.below(3)).saturating_sub(1);
        let radius = if qi % 8 == 7 { Radius::ToPoint(rng.below(65536) as u16) } else { Radius::ToRankUlps(rank as u16, ulps) };
        queries.push(Query { point: points[i].clone(), class: QueryClass::Stored, k, radius, strided: qi % 16 == 5 });
    }
    let layout = ALL_LAYOUTS[(lc.seed % 7) as usize % ALL_LAYOUTS.len()];
    let entry = ALL_ENTRIES[((lc.seed >> 8) % 5) as usize];
    Case { single: lc.single, metric: lc.metric, class: PointClass::LargeStructured, dim, points, leaf: lc.leaf.max(1), queries, layout, entry }
}

pub fn large_strategy(nq: usize) -> impl Strategy<Value = LargeCase> {
    (
        any::<u64>(),
        prop_oneof![
            3 => Just(LargeShape::Diagonal),
            3 => Just(LargeShape::Strip),
            2 => Just(LargeShape::Lattice),
            2 => Just(LargeShape::TwoScale),
        ],
        500usize..=2000,
        2usize..=3,
        prop_oneof![3 => Just(false), 1 => Just(true)],
        prop_oneof![6 => Just(Metric::L2), 1 => Just(Metric::L1), 1 => Just(Metric::LInf), 1 => Just(Metric::Lp(3.0))],
        prop_oneof![Just(1usize), Just(16), Just(16), Just(64)],
        any::<bool>(),
    )
        .prop_map(move |(seed, shape, n, dim, single, metric, leaf, shuffled)| LargeCase { seed, shape, n, dim, single, metric, leaf, nq, shuffled })
}

// ------------------------------------------------------------------------------------------------
// offset clouds: small exactly representable gaps far from the origin, mostly wide points

pub fn offset_strategy() -> impl Strategy<Value = Case> {
    (prop_oneof![6 => 8usize..=16, 1 => 17usize..=32, 1 => 2usize..=7], any::<bool>()).prop_flat_map(|(dim, single)| {
        (
            (metric_strategy(), 1i32..=3, layout_strategy(), entry_strategy(), 0u8..6, vec(0u8..4, dim)),
            vec(vec(any::<i16>(), dim), 0..=40),
            vec(raw_query(dim), 1..=3),
            leaf_strategy(),
        )
            .prop_map(move |((metric, l, layout, entry, omode, osel), raw, rqs, (lmode, lraw))| {
                let n = raw.len();
                let big = if single { 8192.0 } else { 134217728.0 };
                let list = [big, -big, big * 1.5, big / 2.0];
                // one common offset for every coordinate (modes 0..=3) or one per coordinate
                let offsets: Vec<f64> = (0..dim)
                    .map(|j| if omode < 4 { list[omode as usize % 4] } else { list[osel.get(j).copied().unwrap_or(0) as usize % 4] })
                    .collect();
                let base = build_points(PointClass::Lattice, &raw, l, 1);
                let shift = |p: &Vec<f64>| -> Vec<f64> { p.iter().zip(offsets.iter()).map(|(x, o)| x + o).collect() };
                let queries = rqs
                    .iter()
                    .map(|rq| {
                        let mut q = build_query(rq, &base, dim, l, None);
                        q.point = shift(&q.point);
                        q
                    })
                    .collect();
                let points: Vec<Vec<f64>> = base.iter().map(shift).collect();
                let leaf = match lmode {
                    0 | 1 => 1,
                    2 => 2,
                    3 => 3,
                    4 => 16,
                    5 => n.max(1),
                    _ => 1 + idx(lraw, n + 1),
                };
                Case { single, metric, class: PointClass::OffsetCloud, dim, points, leaf, queries, layout, entry }
            })
    })
}
