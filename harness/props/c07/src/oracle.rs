//! Oracle of C07: brute force over the crate's own `rdistance` against the three index kinds.

use crate::case::*;
use linfa::Float;
use linfa_nn::distance::{Distance, L1Dist, L2Dist, LInfDist, LpDist};
use linfa_nn::{
    BallTree, BallTreeIndex, BuildError, CommonNearestNeighbour, KdTree, KdTreeIndex, LinearSearch, LinearSearchIndex, NearestNeighbour,
    NearestNeighbourIndex,
};
use ndarray::{s, Array1, Array2, ArrayBase, ArrayView1, Data, Ix2, ShapeBuilder};
use vengine::gen::idx;
use vengine::Obs;

/// Relative slack on a distance for "equal distances" / the band around a radius, in units of the
/// element type's machine epsilon (DESIGN §3 C07: 8 eps on the reduced distance).
pub const BAND_EPS: f64 = 8.0;
/// Sphere-bound allowance of the ball tree (and of the k-d tree under Lp, whose box bound goes through
/// `powf`): `GEO_EPS * (dim + 8) * eps * M`, M = largest query-to-point distance. Derivation: the
/// bound `distance(q, centre) - radius` is a difference of two rounded quantities each <= 3M with a
/// relative error of about (dim + 4) eps, so a point may be pruned although its true distance is
/// smaller than the threshold by up to ~6 (dim + 4) eps M.
/// plus a second-order term `(n + 2) eps X sqrt(dim)` added to M for the rounding of a leaf centre
/// (mean of up to n coordinates of magnitude <= X), which matters only when M itself is a few ulps of X.
pub const GEO_EPS: f64 = 8.0;

const KIND_NAMES: [&str; 3] = ["linear", "kdtree", "balltree"];

fn f64_of<F: Float>(x: F) -> f64 {
    x.to_f64().unwrap_or(f64::NAN)
}

fn well_formed(c: &Case) -> bool {
    let bound = if c.single { MAX_ABS_COORD } else { MAX_ABS_COORD_F64 };
    let coord_ok = |x: &f64| x.is_finite() && x.abs() <= bound;
    c.dim <= MAX_DIM
        && c.points.len() <= MAX_POINTS
        && c.queries.len() <= 256
        && c.points.iter().all(|r| r.len() == c.dim && r.iter().all(coord_ok))
        && c.queries.iter().all(|q| {
            q.point.len() <= 4 * MAX_DIM
                && q.point.iter().all(coord_ok)
                && match q.radius {
                    Radius::Abs(r) => r.is_finite() && r >= 0.0 && r <= 1.0e7,
                    _ => true,
                }
        })
        && match c.metric {
            Metric::Lp(p) => p.is_finite() && (1.0..=8.0).contains(&p),
            _ => true,
        }
}

/// The check function of every index sub-check (also the entry point for a libFuzzer target).
pub fn check_case(c: &Case, obs: &mut Obs) {
    if !well_formed(c) {
        obs.skip("ill_formed_case");
        return;
    }
    match (c.single, c.metric) {
        (false, Metric::L1) => run::<f64, _>(c, L1Dist, false, obs),
        (false, Metric::L2) => run::<f64, _>(c, L2Dist, false, obs),
        (false, Metric::LInf) => run::<f64, _>(c, LInfDist, false, obs),
        (false, Metric::Lp(p)) => run::<f64, _>(c, LpDist(p), true, obs),
        (true, Metric::L1) => run::<f32, _>(c, L1Dist, false, obs),
        (true, Metric::L2) => run::<f32, _>(c, L2Dist, false, obs),
        (true, Metric::LInf) => run::<f32, _>(c, LInfDist, false, obs),
        (true, Metric::Lp(p)) => run::<f32, _>(c, LpDist(p as f32), true, obs),
    }
}

fn classify_case(c: &Case, obs: &mut Obs) {
    let n = c.points.len();
    obs.class(match c.class {
        PointClass::Lattice => "pts_lattice",
        PointClass::AllEqual => "pts_all_equal",
        PointClass::Duplicates => "pts_duplicates",
        PointClass::Clustered => "pts_clustered",
        PointClass::Uniform => "pts_uniform",
        PointClass::Collinear => "pts_collinear",
        PointClass::Rough => "pts_rough",
        PointClass::AdjacentFloats => "pts_adjacent_floats",
        PointClass::OffsetCloud => "pts_offset_cloud",
        PointClass::LargeStructured => "pts_large_structured",
        PointClass::Bytes => "pts_bytes",
    });
    obs.class(match c.metric {
        Metric::L1 => "metric_l1",
        Metric::L2 => "metric_l2",
        Metric::LInf => "metric_linf",
        Metric::Lp(_) => "metric_lp",
    });
    obs.class(if c.single { "elem_f32" } else { "elem_f64" });
    obs.class_if(n == 0, "n_0");
    obs.class_if(n == 1, "n_1");
    obs.class_if(n >= 2 && n <= 8, "n_2to8");
    obs.class_if(n > 8 && n <= 60, "n_9to60");
    obs.class_if(n > 60, "n_gt60");
    obs.class_if(c.dim == 1, "dim_1");
    obs.class_if(c.dim >= 2 && c.dim <= 3, "dim_2to3");
    obs.class_if(c.dim >= 4 && c.dim <= 8, "dim_4to8");
    obs.class_if(c.dim >= 9, "dim_9to16");
    obs.class_if(c.leaf == 1, "leaf_1");
    obs.class_if(c.leaf >= n && c.leaf > 0, "leaf_ge_n");
    obs.class_if(c.leaf > 0 && 4 * c.leaf < n, "leaf_lt_quarter_n");
    obs.class_if(c.dim == 0, "malformed_zero_dim");
    obs.class_if(c.leaf == 0, "malformed_zero_leaf");
}

struct Brute {
    /// reduced distance query -> point i (exact image of the element type in f64)
    rd: Vec<f64>,
    /// `rdist_to_dist(rd[i])`
    d: Vec<f64>,
    /// point indices by ascending rd
    order: Vec<usize>,
    /// largest d
    m: f64,
    /// distance query -> point i by the harness' own formula, evaluated in f64 on the converted coordinates
    dref: Vec<f64>,
    /// rd[i] equals the reduced distance as a real number (integer arithmetic on dyadic coordinates):
    /// comparisons of such a value with the reduced radius decide "strictly inside / outside" exactly
    exact: Vec<bool>,
}

/// The reduced distance as an exact real number, if the coordinates are multiples of 2^-20 below 2^30
/// and the result is a float; `None` otherwise (and always for Lp).
fn exact_reduced(metric: Metric, q: &[f64], p: &[f64]) -> Option<f64> {
    const SCALE: f64 = 1048576.0;
    let int = |x: f64| -> Option<i128> {
        let y = x * SCALE;
        if y.is_finite() && y.fract() == 0.0 && y.abs() < 1.0e15 {
            Some(y as i128)
        } else {
            None
        }
    };
    let mut diffs: Vec<i128> = Vec::with_capacity(q.len());
    for (a, b) in q.iter().zip(p.iter()) {
        diffs.push((int(*a)? - int(*b)?).abs());
    }
    let (s, unit): (i128, f64) = match metric {
        Metric::L1 => (diffs.iter().sum(), SCALE),
        Metric::LInf => (diffs.iter().copied().max().unwrap_or(0), SCALE),
        Metric::L2 => (diffs.iter().map(|d| d * d).sum(), SCALE * SCALE),
        Metric::Lp(_) => return None,
    };
    let f = s as f64;
    if f as i128 != s {
        return None;
    }
    Some(f / unit)
}

/// `x` moved by `u` ulps of the element type (x >= 0)
fn nudge<F: Float>(x: F, u: i8, single: bool) -> F {
    let v = f64_of(x);
    if !(v.is_finite() && v >= 0.0) || u == 0 {
        return x;
    }
    if single {
        let b = ((v as f32).to_bits() as i64 + u as i64).clamp(0, 0x7f7f_ffff);
        F::cast(f32::from_bits(b as u32) as f64)
    } else {
        let b = (v.to_bits() as i128 + u as i128).clamp(0, 0x7fef_ffff_ffff_ffff);
        F::cast(f64::from_bits(b as u64))
    }
}

type Answer<'a, F> = Vec<(ArrayView1<'a, F>, usize)>;

/// Structural obligations shared by both query kinds. Returns the row indices if they are usable.
fn structure<F: Float>(
    what: &str,
    kind: &str,
    batch: &Array2<F>,
    ans: &Answer<'_, F>,
    obs: &mut Obs,
) -> Option<Vec<usize>> {
    let n = batch.nrows();
    let mut seen = vec![false; n];
    let mut ids = Vec::with_capacity(ans.len());
    for (pos, (pt, i)) in ans.iter().enumerate() {
        if !obs.ensure(*i < n, &format!("{what}:index-out-of-range:{kind}"), || {
            format!("{kind}: result {pos} carries row position {i} but the batch has {n} rows")
        }) {
            return None;
        }
        let row = batch.row(*i);
        let same = pt.len() == row.len() && pt.iter().zip(row.iter()).all(|(a, b)| a == b);
        obs.ensure(same, &format!("{what}:point-index-mismatch:{kind}"), || {
            format!(
                "{kind}: result {pos} = {:?} is returned with row position {i}, but that row is {:?}",
                pt.iter().map(|x| f64_of(*x)).collect::<Vec<_>>(),
                row.iter().map(|x| f64_of(*x)).collect::<Vec<_>>()
            )
        });
        if let Some(s) = seen.get_mut(*i) {
            if *s {
                obs.fail(
                    format!("{what}:duplicate-index:{kind}"),
                    format!("{kind}: row position {i} is returned twice"),
                );
                return None;
            }
            *s = true;
        }
        ids.push(*i);
    }
    Some(ids)
}

type IndexBox<'a, F> = Box<dyn 'a + Send + Sync + NearestNeighbourIndex<F>>;

/// Builds one index kind through one public entry point.
fn build_entry<'a, F: Float, DT: Data<Elem = F>, D: 'a + Distance<F>>(
    kind: &str,
    entry: Entry,
    batch: &'a ArrayBase<DT, Ix2>,
    leaf: usize,
    dist: D,
) -> Result<IndexBox<'a, F>, BuildError> {
    match (entry, kind) {
        (Entry::Enum, "linear") => CommonNearestNeighbour::LinearSearch.from_batch_with_leaf_size(batch, leaf, dist),
        (Entry::Enum, "kdtree") => CommonNearestNeighbour::KdTree.from_batch_with_leaf_size(batch, leaf, dist),
        (Entry::Enum, _) => CommonNearestNeighbour::BallTree.from_batch_with_leaf_size(batch, leaf, dist),
        (Entry::Struct, "linear") => LinearSearch::new().from_batch_with_leaf_size(batch, leaf, dist),
        (Entry::Struct, "kdtree") => KdTree::new().from_batch_with_leaf_size(batch, leaf, dist),
        (Entry::Struct, _) => BallTree::new().from_batch_with_leaf_size(batch, leaf, dist),
        (Entry::Direct, "linear") => LinearSearchIndex::new(batch, dist).map(|v| Box::new(v) as IndexBox<'a, F>),
        (Entry::Direct, "kdtree") => KdTreeIndex::new(batch, leaf, dist).map(|v| Box::new(v) as IndexBox<'a, F>),
        (Entry::Direct, _) => BallTreeIndex::new(batch, leaf, dist).map(|v| Box::new(v) as IndexBox<'a, F>),
        (Entry::EnumDefaultLeaf, "linear") => CommonNearestNeighbour::LinearSearch.from_batch(batch, dist),
        (Entry::EnumDefaultLeaf, "kdtree") => CommonNearestNeighbour::KdTree.from_batch(batch, dist),
        (Entry::EnumDefaultLeaf, _) => CommonNearestNeighbour::BallTree.from_batch(batch, dist),
        (Entry::StructDefaultLeaf, "linear") => LinearSearch::new().from_batch(batch, dist),
        (Entry::StructDefaultLeaf, "kdtree") => KdTree::new().from_batch(batch, dist),
        (Entry::StructDefaultLeaf, _) => BallTree::new().from_batch(batch, dist),
    }
}

/// does this entry point receive the leaf size at all?
fn takes_leaf(entry: Entry, kind: &str) -> bool {
    match entry {
        Entry::Enum | Entry::Struct => true,
        Entry::Direct => kind != "linear",
        Entry::EnumDefaultLeaf | Entry::StructDefaultLeaf => false,
    }
}

fn entry_name(e: Entry) -> &'static str {
    match e {
        Entry::Enum => "enum",
        Entry::Struct => "struct",
        Entry::Direct => "direct",
        Entry::EnumDefaultLeaf => "enum-from_batch",
        Entry::StructDefaultLeaf => "struct-from_batch",
    }
}

/// Calls into an index; a panic is a failure `panic:<what>` unless it is the k-d tree's documented
/// "views should be contiguous" panic on an input that really is not contiguous.
fn call_index<T>(obs: &mut Obs, what: &str, kind: &str, kd_layout_excuse: bool, f: impl FnOnce() -> T) -> Option<T> {
    match vengine::guard(f) {
        Ok(v) => Some(v),
        Err(m) => {
            if kind == "kdtree" && kd_layout_excuse && m.contains("contiguous") {
                obs.class("kd_documented_layout_panic");
            } else {
                obs.fail(format!("panic:{what}"), format!("panicked: {m}"));
            }
            None
        }
    }
}

fn run<F: Float, D: Distance<F>>(c: &Case, dist: D, powf_metric: bool, obs: &mut Obs) {
    let n = c.points.len();
    let dim = c.dim;
    let at = |i: usize, j: usize| F::cast(c.points.get(i).and_then(|r| r.get(j)).copied().unwrap_or(0.0));
    // canonical copy (standard layout) for the oracle; the builders get the requested memory layout
    let canon: Array2<F> = Array2::from_shape_fn((n, dim), |(i, j)| at(i, j));
    let junk = F::cast(-777.25);
    match c.layout {
        Layout::RowMajor => run_on(c, &canon, &canon, dist, powf_metric, obs),
        Layout::ColMajorOwned => {
            let store: Array2<F> = Array2::from_shape_fn((n, dim).f(), |(i, j)| at(i, j));
            run_on(c, &canon, &store, dist, powf_metric, obs)
        }
        Layout::TransposedView => {
            let store: Array2<F> = Array2::from_shape_fn((dim, n), |(j, i)| at(i, j));
            let view = store.t();
            run_on(c, &canon, &view, dist, powf_metric, obs)
        }
        Layout::StridedRows => {
            let store: Array2<F> = Array2::from_shape_fn((2 * n, dim), |(i, j)| if i % 2 == 0 { at(i / 2, j) } else { junk });
            let view = store.slice(s![..;2, ..]);
            run_on(c, &canon, &view, dist, powf_metric, obs)
        }
        Layout::ReversedRows => {
            let store: Array2<F> = Array2::from_shape_fn((n, dim), |(i, j)| at(n - 1 - i, j));
            let view = store.slice(s![..;-1, ..]);
            run_on(c, &canon, &view, dist, powf_metric, obs)
        }
    }
}

/// `batch` is the standard-layout copy the oracle reads; `given` holds the same logical rows in the layout under test.
fn run_on<F: Float, D: Distance<F>, DT: Data<Elem = F>>(
    c: &Case,
    batch: &Array2<F>,
    given: &ArrayBase<DT, Ix2>,
    dist: D,
    powf_metric: bool,
    obs: &mut Obs,
) {
    classify_case(c, obs);
    let n = c.points.len();
    let dim = c.dim;
    let eps = f64_of(F::epsilon());
    obs.class(match c.layout {
        Layout::RowMajor => "layout_row_major",
        Layout::ColMajorOwned => "layout_col_major_owned",
        Layout::TransposedView => "layout_transposed_view",
        Layout::StridedRows => "layout_strided_rows",
        Layout::ReversedRows => "layout_reversed_rows",
    });
    obs.class(match c.entry {
        Entry::Enum => "entry_enum",
        Entry::Struct => "entry_struct",
        Entry::Direct => "entry_direct",
        Entry::EnumDefaultLeaf => "entry_enum_from_batch",
        Entry::StructDefaultLeaf => "entry_struct_from_batch",
    });
    if given.shape() != batch.shape() || given.iter().zip(batch.iter()).any(|(a, b)| a != b) {
        obs.fail("harness:layout-construction", "the laid-out batch differs from the canonical one (harness bug)".to_string());
        return;
    }
    // the k-d tree documents a panic unless every stored point is contiguous in memory
    let rows_contiguous = given.rows().into_iter().all(|r| r.to_slice().is_some());

    // ---------------------------------------------------------------- build
    let malformed_case = dim == 0 || c.leaf == 0;
    // a malformed case is pushed through every public entry point, a well-formed one through the chosen one
    let entries: Vec<Entry> = if malformed_case { ALL_ENTRIES.to_vec() } else { vec![c.entry] };
    let mut indices: Vec<(&'static str, IndexBox<'_, F>)> = Vec::with_capacity(3);
    for entry in entries {
        let ename = entry_name(entry);
        for kind in KIND_NAMES.iter().copied() {
            let leaf_eff = if takes_leaf(entry, kind) { c.leaf } else { 16 };
            let malformed_build = dim == 0 || leaf_eff == 0;
            if kind == "kdtree" && !malformed_build && !crate::kdsim::in_probe_child() && crate::kdsim::build_recurses(batch, leaf_eff) {
                // replaying the k-d tree's insertion sequence reaches a split that leaves one side empty (adjacent
                // floats whose midpoint rounds onto the minimum): the real build would recurse until the stack
                // overflows and take this process with it, so it is observed in a child process instead
                obs.class("kd_degenerate_split_predicted");
                if malformed_case {
                    continue; // (only reachable with leaf 0 through a default-leaf entry: not probed)
                }
                match crate::kdsim::probe_build(c, "indices") {
                    crate::kdsim::Probe::Unavailable => {
                        obs.class("kd_skipped_no_probe");
                        continue;
                    }
                    crate::kdsim::Probe::Died(st) => {
                        obs.fail(
                            "crash:build:kdtree:adjacent-float-midpoint",
                            format!(
                                "kdtree: building the index over {n} x {dim} points with leaf size {leaf_eff} killed the (child) process: {st}; \
                                 a bucket whose extreme coordinates are adjacent floats is split at a midpoint that rounds onto the minimum, \
                                 so the split recurses without bound (stack overflow)"
                            ),
                        );
                        continue;
                    }
                    crate::kdsim::Probe::Survived => obs.class("kd_degenerate_split_survived"),
                }
            }
            let r = call_index(obs, &format!("build:{kind}"), kind, !rows_contiguous, || {
                build_entry(kind, entry, given, c.leaf, dist.clone())
            });
            match r {
                None => {}
                Some(Ok(ix)) => {
                    if malformed_build {
                        obs.fail(
                            format!("build:malformed-accepted:{kind}:{ename}"),
                            format!("{kind} via {ename}: build with {dim} columns and leaf size {} returned an index instead of an error", c.leaf),
                        );
                    } else if !malformed_case {
                        indices.push((kind, ix));
                    }
                }
                Some(Err(e)) => {
                    if !malformed_build {
                        obs.fail(
                            format!("build:spurious-error:{kind}:{ename}"),
                            format!("{kind} via {ename}: well-formed build ({n} x {dim}, leaf size {leaf_eff}, layout {:?}) failed: {e}", c.layout),
                        );
                    }
                }
            }
        }
    }
    if malformed_case {
        return;
    }
    if 4 * c.leaf < n {
        obs.nontrivial(); // the trees really branch
    }

    // ---------------------------------------------------------------- queries
    let xmax = rows64_max(batch, c);
    let rows64: Vec<Vec<f64>> = batch.rows().into_iter().map(|row| row.iter().map(|x| f64_of(*x)).collect()).collect();
    for (qi, q) in c.queries.iter().enumerate() {
        let qp: Array1<F> = Array1::from_iter(q.point.iter().map(|x| F::cast(*x)));
        // the view handed to the indices: contiguous, or every second element of a doubled array
        let qstore: Array1<F> = Array1::from_shape_fn(2 * qp.len(), |i| if i % 2 == 0 { qp[i / 2] } else { F::cast(-777.25) });
        let qview: ArrayView1<'_, F> = if q.strided { qstore.slice(s![..;2]) } else { qp.view() };
        let q_excuse = qview.to_slice().is_none();
        obs.class_if(q.strided, "q_strided_view");
        obs.class(match q.class {
            QueryClass::Stored => "q_stored",
            QueryClass::Lattice => "q_lattice",
            QueryClass::Midpoint => "q_midpoint",
            QueryClass::CellCentre => "q_cell_centre",
            QueryClass::Far => "q_far",
            QueryClass::Other => "q_other",
            QueryClass::WrongLength => "q_wrong_length",
        });

        if qp.len() != dim {
            obs.class("malformed_query_dimension");
            for (kind, ix) in indices.iter() {
                if let Some(r) = call_index(obs, &format!("k_nearest:wrong-dimension:{kind}"), kind, q_excuse, || {
                    ix.k_nearest(qview, q.k).map(|v| v.len())
                }) {
                    obs.ensure(r.is_err(), &format!("knn:wrong-dimension-answered:{kind}"), || {
                        format!("{kind}: query {qi} has {} coordinates, the index {dim}; k_nearest answered with {:?} points", qp.len(), r)
                    });
                }
                if let Some(r) = call_index(obs, &format!("within_range:wrong-dimension:{kind}"), kind, q_excuse, || {
                    ix.within_range(qview, F::one()).map(|v| v.len())
                }) {
                    obs.ensure(r.is_err(), &format!("range:wrong-dimension-answered:{kind}"), || {
                        format!("{kind}: query {qi} has {} coordinates, the index {dim}; within_range answered with {:?} points", qp.len(), r)
                    });
                }
            }
            continue;
        }

        // ---- brute force with the crate's own reduced distance (same floats as the indices see)
        let brute = vengine::guard(|| {
            let mut rd = Vec::with_capacity(n);
            let mut d = Vec::with_capacity(n);
            for row in batch.rows() {
                let r = dist.rdistance(qp.view(), row);
                rd.push(f64_of(r));
                d.push(f64_of(dist.rdist_to_dist(r)));
            }
            (rd, d)
        });
        let (rd, d) = match brute {
            Ok(x) => x,
            Err(m) => {
                obs.fail("panic:rdistance", format!("reference scan panicked: {m}"));
                continue;
            }
        };
        if rd.iter().chain(d.iter()).any(|x| !x.is_finite() || *x < 0.0) {
            obs.fail(
                "distance:not-finite",
                format!("query {qi}: a reduced distance or distance is negative or not finite: {rd:?} / {d:?}"),
            );
            continue;
        }
        let mut order: Vec<usize> = (0..n).collect();
        order.sort_by(|a, b| {
            let (x, y) = (rd.get(*a).copied().unwrap_or(0.0), rd.get(*b).copied().unwrap_or(0.0));
            x.partial_cmp(&y).unwrap_or(std::cmp::Ordering::Equal)
        });
        let m = d.iter().fold(0.0f64, |a, b| a.max(*b));
        let ref_metric = match c.metric {
            Metric::Lp(p) if c.single => Metric::Lp((p as f32) as f64),
            mm => mm,
        };
        let qv: Vec<f64> = qp.iter().map(|x| f64_of(*x)).collect();
        let refs: Vec<(f64, f64)> = rows64.iter().map(|rv| reference(ref_metric, &qv, rv)).collect();
        let dref: Vec<f64> = refs.iter().map(|x| x.0).collect();
        // the reference scan itself is anchored: the crate's rdistance / rdist_to_dist(rdistance) of every stored
        // point against the harness' own formula (so a self-consistent but wrong distance cannot hide behind it)
        let slack_f = (FORMULA_EPS + 4.0 * dim as f64) * eps;
        let tiny = f64_of(F::min_positive_value());
        for (i, (want_d, want_r)) in refs.iter().enumerate() {
            let (got_r, got_d) = (rd.get(i).copied().unwrap_or(f64::NAN), d.get(i).copied().unwrap_or(f64::NAN));
            if (got_r - want_r).abs() > slack_f * want_r.abs().max(got_r.abs()) + tiny {
                obs.fail(
                    "rdistance:formula",
                    format!("query {qi}: rdistance(query, row {i}) = {got_r}, independent formula {want_r} (query {:?}, row {:?})", qv, rows64.get(i)),
                );
                break;
            }
            if (got_d - want_d).abs() > slack_f * want_d.abs().max(got_d.abs()) + tiny {
                obs.fail(
                    "distance:rdist_to_dist-formula",
                    format!("query {qi}: rdist_to_dist(rdistance(query, row {i})) = {got_d}, independent formula {want_d}"),
                );
                break;
            }
        }
        let exact: Vec<bool> = rows64
            .iter()
            .zip(rd.iter())
            .map(|(rv, r)| exact_reduced(c.metric, &qv, rv) == Some(*r))
            .collect();
        obs.class_if(n > 0 && exact.iter().all(|e| *e), "exact_geometry");
        let br = Brute { rd, d, order, m, dref, exact };
        // second-order term: a leaf centre (mean of up to n rounded coordinates) may lie outside the hull by ~n eps X
        let geo_tol = GEO_EPS * (dim as f64 + 8.0) * eps * (br.m + (n as f64 + 2.0) * eps * xmax * (dim as f64).sqrt());

        knn_query(c, qi, q, &qp, qview, q_excuse, batch, &indices, &br, eps, geo_tol, powf_metric, obs);
        range_query(c, qi, q, &qp, qview, q_excuse, batch, &indices, &br, &dist, eps, geo_tol, powf_metric, obs);
    }
}

/// largest coordinate magnitude among stored points and queries
fn rows64_max<F: Float>(batch: &Array2<F>, c: &Case) -> f64 {
    let a = batch.iter().fold(0.0f64, |m, x| m.max(f64_of(*x).abs()));
    c.queries.iter().flat_map(|q| q.point.iter()).fold(a, |m, x| m.max(x.abs()))
}

fn kind_tol(kind: &str, powf_metric: bool, geo_tol: f64) -> f64 {
    // diagnostic switch (never set by the registered commands): judge without the bound allowance
    if std::env::var_os("C07_NO_GEO_TOL").is_some() {
        return 0.0;
    }
    if kind == "balltree" || (kind == "kdtree" && powf_metric) {
        geo_tol
    } else {
        0.0
    }
}

#[allow(clippy::too_many_arguments)]
fn knn_query<'a, F: Float>(
    _c: &Case,
    qi: usize,
    q: &Query,
    qp: &Array1<F>,
    qv: ArrayView1<'_, F>,
    q_excuse: bool,
    batch: &Array2<F>,
    indices: &[(&'static str, Box<dyn 'a + Send + Sync + NearestNeighbourIndex<F>>)],
    br: &Brute,
    eps: f64,
    geo_tol: f64,
    powf_metric: bool,
    obs: &mut Obs,
) {
    let n = batch.nrows();
    let k = q.k;
    let want = k.min(n);
    obs.class_if(k == 0, "k_0");
    obs.class_if(k == n && n > 0, "k_eq_n");
    obs.class_if(k > n, "k_gt_n");
    obs.class_if(k >= 1 && k < n, "k_inside");
    // exact tie at rank k: the k-th and (k+1)-th smallest reduced distances coincide
    let tie = k >= 1
        && k < n
        && match (br.order.get(k - 1), br.order.get(k)) {
            (Some(a), Some(b)) => br.rd.get(*a) == br.rd.get(*b),
            _ => false,
        };
    obs.class_if(tie, "tie_at_rank_k");
    obs.nontrivial_if(tie);

    for (kind, ix) in indices.iter() {
        // the suspected ball-tree defect gets its own call-site name so that only k = 0 is excused
        let what = if k == 0 { format!("k_nearest:{kind}:k=0") } else { format!("k_nearest:{kind}") };
        let Some(res) = call_index(obs, &what, kind, q_excuse, || ix.k_nearest(qv, k)) else { continue };
        let ans = match res {
            Ok(a) => a,
            Err(e) => {
                obs.fail(
                    format!("knn:spurious-error:{kind}"),
                    format!("{kind}: query {qi} (k = {k}) of the right dimension failed: {e}"),
                );
                continue;
            }
        };
        obs.ensure(ans.len() == want, &format!("knn:length:{kind}"), || {
            format!("{kind}: query {qi}: k = {k}, n = {n}: {} points returned, expected min(k, n) = {want}", ans.len())
        });
        let Some(ids) = structure("knn", kind, batch, &ans, obs) else { continue };
        let got: Vec<(f64, f64, bool)> = ids
            .iter()
            .map(|i| {
                (
                    br.rd.get(*i).copied().unwrap_or(f64::NAN),
                    br.d.get(*i).copied().unwrap_or(f64::NAN),
                    br.exact.get(*i).copied().unwrap_or(false),
                )
            })
            .collect();
        let ascending = got.windows(2).all(|w| w[0].0 <= w[1].0);
        obs.ensure(ascending, &format!("knn:not-ascending:{kind}"), || {
            format!("{kind}: query {qi} (k = {k}): reduced distances of the answer are not ascending: {:?}", got.iter().map(|g| g.0).collect::<Vec<_>>())
        });
        // compare, as sorted lists, with the smallest reduced distances of the brute-force scan
        let mut sorted = got.clone();
        sorted.sort_by(|a, b| a.0.partial_cmp(&b.0).unwrap_or(std::cmp::Ordering::Equal));
        let tol_kind = kind_tol(kind, powf_metric, geo_tol);
        let mut inexact = false;
        for (j, (grd, gd, gex)) in sorted.iter().enumerate() {
            let Some(t) = br.order.get(j) else { break };
            let (trd, td) = (br.rd.get(*t).copied().unwrap_or(f64::NAN), br.d.get(*t).copied().unwrap_or(f64::NAN));
            if *grd == trd {
                continue;
            }
            inexact = true;
            // a subset can only be farther than the truth; "equal" within the stated tolerance
            let band = if std::env::var_os("C07_NO_GEO_TOL").is_some() { 0.0 } else { BAND_EPS * eps * td };
            // both reduced distances are exact real numbers: they differ, so the returned point really is farther
            let both_exact = *gex && br.exact.get(*t).copied().unwrap_or(false);
            let ok = !both_exact && *grd > trd && *gd <= td + band + tol_kind;
            if !ok {
                obs.fail(
                    format!("knn:wrong-distances:{kind}"),
                    format!(
                        "{kind}: query {qi} (k = {k}, n = {n}): the {j}-th smallest returned distance is {gd} (reduced {grd}) but the {j}-th nearest stored point is at {td} (reduced {trd}); first returned rows {:?}",
                        ids.iter().take(24).collect::<Vec<_>>()
                    ),
                );
                break;
            }
        }
        obs.class_if(inexact, "knn_accepted_within_tolerance");
    }
}

#[allow(clippy::too_many_arguments)]
fn range_query<'a, F: Float, D: Distance<F>>(
    _c: &Case,
    qi: usize,
    q: &Query,
    qp: &Array1<F>,
    qv: ArrayView1<'_, F>,
    q_excuse: bool,
    batch: &Array2<F>,
    indices: &[(&'static str, Box<dyn 'a + Send + Sync + NearestNeighbourIndex<F>>)],
    br: &Brute,
    dist: &D,
    eps: f64,
    geo_tol: f64,
    powf_metric: bool,
    obs: &mut Obs,
) {
    let n = batch.nrows();
    // ---- resolve the radius
    let range: F = match &q.radius {
        Radius::Abs(r) => {
            obs.class_if(*r == 0.0, "radius_zero");
            obs.class_if(*r != 0.0, "radius_literal");
            F::cast(*r)
        }
        Radius::ToPoint(i) => {
            obs.class("radius_to_point");
            if n == 0 {
                F::zero()
            } else {
                let row = batch.row(idx(*i, n).min(n - 1));
                match vengine::guard(|| dist.distance(qp.view(), row)) {
                    Ok(v) => v,
                    Err(m) => {
                        obs.fail("panic:distance", format!("distance(query, stored point) panicked: {m}"));
                        return;
                    }
                }
            }
        }
        Radius::ToPointUlps(i, u) => {
            obs.class("radius_to_point_ulps");
            if n == 0 {
                F::zero()
            } else {
                let row = batch.row(idx(*i, n).min(n - 1));
                match vengine::guard(|| dist.distance(qp.view(), row)) {
                    Ok(v) => nudge(v, *u, _c.single),
                    Err(m) => {
                        obs.fail("panic:distance", format!("distance(query, stored point) panicked: {m}"));
                        return;
                    }
                }
            }
        }
        Radius::ToRankUlps(rank, u) => {
            obs.class("radius_to_rank_ulps");
            match br.order.get((*rank as usize).min(n.saturating_sub(1))) {
                None => F::zero(),
                Some(i) => {
                    let row = batch.row((*i).min(n.saturating_sub(1)));
                    match vengine::guard(|| dist.distance(qp.view(), row)) {
                        Ok(v) => nudge(v, *u, _c.single),
                        Err(m) => {
                            obs.fail("panic:distance", format!("distance(query, stored point) panicked: {m}"));
                            return;
                        }
                    }
                }
            }
        }
        Radius::Between(g) => {
            obs.class("radius_between");
            let mut ds: Vec<f64> = br.order.iter().filter_map(|i| br.d.get(*i).copied()).collect();
            ds.dedup();
            if ds.len() >= 2 {
                let j = idx(*g, ds.len() - 1).min(ds.len() - 2);
                F::cast((ds[j] + ds[j + 1]) / 2.0)
            } else {
                F::cast(ds.first().copied().unwrap_or(1.0) / 2.0)
            }
        }
        Radius::Beyond => {
            obs.class("radius_beyond_diameter");
            F::cast(2.0 * br.m + 1.0)
        }
    };
    let range_f = f64_of(range);
    if !(range_f.is_finite() && range_f >= 0.0) {
        obs.skip("radius_not_finite");
        return;
    }
    let rp = match vengine::guard(|| dist.dist_to_rdist(range)) {
        Ok(v) => f64_of(v),
        Err(m) => {
            obs.fail("panic:dist_to_rdist", format!("dist_to_rdist({range_f}) panicked: {m}"));
            return;
        }
    };
    if !rp.is_finite() {
        obs.skip("radius_not_finite");
        return;
    }

    // ---- classify every stored point against the radius
    // 0 = must be absent, 1 = free (rounding band), 2 = exactly on the radius, 3 = must be present,
    // 4 = must be present without any allowance: rd is the exact real reduced distance, so rd < fl(r') implies
    // rd < r' over the reals (fl is the nearest float and rd is a float): the point IS strictly inside
    let lo = rp * (1.0 - BAND_EPS * eps);
    let hi = rp * (1.0 + BAND_EPS * eps);
    let status: Vec<u8> = br
        .rd
        .iter()
        .zip(br.exact.iter())
        .map(|(r, ex)| {
            if *r == rp {
                2
            } else if *ex {
                if *r < rp {
                    4
                } else {
                    0
                }
            } else if *r < lo {
                3
            } else if *r > hi {
                0
            } else {
                1
            }
        })
        .collect();
    // ---- independent of the crate's conversions: the reduced scale must order every point against the
    // reduced radius the way the harness' own distance formula orders it against the radius
    let slack = (FORMULA_EPS + 4.0 * batch.ncols() as f64) * eps;
    for i in 0..n {
        let (Some(dr), Some(r)) = (br.dref.get(i).copied(), br.rd.get(i).copied()) else { continue };
        if range_f < 1e-12 && dr < 1e-12 {
            continue; // squares / p-th powers of such values may underflow in f32
        }
        let inside = dr < range_f * (1.0 - slack);
        let outside = dr > range_f * (1.0 + slack) && dr >= 1e-12;
        if (inside && r >= rp) || (outside && r <= rp) {
            obs.fail(
                "range:reduced-scale-inconsistent",
                format!(
                    "query {qi}: row {i} is at distance {dr} (own formula), radius {range_f}; but rdistance = {r} and dist_to_rdist(radius) = {rp} order them the other way"
                ),
            );
            break;
        }
    }
    let on_radius: Vec<usize> = (0..n).filter(|i| status.get(*i) == Some(&2)).collect();
    obs.class_if(!on_radius.is_empty(), "point_exactly_on_radius");
    obs.class_if(status.iter().any(|s| *s == 1), "point_in_rounding_band");
    obs.class_if(status.iter().all(|s| *s >= 3) && n > 0, "range_covers_all");
    obs.class_if(
        (0..n).any(|i| status.get(i) == Some(&4) && br.rd.get(i).map(|r| *r >= lo).unwrap_or(false)),
        "exact_point_ulps_inside_radius",
    );
    obs.class_if(status.iter().all(|s| *s == 0) && n > 0, "range_covers_none");
    obs.nontrivial_if(!on_radius.is_empty());

    let mut on_included: Vec<(&'static str, Vec<usize>)> = vec![];
    for (kind, ix) in indices.iter() {
        let Some(res) = call_index(obs, &format!("within_range:{kind}"), kind, q_excuse, || ix.within_range(qv, range)) else { continue };
        let ans = match res {
            Ok(a) => a,
            Err(e) => {
                obs.fail(
                    format!("range:spurious-error:{kind}"),
                    format!("{kind}: query {qi} (radius {range_f}) of the right dimension failed: {e}"),
                );
                continue;
            }
        };
        let Some(ids) = structure("range", kind, batch, &ans, obs) else { continue };
        let mut present = vec![false; n];
        for i in &ids {
            if let Some(p) = present.get_mut(*i) {
                *p = true;
            }
        }
        let tol_kind = kind_tol(kind, powf_metric, geo_tol);
        let mut free_used = false;
        for i in 0..n {
            let st = status.get(i).copied().unwrap_or(1);
            let here = present.get(i).copied().unwrap_or(false);
            let (rdi, di) = (br.rd.get(i).copied().unwrap_or(f64::NAN), br.d.get(i).copied().unwrap_or(f64::NAN));
            match st {
                0 => {
                    if here {
                        obs.fail(
                            format!("range:outside-point-returned:{kind}"),
                            format!("{kind}: query {qi}, radius {range_f} (reduced {rp}): row {i} at distance {di} (reduced {rdi}) lies strictly outside but was returned"),
                        );
                    }
                }
                3 => {
                    // the sphere bound of the ball tree may prune a point this close to the radius
                    let excused = tol_kind > 0.0 && di >= range_f - tol_kind;
                    if !here && !excused {
                        obs.fail(
                            format!("range:inside-point-missing:{kind}"),
                            format!("{kind}: query {qi}, radius {range_f} (reduced {rp}): row {i} at distance {di} (reduced {rdi}) lies strictly inside but was not returned; {} rows returned, first {:?}", ids.len(), ids.iter().take(24).collect::<Vec<_>>()),
                        );
                    }
                    if !here && excused {
                        free_used = true;
                    }
                }
                4 => {
                    if !here {
                        obs.fail(
                            format!("range:inside-point-missing:{kind}"),
                            format!(
                                "{kind}: query {qi} = {:?}, radius {range_f} (reduced {rp}): row {i} at distance {di} (reduced {rdi}, exact) lies strictly inside but was not returned; {} rows returned, first {:?}",
                                q.point,
                                ids.len(),
                                ids.iter().take(24).collect::<Vec<_>>()
                            ),
                        );
                    }
                }
                _ => {}
            }
        }
        obs.class_if(free_used, "range_accepted_within_tolerance");
        on_included.push((*kind, on_radius.iter().copied().filter(|i| present.get(*i).copied().unwrap_or(false)).collect()));
    }

    // ---- points exactly on the radius: each kind may keep or drop them, but all kinds alike
    if !on_radius.is_empty() && on_included.len() >= 2 {
        let first = on_included.first().map(|x| x.1.clone()).unwrap_or_default();
        let agree = on_included.iter().all(|x| x.1 == first);
        if !agree {
            let inc = |name: &str| on_included.iter().find(|x| x.0 == name).map(|x| x.1.clone());
            let describe = || {
                format!(
                    "query {qi} = {:?}, radius {range_f} (reduced {rp}): rows {on_radius:?} lie exactly on the radius; returned by {}",
                    q.point,
                    on_included.iter().map(|x| format!("{}: {:?}", x.0, x.1)).collect::<Vec<_>>().join(", ")
                )
            };
            // the one recognised pattern: the k-d tree keeps every border point, the other two drop every one
            let kd_all = inc("kdtree").map(|v| v == on_radius).unwrap_or(false);
            let others_none = on_included.iter().filter(|x| x.0 != "kdtree").all(|x| x.1.is_empty());
            if kd_all && others_none {
                obs.fail("range:on-radius:kdtree-inclusive-others-strict", describe());
            } else {
                obs.fail("range:on-radius:kinds-disagree", describe());
            }
        }
    }
}

// ------------------------------------------------------------------------------------------------
// the four Distance implementations against independent formulas

#[derive(Debug, Clone, serde::Serialize, serde::Deserialize)]
pub struct DistCase {
    pub single: bool,
    pub metric: Metric,
    pub a: Vec<f64>,
    pub b: Vec<f64>,
    pub c: Vec<f64>,
    pub d: Vec<f64>,
}

/// tolerance of DESIGN §1.5 for a quantity recomputed by an independent formula
pub const FORMULA_EPS: f64 = 64.0;

pub fn check_distance(c: &DistCase, obs: &mut Obs) {
    let len = c.a.len();
    let bound = if c.single { MAX_ABS_COORD } else { MAX_ABS_COORD_F64 };
    let ok = |v: &Vec<f64>| v.len() == len && v.iter().all(|x| x.is_finite() && x.abs() <= bound);
    let p_ok = match c.metric {
        Metric::Lp(p) => p.is_finite() && (1.0..=8.0).contains(&p),
        _ => true,
    };
    if len == 0 || len > MAX_DIM || !ok(&c.a) || !ok(&c.b) || !ok(&c.c) || !ok(&c.d) || !p_ok {
        obs.skip("ill_formed_case");
        return;
    }
    match (c.single, c.metric) {
        (false, Metric::L1) => run_distance::<f64, _>(c, L1Dist, obs),
        (false, Metric::L2) => run_distance::<f64, _>(c, L2Dist, obs),
        (false, Metric::LInf) => run_distance::<f64, _>(c, LInfDist, obs),
        (false, Metric::Lp(p)) => run_distance::<f64, _>(c, LpDist(p), obs),
        (true, Metric::L1) => run_distance::<f32, _>(c, L1Dist, obs),
        (true, Metric::L2) => run_distance::<f32, _>(c, L2Dist, obs),
        (true, Metric::LInf) => run_distance::<f32, _>(c, LInfDist, obs),
        (true, Metric::Lp(p)) => run_distance::<f32, _>(c, LpDist(p as f32), obs),
    }
}

fn reference(metric: Metric, a: &[f64], b: &[f64]) -> (f64, f64) {
    let diffs = a.iter().zip(b.iter()).map(|(x, y)| (x - y).abs());
    match metric {
        Metric::L1 => {
            let s: f64 = diffs.sum();
            (s, s)
        }
        Metric::L2 => {
            let s: f64 = diffs.map(|t| t * t).sum();
            (s.sqrt(), s)
        }
        Metric::LInf => {
            let s = diffs.fold(0.0f64, f64::max);
            (s, s)
        }
        Metric::Lp(p) => {
            let s: f64 = diffs.map(|t| t.powf(p)).sum();
            let r = s.powf(1.0 / p);
            (r, r)
        }
    }
}

fn run_distance<F: Float, D: Distance<F>>(c: &DistCase, dist: D, obs: &mut Obs) {
    let eps = f64_of(F::epsilon());
    let tiny = f64_of(F::min_positive_value());
    obs.class(match c.metric {
        Metric::L1 => "metric_l1",
        Metric::L2 => "metric_l2",
        Metric::LInf => "metric_linf",
        Metric::Lp(_) => "metric_lp",
    });
    obs.class(if c.single { "elem_f32" } else { "elem_f64" });
    obs.class_if(c.a.len() == 1, "dim_1");
    obs.class_if(c.a.len() >= 9, "dim_9to16");
    let cast = |v: &Vec<f64>| -> Array1<F> { Array1::from_iter(v.iter().map(|x| F::cast(*x))) };
    let back = |v: &Array1<F>| -> Vec<f64> { v.iter().map(|x| f64_of(*x)).collect() };
    let (a, b, cc, dd) = (cast(&c.a), cast(&c.b), cast(&c.c), cast(&c.d));
    // for the f32 case the exponent itself was rounded to f32
    let metric = match c.metric {
        Metric::Lp(p) if c.single => Metric::Lp((p as f32) as f64),
        m => m,
    };
    obs.class_if(a == b, "identical_points");
    obs.nontrivial_if(a != b && cc != dd);

    let Some((d_ab, r_ab, d_cd, r_cd)) = obs.call("distance", || {
        (
            f64_of(dist.distance(a.view(), b.view())),
            f64_of(dist.rdistance(a.view(), b.view())),
            f64_of(dist.distance(cc.view(), dd.view())),
            f64_of(dist.rdistance(cc.view(), dd.view())),
        )
    }) else {
        return;
    };
    let near = |x: f64, y: f64, k: f64| (x - y).abs() <= k * eps * x.abs().max(y.abs()) + tiny;
    for (name, got_d, got_r, x, y) in [("ab", d_ab, r_ab, &a, &b), ("cd", d_cd, r_cd, &cc, &dd)] {
        let (want_d, want_r) = reference(metric, &back(x), &back(y));
        obs.ensure(near(got_d, want_d, FORMULA_EPS), "distance:formula", || {
            format!("distance of pair {name}: {got_d}, independent formula {want_d}")
        });
        obs.ensure(near(got_r, want_r, FORMULA_EPS), "rdistance:formula", || {
            format!("rdistance of pair {name}: {got_r}, independent formula {want_r}")
        });
    }
    // conversions between the two scales
    let Some((to_d, to_r, round)) = obs.call("distance-conversions", || {
        (
            f64_of(dist.rdist_to_dist(F::cast(r_ab))),
            f64_of(dist.dist_to_rdist(F::cast(d_ab))),
            f64_of(dist.rdist_to_dist(dist.dist_to_rdist(F::cast(d_ab)))),
        )
    }) else {
        return;
    };
    obs.ensure(near(to_d, d_ab, BAND_EPS), "distance:rdist_to_dist", || {
        format!("rdist_to_dist(rdistance) = {to_d} but distance = {d_ab}")
    });
    obs.ensure(near(to_r, r_ab, BAND_EPS), "distance:dist_to_rdist", || {
        format!("dist_to_rdist(distance) = {to_r} but rdistance = {r_ab}")
    });
    obs.ensure(near(round, d_ab, BAND_EPS), "distance:round-trip", || {
        format!("rdist_to_dist(dist_to_rdist({d_ab})) = {round}")
    });
    // order preservation (documented: dist(a,b) > dist(c,d) implies rdist(a,b) > rdist(c,d)); every map
    // involved is a monotone float function of the same sum, so this is exact
    obs.class_if(d_ab == d_cd, "equal_distances");
    obs.ensure(!(d_ab > d_cd) || r_ab > r_cd, "distance:order-not-kept", || {
        format!("distance {d_ab} > {d_cd} but rdistance {r_ab} <= {r_cd}")
    });
    obs.ensure(!(d_ab < d_cd) || r_ab < r_cd, "distance:order-not-kept", || {
        format!("distance {d_ab} < {d_cd} but rdistance {r_ab} >= {r_cd}")
    });
    // the conversions are monotone
    if let Some((x, y, u, v)) = obs.call("distance-conversions", || {
        (
            f64_of(dist.dist_to_rdist(F::cast(d_ab))),
            f64_of(dist.dist_to_rdist(F::cast(d_cd))),
            f64_of(dist.rdist_to_dist(F::cast(r_ab))),
            f64_of(dist.rdist_to_dist(F::cast(r_cd))),
        )
    }) {
        obs.ensure(!(d_ab < d_cd) || x <= y, "distance:dist_to_rdist-not-monotone", || {
            format!("dist_to_rdist({d_ab}) = {x} > dist_to_rdist({d_cd}) = {y}")
        });
        obs.ensure(!(r_ab < r_cd) || u <= v, "distance:rdist_to_dist-not-monotone", || {
            format!("rdist_to_dist({r_ab}) = {u} > rdist_to_dist({r_cd}) = {v}")
        });
    }
}
