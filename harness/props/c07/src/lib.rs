//! C07 — stub (to be written; see /verif/harness/AUTHORING.md and DESIGN.md §3 C07)
use vengine::Property;

pub fn property() -> Property {
    Property { id: "C07", rule: "", assumptions: vec![], subs: vec![] }
}
