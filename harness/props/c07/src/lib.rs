//! C07 — nearest-neighbour indices return the true neighbours and are interchangeable.
//!
//! One case = element type, metric, point set, leaf size and up to a few queries (point, k, radius).
//! The three index kinds are built through `CommonNearestNeighbour` and every answer is compared with
//! a brute-force scan that uses the crate's own `rdistance` (the same floats the indices see), so
//! distances compare exactly except where an index derives a pruning bound through rounded
//! arithmetic (tolerances in `oracle.rs`). The four `Distance` implementations are checked separately
//! against independent formulas.

pub mod case;
pub mod gen;
pub mod kdsim;
pub mod oracle;

pub use case::{case_from_bytes, Case, Metric, PointClass, Query, QueryClass, Radius};
pub use oracle::{check_case, check_distance, DistCase};

use gen::Malformed;
use proptest::prelude::*;
use vengine::{enum_sub, prop_sub, Property, Tier};

fn index_strategy(t: Tier) -> BoxedStrategy<Case> {
    match t {
        Tier::Quick => gen::case_strategy(60, Malformed::Rare).boxed(),
        Tier::Thorough => prop_oneof![
            3 => gen::case_strategy(60, Malformed::Rare),
            1 => gen::case_strategy(400, Malformed::Rare),
        ]
        .boxed(),
    }
}

/// Check function of the `large_structured` stratum: expand the seed-derived description, then the common oracle.
pub fn check_large(lc: &gen::LargeCase, obs: &mut vengine::Obs) {
    if lc.n > case::MAX_POINTS || lc.nq > 200 {
        obs.skip("ill_formed_case");
        return;
    }
    obs.class(match lc.shape {
        gen::LargeShape::Diagonal => "shape_diagonal",
        gen::LargeShape::Strip => "shape_strip",
        gen::LargeShape::Lattice => "shape_lattice",
        gen::LargeShape::TwoScale => "shape_two_scale",
    });
    check_case(&gen::expand_large(lc), obs);
}

pub fn property() -> Property {
    kdsim::enable_probe(true);
    Property {
        id: "C07",
        rule: "case = (f32|f64, metric L1/L2/Linf/Lp(1,1.5,2,3), point set of class lattice/all-equal/duplicates/clustered/uniform/collinear/rough \
               with n in 0..=60 (thorough: a quarter up to 400) and dim 1..=16, leaf size in {1,2,3,16,n,random}, 1..3 queries (stored point, lattice point, \
               midpoint, cell centre, far point; k in 0..=n+3; radius 0 / integer / exactly the distance to a stored point / between two consecutive \
               distances / distance to a stored point or to the point of rank 0..7 moved by -3..3 ulps / beyond the diameter; k additionally 2n, 2^20, 2^40, usize::MAX/2, usize::MAX-1, usize::MAX)); \
               a large structured stratum (n 500..=2000 derived from a seed: diagonal, collinear strip, lattice, two-scale clusters; ~100 stored-point queries with radii a few ulps around the distance to a near neighbour; leaf 1/16/64); \
               point sets a few ulps apart; offset clouds (small integers + 2^13 (f32) / 2^27 (f64) per coordinate, dim mostly 8..=32); random bytes through case_from_bytes; plus an exhaustive stratum of all multisets over {0..3} (1-D) and subsets of the 3x3 grid (2-D). \
               Non-trivial = some query has an exact distance tie at rank k, or a stored point exactly on the radius (reduced distance bit-equal to the \
               reduced radius), or leaf size < n/4 (the trees really branch); distinct = distinct canonical JSON of the case",
        assumptions: vec![
            "coordinates are finite with |x| <= 1e6 (f32) / 4e8 (f64) (NaN/infinite input is documented as unspecified); batch layouts: row-major, column-major owned, transposed view, every-second-row view, reversed-rows view; query views contiguous or strided: every answer must be right; the only accepted panic is KdTree's documented \"views should be contiguous\" when a stored row or the query really is not contiguous (LinearSearch and BallTree must answer for every layout); Lp exponents >= 1 (triangle inequality is a documented precondition)".into(),
            "reference = linear scan with the crate's own Distance::rdistance(query, row) in the element type; comparisons on these values are exact".into(),
            format!("k-nearest: as sorted lists the returned distances may exceed the true ones by {} eps (relative); for BallTree, and for KdTree under Lp (box bound through powf), additionally by {} (dim+8) eps M absolute, M = largest query-to-point distance (rounding of the sphere bound distance(q,centre) - radius)", oracle::BAND_EPS, oracle::GEO_EPS),
            format!("range: a point must be present if rd < r'(1 - {0} eps) (BallTree / KdTree-Lp: and distance < radius - the allowance above), must be absent if rd > r'(1 + {0} eps); rd == r' bit-for-bit: free but all three kinds must choose alike; other points in the band are free", oracle::BAND_EPS),
            format!("Distance functions against formulas evaluated in f64: |a-b| <= {} eps max(|a|,|b|) + min_positive; conversions round-trip within {} eps; order preservation is exact", oracle::FORMULA_EPS, oracle::BAND_EPS),
            "exact geometry: when the reduced distance of a point equals the real number (checked with integer arithmetic on coordinates that are multiples of 2^-20; L1/L2/Linf) no band and no allowance applies to it: rd < r' means the point IS strictly inside (r' is the nearest float to the real reduced radius and rd is a float), so every kind must return it; rd > r' must be absent; k-nearest distances must then be equal, not close".into(),
            "entry points: every case builds the three kinds through one of {CommonNearestNeighbour enum, unit structs LinearSearch/KdTree/BallTree, direct constructors *Index::new, enum from_batch, struct from_batch}; a malformed build (0 columns, or leaf size 0 where the entry point takes a leaf size) is tried through all of them and must be Err through each".into(),
            "malformed input (0 columns, leaf size 0, query length != dim) must give Err from build / both query kinds; a panic or an answer is a failure".into(),
        ],
        subs: vec![
            prop_sub("indices", 100000, 1200000, index_strategy, check_case).chunks(16).require(&[
                "pts_lattice", "pts_all_equal", "pts_duplicates", "n_0", "n_1", "k_0", "k_gt_n", "tie_at_rank_k",
                "point_exactly_on_radius", "leaf_lt_quarter_n", "elem_f32", "metric_lp", "radius_zero",
                "layout_col_major_owned", "layout_transposed_view", "layout_strided_rows", "layout_reversed_rows", "q_strided_view",
                "entry_enum", "entry_struct", "entry_direct", "entry_enum_from_batch", "entry_struct_from_batch",
            ]),
            enum_sub("small_exhaustive", |t: Tier| gen::small_exhaustive(t == Tier::Thorough), check_case).chunks(8),
            prop_sub("malformed", 6000, 60000, |_t: Tier| gen::case_strategy(12, Malformed::Always), check_case)
                .chunks(4)
                .require(&["malformed_zero_dim", "malformed_zero_leaf", "malformed_query_dimension"]),
            prop_sub("adjacent_floats", 1500, 20000, |_t: Tier| gen::adjacent_strategy(), check_case)
                .chunks(8)
                .require(&["kd_degenerate_split_predicted"]),
            // wide points far from the origin with small exact gaps (cancellation in expanded distance formulas)
            prop_sub("offset_cloud", 8000, 80000, |_t: Tier| gen::offset_strategy(), check_case).chunks(8).require(&["dim_9to16", "exact_geometry", "metric_l2", "elem_f32"]),
            // many points: spheres whose radius is large against the query radius (cancellation in `distance - radius`)
            prop_sub("large_structured", 40, 600, |t: Tier| gen::large_strategy(t.pick(96, 128)), check_large)
                .chunks(8)
                .require(&["exact_point_ulps_inside_radius", "tie_at_rank_k"]),
            // the byte decoder a coverage-guided target will use, driven by random bytes: same oracle
            prop_sub(
                "bytes",
                20000,
                200000,
                |_t: Tier| proptest::collection::vec(any::<u8>(), 6..260).prop_filter_map("header too short", |b| case_from_bytes(&b)),
                check_case,
            )
            .chunks(4),
            prop_sub("distance", 40000, 400000, |_t: Tier| gen::dist_case_strategy(), check_distance).chunks(4),
        ],
    }
}
