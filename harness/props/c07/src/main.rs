fn main() {
    vengine::main(c07::property())
}
