//! Plain-data case of the nearest-neighbour check, and a total byte decoder for coverage-guided drivers.

use serde::{Deserialize, Serialize};

/// Largest coordinate magnitude the oracle judges (keeps every p-th power finite in `f32`).
pub const MAX_ABS_COORD: f64 = 1.0e6;
/// the same bound for f64 cases (offset clouds sit at 2^27)
pub const MAX_ABS_COORD_F64: f64 = 4.0e8;
pub const MAX_DIM: usize = 64;
pub const MAX_POINTS: usize = 4096;

#[derive(Debug, Clone, Copy, PartialEq, Serialize, Deserialize)]
pub enum Metric {
    L1,
    L2,
    LInf,
    /// Minkowski exponent; only p >= 1 is a metric (documented precondition: triangle inequality)
    Lp(f64),
}

/// How the point set was constructed (label only; the oracle never looks at it).
#[derive(Debug, Clone, Copy, PartialEq, Eq, Serialize, Deserialize)]
pub enum PointClass {
    Lattice,
    AllEqual,
    Duplicates,
    Clustered,
    Uniform,
    Collinear,
    Rough,
    /// coordinates a few ulps apart (adjacent floats of the element type)
    AdjacentFloats,
    /// small integers translated by a large common offset (2^13 for f32, 2^27 for f64), mostly >= 8 coordinates
    OffsetCloud,
    /// hundreds to thousands of collinear / lattice / two-scale points derived from a seed
    LargeStructured,
    Bytes,
}

/// How the query point was constructed (label only).
#[derive(Debug, Clone, Copy, PartialEq, Eq, Serialize, Deserialize)]
pub enum QueryClass {
    Stored,
    Lattice,
    Midpoint,
    CellCentre,
    Far,
    Other,
    WrongLength,
}

/// Memory layout of the batch handed to the builders (the logical n x dim content is always `points`).
#[derive(Debug, Clone, Copy, PartialEq, Eq, Default, Serialize, Deserialize)]
pub enum Layout {
    /// owned, standard (row-major) layout
    #[default]
    RowMajor,
    /// owned, column-major (`.f()`) layout
    ColMajorOwned,
    /// `.t()` view of a dim x n standard array
    TransposedView,
    /// every second row of a 2n x dim array whose other rows hold junk
    StridedRows,
    /// view with a negative row stride over an array holding the rows in reverse order
    ReversedRows,
}

/// Public entry point through which the three indices are built.
#[derive(Debug, Clone, Copy, PartialEq, Eq, Default, Serialize, Deserialize)]
pub enum Entry {
    /// `CommonNearestNeighbour::X.from_batch_with_leaf_size`
    #[default]
    Enum,
    /// `LinearSearch` / `KdTree` / `BallTree` unit structs, `from_batch_with_leaf_size`
    Struct,
    /// `LinearSearchIndex::new` (takes no leaf size) / `KdTreeIndex::new` / `BallTreeIndex::new`
    Direct,
    /// `CommonNearestNeighbour::X.from_batch` (default leaf size)
    EnumDefaultLeaf,
    /// unit structs, `from_batch` (default leaf size)
    StructDefaultLeaf,
}

pub const ALL_ENTRIES: [Entry; 5] = [Entry::Enum, Entry::Struct, Entry::Direct, Entry::EnumDefaultLeaf, Entry::StructDefaultLeaf];
pub const ALL_LAYOUTS: [Layout; 5] = [Layout::RowMajor, Layout::ColMajorOwned, Layout::TransposedView, Layout::StridedRows, Layout::ReversedRows];

#[derive(Debug, Clone, PartialEq, Serialize, Deserialize)]
pub enum Radius {
    /// literal radius (>= 0, finite)
    Abs(f64),
    /// exactly the crate's `distance(query, stored[idx])` (idx mapped monotonically into 0..n; 0 if n = 0)
    ToPoint(u16),
    /// the crate's `distance(query, stored[idx])` moved by the given number of ulps of the element type
    /// (positive = up): radii a few ulps above / below an exact inter-point distance
    ToPointUlps(u16, i8),
    /// the crate's `distance(query, p)` for the stored point p at the given rank of the brute-force order
    /// (0 = nearest; clamped to n-1), moved by the given number of ulps
    ToRankUlps(u16, i8),
    /// half-way between two consecutive distinct query-to-point distances (gap index mapped monotonically)
    Between(u16),
    /// larger than the diameter of {query} ∪ points
    Beyond,
}

#[derive(Debug, Clone, Serialize, Deserialize)]
pub struct Query {
    pub point: Vec<f64>,
    pub class: QueryClass,
    pub k: usize,
    pub radius: Radius,
    /// hand the query over as a strided 1-D view (every second element of a doubled array)
    #[serde(default)]
    pub strided: bool,
}

#[derive(Debug, Clone, Serialize, Deserialize)]
pub struct Case {
    /// element type: `true` = f32, `false` = f64 (coordinates are converted with `as`-like casts)
    pub single: bool,
    pub metric: Metric,
    pub class: PointClass,
    /// number of columns; 0 = malformed build
    pub dim: usize,
    /// n rows of `dim` coordinates
    pub points: Vec<Vec<f64>>,
    /// leaf size; 0 = malformed build
    pub leaf: usize,
    /// a query whose length differs from `dim` is a malformed query
    pub queries: Vec<Query>,
    #[serde(default)]
    pub layout: Layout,
    #[serde(default)]
    pub entry: Entry,
}

struct Bytes<'a> {
    data: &'a [u8],
    pos: usize,
}

impl<'a> Bytes<'a> {
    /// next byte; 0 once the input is exhausted (total)
    fn u8(&mut self) -> u8 {
        let b = self.data.get(self.pos).copied().unwrap_or(0);
        self.pos = self.pos.saturating_add(1);
        b
    }
    fn i8(&mut self) -> i8 {
        self.u8() as i8
    }
    fn u16(&mut self) -> u16 {
        let lo = self.u8() as u16;
        let hi = self.u8() as u16;
        lo | (hi << 8)
    }
    fn coord(&mut self, mode: u8) -> f64 {
        match mode % 4 {
            0 => (self.i8() % 5) as f64,            // small integer lattice -4..=4
            1 => (self.i8() as f64) / 2.0,           // half-integer lattice
            2 => (self.i8() as f64) / 16.0,          // fine grid
            _ => (self.u16() as i16 as f64) / 512.0, // wide grid
        }
    }
}

/// Decodes a byte string into a case (hand-written, total, never panics). `None` only for inputs
/// shorter than the 6-byte header.
pub fn case_from_bytes(data: &[u8]) -> Option<Case> {
    if data.len() < 6 {
        return None;
    }
    let mut b = Bytes { data, pos: 0 };
    let flags = b.u8();
    let single = flags & 1 == 1;
    let layout = ALL_LAYOUTS[((flags >> 4) as usize) % 8 % ALL_LAYOUTS.len()];
    let metric = match (flags >> 1) & 7 {
        0 => Metric::L1,
        1 => Metric::L2,
        2 => Metric::LInf,
        3 => Metric::Lp(1.5),
        4 => Metric::Lp(3.0),
        5 => Metric::Lp(1.0),
        6 => Metric::Lp(2.0),
        _ => Metric::Lp(4.0),
    };
    let v = (b.u8() % 20) as usize;
    let dim = if v > 16 { v - 16 } else { v }; // 0 (malformed) .. 16, small dims more likely
    let leaf = (b.u8() % 20) as usize; // 0 = malformed
    let n = (b.u8() % 33) as usize;
    let mode = b.u8();
    let entry = ALL_ENTRIES[((mode / 4) as usize) % 8 % ALL_ENTRIES.len()];
    let nq = 1 + (b.u8() % 3) as usize;
    let mut points = Vec::with_capacity(n);
    for _ in 0..n {
        let mut row = Vec::with_capacity(dim);
        for _ in 0..dim {
            row.push(b.coord(mode));
        }
        points.push(row);
    }
    let mut queries = Vec::with_capacity(nq);
    for _ in 0..nq {
        let qmode = b.u8();
        // k from 0 beyond n, including values no collection could ever be sized for
        let kb = b.u8();
        let k = match kb {
            249 => 2 * n,
            250 => 1usize << 20,
            251 => ((1u64 << 40).min(usize::MAX as u64)) as usize,
            252 => usize::MAX / 2,
            253 => usize::MAX - 1,
            254 | 255 => usize::MAX,
            _ => (kb as usize) % (n + 4),
        };
        let rmode = b.u8();
        let rarg = b.u16();
        let radius = match rmode % 6 {
            0 => Radius::Abs((rarg % 16) as f64),
            1 => Radius::ToPoint(rarg),
            2 => Radius::Between(rarg),
            3 => Radius::Beyond,
            4 => Radius::ToPointUlps(rarg, ((rmode / 6) as i8 % 7) - 3),
            _ => Radius::Abs((rarg as f64) / 64.0),
        };
        let (point, class) = match qmode % 8 {
            0 | 1 if n > 0 => {
                let i = (b.u8() as usize) % n;
                (points.get(i).cloned().unwrap_or_default(), QueryClass::Stored)
            }
            2 if n > 0 => {
                // cell centre next to a stored point
                let i = (b.u8() as usize) % n;
                let p: Vec<f64> = points.get(i).cloned().unwrap_or_default().iter().map(|x| x + 0.5).collect();
                (p, QueryClass::CellCentre)
            }
            7 => {
                // wrong length (unless the decoded length happens to equal dim)
                let len = (b.u8() % 20) as usize;
                let p: Vec<f64> = (0..len).map(|_| b.coord(mode)).collect();
                let class = if len == dim { QueryClass::Other } else { QueryClass::WrongLength };
                (p, class)
            }
            _ => {
                let p: Vec<f64> = (0..dim).map(|_| b.coord(mode)).collect();
                (p, QueryClass::Other)
            }
        };
        queries.push(Query { point, class, k, radius, strided: qmode & 8 != 0 });
    }
    Some(Case { single, metric, class: PointClass::Bytes, dim, points, leaf, queries, layout, entry })
}
