//! Predictor + out-of-process probe for one specific way the k-d tree build can fail to terminate.
//!
//! `kdtree::KdTree::split` (kdtree 0.6.0, used by `linfa_nn::KdTreeIndex::new`) splits an over-full
//! bucket at `min + (max - min) / 2` of its widest dimension and sends `p < split` to the left. If
//! `min` and `max` are adjacent floats and the midpoint rounds to `min`, the left half is empty, the
//! right half is the same bucket with the same bounds, and the build recurses until the stack overflows
//! (SIGABRT, not catchable in-process). The predictor replays the insertion sequence with the same
//! arithmetic and reports whether some split leaves one side empty; the probe then *observes* the real
//! build in a child process so that the recorded failure is an observation, not a prediction.

use crate::case::Case;
use linfa::Float;
use ndarray::Array2;
use std::sync::atomic::{AtomicBool, AtomicU64, Ordering};

struct Node<F> {
    left: Option<Box<Node<F>>>,
    right: Option<Box<Node<F>>>,
    size: usize,
    min: Vec<F>,
    max: Vec<F>,
    split_value: Option<F>,
    split_dim: Option<usize>,
    points: Option<Vec<usize>>,
}

struct Sim<'a, F> {
    batch: &'a Array2<F>,
    capacity: usize,
    degenerate: bool,
    steps: usize,
}

impl<F: Float> Node<F> {
    fn new(dim: usize) -> Self {
        Node {
            left: None,
            right: None,
            size: 0,
            min: vec![F::infinity(); dim],
            max: vec![F::neg_infinity(); dim],
            split_value: None,
            split_dim: None,
            points: Some(vec![]),
        }
    }
    fn is_leaf(&self) -> bool {
        self.points.is_some() && self.split_value.is_none() && self.split_dim.is_none() && self.left.is_none() && self.right.is_none()
    }
}

impl<'a, F: Float> Sim<'a, F> {
    fn coord(&self, p: usize, d: usize) -> F {
        self.batch.get((p, d)).copied().unwrap_or_else(F::zero)
    }
    fn extend(&self, node: &mut Node<F>, p: usize) {
        for d in 0..node.min.len() {
            let v = self.coord(p, d);
            if v < node.min[d] {
                node.min[d] = v;
            }
            if v > node.max[d] {
                node.max[d] = v;
            }
        }
    }
    fn belongs_in_left(&self, node: &Node<F>, p: usize) -> bool {
        match (node.split_dim, node.split_value) {
            (Some(d), Some(v)) => self.coord(p, d) < v,
            _ => false,
        }
    }
    fn add(&mut self, node: &mut Node<F>, p: usize) {
        if self.degenerate {
            return;
        }
        if node.is_leaf() {
            self.add_to_bucket(node, p);
            return;
        }
        self.extend(node, p);
        node.size += 1;
        let left = self.belongs_in_left(node, p);
        let next = if left { node.left.as_mut() } else { node.right.as_mut() };
        if let Some(next) = next {
            self.add(next, p);
        }
    }
    fn add_to_bucket(&mut self, node: &mut Node<F>, p: usize) {
        self.extend(node, p);
        let mut points = node.points.take().unwrap_or_default();
        points.push(p);
        node.size += 1;
        if node.size > self.capacity {
            self.split(node, points);
        } else {
            node.points = Some(points);
        }
    }
    fn split(&mut self, node: &mut Node<F>, mut points: Vec<usize>) {
        self.steps += 1;
        if self.degenerate || self.steps > 1_000_000 {
            self.degenerate = true;
            return;
        }
        let mut max = F::zero();
        for d in 0..node.min.len() {
            let diff = node.max[d] - node.min[d];
            if !diff.is_nan() && diff > max {
                max = diff;
                node.split_dim = Some(d);
            }
        }
        match node.split_dim {
            None => {
                node.points = Some(points);
                return;
            }
            Some(d) => {
                let (lo, hi) = (node.min[d], node.max[d]);
                node.split_value = Some(lo + (hi - lo) / F::cast(2.0));
            }
        }
        let n_left = points.iter().filter(|p| self.belongs_in_left(node, **p)).count();
        if n_left == 0 || n_left == points.len() {
            // the child receives the same bucket with the same bounds: the real build never returns
            self.degenerate = true;
            return;
        }
        let dim = node.min.len();
        let mut left = Box::new(Node::new(dim));
        let mut right = Box::new(Node::new(dim));
        while !points.is_empty() {
            let p = points.swap_remove(0);
            if self.belongs_in_left(node, p) {
                self.add_to_bucket(&mut left, p);
            } else {
                self.add_to_bucket(&mut right, p);
            }
        }
        node.left = Some(left);
        node.right = Some(right);
    }
}

/// `true` iff replaying `KdTreeIndex::new(batch, leaf, _)` reaches a split that leaves one side empty.
pub fn build_recurses<F: Float>(batch: &Array2<F>, leaf: usize) -> bool {
    if leaf == 0 || batch.ncols() == 0 {
        return false;
    }
    let mut sim = Sim { batch, capacity: leaf, degenerate: false, steps: 0 };
    let mut root = Node::new(batch.ncols());
    for p in 0..batch.nrows() {
        sim.add(&mut root, p);
        if sim.degenerate {
            return true;
        }
    }
    false
}

// ------------------------------------------------------------------------------------------------

static PROBE_ENABLED: AtomicBool = AtomicBool::new(false);
static PROBE_SEQ: AtomicU64 = AtomicU64::new(0);
pub const PROBE_ENV: &str = "C07_KD_PROBE";

/// Allow `check_case` to re-run a predicted-degenerate k-d tree build in a child process of the
/// current executable (`--replay <file> --replay-child`). Only the harness binary enables this; a
/// fuzz target leaves it off and such cases merely skip the k-d tree.
pub fn enable_probe(on: bool) {
    PROBE_ENABLED.store(on, Ordering::SeqCst);
}

pub fn in_probe_child() -> bool {
    std::env::var_os(PROBE_ENV).is_some()
}

pub enum Probe {
    Unavailable,
    Survived,
    Died(String),
}

/// Builds the three indices of `c` (no queries) in a child process and reports whether it survived.
pub fn probe_build(c: &Case, sub: &str) -> Probe {
    if !PROBE_ENABLED.load(Ordering::SeqCst) {
        return Probe::Unavailable;
    }
    // (a real path, not /proc/self/exe: the probe is exec'ed from inside a shell, where /proc/self/exe is the shell)
    let Ok(exe) = std::env::current_exe() else { return Probe::Unavailable };
    let root = std::env::var("VERIF_ROOT").unwrap_or_else(|_| "/verif".into());
    let dir = std::path::Path::new(&root).join("work").join("C07-probe");
    if std::fs::create_dir_all(&dir).is_err() {
        return Probe::Unavailable;
    }
    let seq = PROBE_SEQ.fetch_add(1, Ordering::SeqCst);
    let path = dir.join(format!("probe-{}-{}.json", std::process::id(), seq));
    let mut stripped = c.clone();
    stripped.queries.clear();
    let body = serde_json::json!({"property": "C07", "sub": sub, "case": stripped});
    if std::fs::write(&path, body.to_string()).is_err() {
        return Probe::Unavailable;
    }
    // a small stack and no core file make the expected stack overflow cheap; plain spawn if there is no shell
    let run = |cmd: &mut std::process::Command| {
        cmd.arg("--replay")
            .arg(&path)
            .arg("--replay-child")
            .env(PROBE_ENV, "1")
            .stdout(std::process::Stdio::null())
            .stderr(std::process::Stdio::null())
            .status()
    };
    let mut shell = std::process::Command::new("sh");
    shell.arg("-c").arg("ulimit -c 0 2>/dev/null; ulimit -s 1024 2>/dev/null; exec \"$0\" \"$@\"").arg(&exe);
    let st = run(&mut shell).or_else(|_| run(&mut std::process::Command::new(&exe)));
    let _ = std::fs::remove_file(&path);
    match st {
        Err(_) => Probe::Unavailable,
        Ok(s) => match s.code() {
            Some(_) => Probe::Survived,
            None => Probe::Died(format!("{s}")),
        },
    }
}
