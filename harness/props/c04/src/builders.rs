//! The range table and, per builder, the typed glue that exercises `check_ref`, `check` and the
//! training entry points.

use crate::core::{dbg, fit_core, guard_core, CountDist, CountRng, Ctx, Probe};
use crate::data;
use crate::spec::{p, p32, Dom::*, Expect};
use crate::{no_cross, no_narrow, Builder};
use linfa::dataset::DatasetBase;
use linfa::traits::{Fit, FitWith, Transformer};
use linfa::ParamGuard;
use std::sync::OnceLock;
use vengine::Obs;

const TINY: f64 = f64::MIN_POSITIVE;

pub fn registry() -> &'static [Builder] {
    static REG: OnceLock<Vec<Builder>> = OnceLock::new();
    REG.get_or_init(|| {
        let mut v = vec![];
        v.extend(clustering::builders());
        v.extend(linear::builders());
        v.extend(svm::builders());
        v.extend(misc::builders());
        v.extend(reduction::builders());
        v.extend(text::builders());
        v
    })
}

pub fn assumptions() -> Vec<String> {
    [
        "documented range = setter doc comment + struct-level parameter table + crate-level docs + text of the crate's parameter-error variants (DESIGN Appendix A, every row re-read on the pinned tree)",
        "all generated values are finite, no NaN / inf / -0.0; every builder is instantiated with f64 (CountVectorizer: its native f32, grid values exactly representable)",
        "'just below / just inside' a bound = the adjacent representable number (0 -> +-f64::MIN_POSITIVE, f32::MIN_POSITIVE for f32 parameters)",
        "verdict NOT asserted (consistency obligations only) where the documentation disagrees with itself or is silent at the bound: value 0 of elastic-net tolerance (table '(0, inf)' vs error list 'negative'), elastic-net max_iterations = 0 (table '[1, inf)' vs documented error list without such an error), logistic alpha = 0 and FTRL alpha = 0 and FastICA tol = 0 and Platt minstep/sigma = 0 ('positive' while 0 is accepted), GMM reg_covar = 0 (setter 'non-negative' vs error text 'must be positive'), SVM nu = 0 (setter '[0, 1]' vs crate docs '(0, 1]'), SVM solver eps = 0 and hierarchical max_distance = 0 (no wording for the bound), t-SNE approx_threshold = 0 ('range (0, inf) where a value of 0 disables approximation'), SVR loss epsilon <= 0 (no documented range), decision-tree min_impurity_decrease in (0, machine eps)",
        "FTRL beta = 0 is treated as in range (documented default) although the wording is 'positive'",
        "parameters without a documented range stay at their defaults and are not part of any verdict: iteration caps of logistic regression / Tweedie / FastICA / t-SNE, min_weight_split, min_weight_leaf, max_depth, SVR-nu regulariser c, k-means init method, kernels",
        "entry points on a rejected builder: Err text must equal Display of E::from(check_ref error) (the entry point's own From conversion); a panic or Ok is a failure; probes (counting Rng, counting Distance, counting model for Platt) must stay untouched where the builder takes one",
        "entry points on an accepted builder are compared with the checked form (Debug text or PartialEq of the fitted model, partition for hierarchical clustering whose ids follow HashMap order, sorted vocabulary for CountVectorizer, output shape only for t-SNE) only when every value lies in the per-parameter interval the tiny training run is exercised with (e.g. not with Platt minstep = 0 or SVM eps = 0, where training does not terminate in reasonable time); otherwise only check/check_ref are exercised",
        "a training failure that depends on the data (power method not converged, Platt not converged, JL dimension larger than the feature count) is an accepted outcome when the unchecked builder and the checked form fail with the same text",
        "linfa_clustering::AppxDbscan is an alias of Dbscan in the pinned tree (its own hyperparams module is not compiled), so it has no separate row",
    ]
    .iter()
    .map(|s| s.to_string())
    .collect()
}

fn eq<T: PartialEq>(a: &T, b: &T) -> bool {
    a == b
}
/// equal by `PartialEq`, or (NaN-tolerant) by `Debug` text
fn eqd<T: PartialEq + std::fmt::Debug>(a: &T, b: &T) -> bool {
    a == b || dbg(a, b)
}

mod clustering {
    use super::*;
    use linfa_clustering::{
        Dbscan, GaussianMixtureModel, GmmError, IncrKMeansError, KMeans, KMeansError, Optics,
    };
    use linfa_nn::CommonNearestNeighbour;

    pub fn builders() -> Vec<Builder> {
        vec![
            Builder {
                id: "kmeans",
                params: vec![
                    p("n_clusters", CountGe(1), 2.0, &[3.0], (1.0, 4.0)),
                    p("n_runs", CountGe(1), 10.0, &[3.0], (1.0, 10.0)),
                    p("tolerance", Gt(0.0), 1e-4, &[0.37], (TINY, 10.0)),
                    p("max_n_iterations", CountGe(1), 300.0, &[7.0], (1.0, 300.0)),
                ],
                cross: no_cross,
                narrow: no_narrow,
                run: kmeans,
            },
            Builder {
                id: "dbscan",
                params: vec![
                    p("min_points", CountGe(2), 3.0, &[5.0], (2.0, 8.0)),
                    p("tolerance", Gt(0.0), 1e-4, &[0.8], (TINY, 10.0)),
                ],
                cross: no_cross,
                narrow: no_narrow,
                run: dbscan,
            },
            Builder {
                id: "optics",
                params: vec![
                    p("min_points", CountGe(2), 3.0, &[5.0], (2.0, 8.0)),
                    p("tolerance", Gt(0.0), 3.0, &[0.8], (TINY, 10.0)),
                ],
                cross: no_cross,
                narrow: no_narrow,
                run: optics,
            },
            Builder {
                id: "gmm",
                params: vec![
                    p("n_clusters", CountGe(1), 2.0, &[3.0], (1.0, 3.0)),
                    p("tolerance", Gt(0.0), 1e-3, &[0.05], (1e-6, 1.0)),
                    p("reg_covar", GeAmb(0.0), 1e-6, &[1e-3], (1e-9, 1.0)),
                    p("n_runs", CountGe(1), 1.0, &[3.0], (1.0, 3.0)),
                    p("max_n_iterations", CountGe(1), 100.0, &[7.0], (1.0, 100.0)),
                ],
                cross: no_cross,
                narrow: no_narrow,
                run: gmm,
            },
        ]
    }

    fn kmeans(cx: &Ctx, obs: &mut Obs) {
        let (k, runs, tol, iters) = (cx.u(0), cx.u(1), cx.v(2), cx.u(3) as u64);
        let (rp, dp) = (Probe::new(), Probe::new());
        let mk = || {
            KMeans::params_with(k, CountRng::new(cx.seed, &rp), CountDist(dp.clone()))
                .n_runs(runs)
                .tolerance(tol)
                .max_n_iterations(iters)
        };
        let Some(v) = guard_core(
            obs,
            cx,
            &mk,
            Some(&eq),
            Some(&eq),
            Some(&|c| vec![c.n_clusters() as f64, c.n_runs() as f64, c.tolerance(), c.max_n_iterations() as f64]),
        ) else {
            return;
        };
        let ds = DatasetBase::from(data::blobs(cx.seed, 12, 2));
        let touched = || rp.get() + dp.get();
        fit_core(
            obs,
            cx,
            &v,
            "fit",
            || -> Result<_, KMeansError> { mk().fit(&ds) },
            || mk().check().map_err(KMeansError::from).and_then(|c| c.fit(&ds)),
            || mk().check_ref().err().map(|e| KMeansError::from(e).to_string()),
            &touched,
            dbg,
        );
        // incremental entry point: a not-yet-converged model is a normal outcome, compare the models
        type IE = IncrKMeansError<KMeans<f64, CountDist>>;
        let unwrap = |r: Result<KMeans<f64, CountDist>, IE>| match r {
            Err(IncrKMeansError::NotConverged(m)) => Ok(m),
            other => other,
        };
        fit_core(
            obs,
            cx,
            &v,
            "fit_with",
            || -> Result<_, IE> { unwrap(mk().fit_with(None, &ds)) },
            || mk().check().map_err(IE::from).and_then(|c| unwrap(c.fit_with(None, &ds))),
            || mk().check_ref().err().map(|e| IE::from(e).to_string()),
            &touched,
            dbg,
        );
    }

    fn nn(seed: u64) -> CommonNearestNeighbour {
        match seed % 3 {
            0 => CommonNearestNeighbour::LinearSearch,
            1 => CommonNearestNeighbour::KdTree,
            _ => CommonNearestNeighbour::BallTree,
        }
    }

    fn dbscan(cx: &Ctx, obs: &mut Obs) {
        let (mp, tol) = (cx.u(0), cx.v(1));
        let dp = Probe::new();
        let mk = || Dbscan::params_with(mp, CountDist(dp.clone()), nn(cx.seed)).tolerance(tol);
        let Some(v) = guard_core(
            obs,
            cx,
            &mk,
            Some(&eq),
            Some(&eq),
            Some(&|c| vec![c.minimum_points() as f64, c.tolerance()]),
        ) else {
            return;
        };
        let x = data::blobs(cx.seed, 12, 2);
        fit_core(
            obs,
            cx,
            &v,
            "transform",
            || mk().transform(&x),
            || mk().check().map(|c| c.transform(&x)),
            || mk().check_ref().err().map(|e| e.to_string()),
            &|| dp.get(),
            dbg,
        );
    }

    fn optics(cx: &Ctx, obs: &mut Obs) {
        let (mp, tol) = (cx.u(0), cx.v(1));
        let dp = Probe::new();
        let mk = || Optics::params_with(mp, CountDist(dp.clone()), nn(cx.seed)).tolerance(tol);
        let Some(v) = guard_core(
            obs,
            cx,
            &mk,
            Some(&eq),
            Some(&eq),
            Some(&|c| vec![c.minimum_points() as f64, c.tolerance()]),
        ) else {
            return;
        };
        let x = data::blobs(cx.seed, 12, 2);
        fit_core(
            obs,
            cx,
            &v,
            "transform",
            || mk().transform(x.view()),
            || mk().check().map(|c| c.transform(x.view())),
            || mk().check_ref().err().map(|e| e.to_string()),
            &|| dp.get(),
            dbg,
        );
    }

    fn gmm(cx: &Ctx, obs: &mut Obs) {
        let (k, tol, reg, runs, iters) = (cx.u(0), cx.v(1), cx.v(2), cx.u(3) as u64, cx.u(4) as u64);
        let rp = Probe::new();
        let mk = || {
            GaussianMixtureModel::params_with_rng(k, CountRng::new(cx.seed, &rp))
                .tolerance(tol)
                .reg_covariance(reg)
                .n_runs(runs)
                .max_n_iterations(iters)
        };
        let Some(v) = guard_core(
            obs,
            cx,
            &mk,
            Some(&eq),
            Some(&eq),
            Some(&|c| {
                vec![c.n_clusters() as f64, c.tolerance(), c.reg_covariance(), c.n_runs() as f64, c.max_n_iterations() as f64]
            }),
        ) else {
            return;
        };
        let ds = DatasetBase::from(data::blobs(cx.seed, 16, 2));
        fit_core(
            obs,
            cx,
            &v,
            "fit",
            || -> Result<_, GmmError> { mk().fit(&ds) },
            || mk().check().and_then(|c| c.fit(&ds)),
            || mk().check_ref().err().map(|e| e.to_string()),
            &|| rp.get(),
            dbg,
        );
    }
}

mod linear {
    use super::*;
    use linfa_elasticnet::{ElasticNetError, ElasticNetParams, MultiTaskElasticNetParams};
    use linfa_linear::{LinearError, TweedieRegressor};
    use linfa_logistic::{LogisticRegression, MultiLogisticRegression};

    fn enet_params() -> Vec<crate::spec::ParamSpec> {
        vec![
            p("penalty", Ge(0.0), 1.0, &[0.05], (0.0, 10.0)),
            p("l1_ratio", Closed(0.0, 1.0), 0.5, &[0.25], (0.0, 1.0)),
            // range table says (0, inf), the error list says "negative", 0 is accepted: ambiguous at 0
            p("tolerance", GeAmb(0.0), 1e-4, &[1e-2], (1e-8, 1.0)),
            // range table says [1, inf) but the documented error list has no entry for it: ambiguous below 1
            p("max_iterations", CountGeAmbBelow(1), 1000.0, &[50.0], (1.0, 1000.0)),
        ]
    }

    pub fn builders() -> Vec<Builder> {
        vec![
            Builder { id: "elastic_net", params: enet_params(), cross: no_cross, narrow: no_narrow, run: enet },
            Builder { id: "multi_task_elastic_net", params: enet_params(), cross: no_cross, narrow: no_narrow, run: mt_enet },
            Builder {
                id: "logistic",
                params: vec![
                    // "alpha must be a positive, finite number" while 0 is accepted: ambiguous at 0
                    p("alpha", GeAmb(0.0), 1.0, &[0.1], (1e-6, 10.0)),
                    p("gradient_tolerance", Gt(0.0), 1e-4, &[1e-2], (1e-8, 1.0)),
                ],
                cross: no_cross,
                narrow: no_narrow,
                run: logistic,
            },
            Builder {
                id: "multi_logistic",
                params: vec![
                    p("alpha", GeAmb(0.0), 1.0, &[0.1], (1e-6, 10.0)),
                    p("gradient_tolerance", Gt(0.0), 1e-4, &[1e-2], (1e-8, 1.0)),
                ],
                cross: no_cross,
                narrow: no_narrow,
                run: multi_logistic,
            },
            Builder {
                id: "tweedie",
                params: vec![
                    p("alpha", Ge(0.0), 1.0, &[0.1], (0.0, 10.0)),
                    p("power", NotOpen(0.0, 1.0), 1.0, &[1.5, 2.0, 3.0], (0.0, 3.0)),
                ],
                cross: no_cross,
                narrow: no_narrow,
                run: tweedie,
            },
        ]
    }

    fn enet(cx: &Ctx, obs: &mut Obs) {
        let (pen, l1, tol, it) = (cx.v(0), cx.v(1), cx.v(2), cx.u(3) as u32);
        let mk = || ElasticNetParams::<f64>::new().penalty(pen).l1_ratio(l1).tolerance(tol).max_iterations(it);
        let Some(v) = guard_core(
            obs,
            cx,
            &mk,
            Some(&eq),
            Some(&eq),
            Some(&|c| vec![c.penalty(), c.l1_ratio(), c.tolerance(), c.max_iterations() as f64]),
        ) else {
            return;
        };
        let x = data::blobs(cx.seed, 10, 2);
        let y = data::regression_targets(&x, cx.seed);
        let ds = DatasetBase::new(x, y);
        fit_core(
            obs,
            cx,
            &v,
            "fit",
            || -> Result<_, ElasticNetError> { mk().fit(&ds) },
            || mk().check().and_then(|c| c.fit(&ds)),
            || mk().check_ref().err().map(|e| e.to_string()),
            &|| 0,
            dbg,
        );
    }

    fn mt_enet(cx: &Ctx, obs: &mut Obs) {
        let (pen, l1, tol, it) = (cx.v(0), cx.v(1), cx.v(2), cx.u(3) as u32);
        let mk = || MultiTaskElasticNetParams::<f64>::new().penalty(pen).l1_ratio(l1).tolerance(tol).max_iterations(it);
        let Some(v) = guard_core(
            obs,
            cx,
            &mk,
            Some(&eq),
            Some(&eq),
            Some(&|c| vec![c.penalty(), c.l1_ratio(), c.tolerance(), c.max_iterations() as f64]),
        ) else {
            return;
        };
        let x = data::blobs(cx.seed, 10, 2);
        let y1 = data::regression_targets(&x, cx.seed);
        let y2 = data::regression_targets(&x, cx.seed + 17);
        let y = ndarray::stack![ndarray::Axis(1), y1, y2];
        let ds = DatasetBase::new(x, y);
        fit_core(
            obs,
            cx,
            &v,
            "fit",
            || -> Result<_, ElasticNetError> { mk().fit(&ds) },
            || mk().check().and_then(|c| c.fit(&ds)),
            || mk().check_ref().err().map(|e| e.to_string()),
            &|| 0,
            dbg,
        );
    }

    fn logistic(cx: &Ctx, obs: &mut Obs) {
        let (alpha, gt) = (cx.v(0), cx.v(1));
        let mk = || LogisticRegression::<f64>::new().alpha(alpha).gradient_tolerance(gt).max_iterations(30);
        let Some(v) = guard_core(obs, cx, &mk, Some(&eq), Some(&eq), None) else {
            return;
        };
        let x = data::blobs(cx.seed, 10, 2);
        let ds = DatasetBase::new(x, data::class_targets(10, 2));
        fit_core(
            obs,
            cx,
            &v,
            "fit",
            || -> Result<_, linfa_logistic::error::Error> { mk().fit(&ds) },
            || mk().check().and_then(|c| c.fit(&ds)),
            || mk().check_ref().err().map(|e| e.to_string()),
            &|| 0,
            eqd,
        );
    }

    fn multi_logistic(cx: &Ctx, obs: &mut Obs) {
        let (alpha, gt) = (cx.v(0), cx.v(1));
        let mk = || MultiLogisticRegression::<f64>::new().alpha(alpha).gradient_tolerance(gt).max_iterations(30);
        let Some(v) = guard_core(obs, cx, &mk, Some(&eq), Some(&eq), None) else {
            return;
        };
        let x = data::blobs(cx.seed, 12, 2);
        let ds = DatasetBase::new(x, data::class_targets(12, 3));
        fit_core(
            obs,
            cx,
            &v,
            "fit",
            || -> Result<_, linfa_logistic::error::Error> { mk().fit(&ds) },
            || mk().check().and_then(|c| c.fit(&ds)),
            || mk().check_ref().err().map(|e| e.to_string()),
            &|| 0,
            eqd,
        );
    }

    fn tweedie(cx: &Ctx, obs: &mut Obs) {
        let (alpha, power) = (cx.v(0), cx.v(1));
        let mk = || TweedieRegressor::<f64>::params().alpha(alpha).power(power).max_iter(30);
        let Some(v) = guard_core(
            obs,
            cx,
            &mk,
            Some(&eq),
            Some(&eq),
            Some(&|c| vec![c.alpha(), c.power()]),
        ) else {
            return;
        };
        let x = data::blobs(cx.seed, 10, 2);
        let y = data::positive_targets(&x, cx.seed);
        let ds = DatasetBase::new(x, y);
        fit_core(
            obs,
            cx,
            &v,
            "fit",
            || -> Result<_, LinearError<f64>> { mk().fit(&ds) },
            || mk().check().and_then(|c| c.fit(&ds)),
            || mk().check_ref().err().map(|e| e.to_string()),
            &|| 0,
            eqd,
        );
    }
}

mod svm {
    use super::*;
    use linfa::dataset::Pr;
    use linfa::Platt;
    use linfa_svm::{Svm, SvmError, SvmParams};
    use ndarray::Array1;

    fn common() -> Vec<crate::spec::ParamSpec> {
        vec![
            // no doc comment states a range; the error variant only rejects negative values: 0 is left ambiguous
            p("eps", GeAmb(0.0), 1e-7, &[1e-3], (1e-9, 1.0)),
            p("platt_maxiter", CountGe(1), 100.0, &[30.0], (1.0, 100.0)),
            // "minstep should be positive" / "sigma should be positive" while 0 is accepted: ambiguous at 0
            p("platt_minstep", GeAmb(0.0), 1e-10, &[1e-6], (TINY, 1e-3)),
            p("platt_sigma", GeAmb(0.0), 1e-12, &[1e-6], (1e-14, 1e-3)),
        ]
    }
    fn with(mut head: Vec<crate::spec::ParamSpec>) -> Vec<crate::spec::ParamSpec> {
        head.extend(common());
        head
    }
    fn c_params() -> Vec<crate::spec::ParamSpec> {
        with(vec![
            // crate docs: "C ... should be in the interval (0, inf)"
            p("c_pos", Gt(0.0), 1.0, &[10.0], (1e-3, 100.0)),
            p("c_neg", Gt(0.0), 1.0, &[0.5], (1e-3, 100.0)),
        ])
    }
    fn nu_params() -> Vec<crate::spec::ParamSpec> {
        // crate docs: "(0, 1]"; setter doc: "[0, 1]"; 0 is rejected: ambiguous at 0
        with(vec![p("nu", LeftAmbClosed(0.0, 1.0), 0.5, &[0.25], (0.1, 0.9))])
    }

    pub fn builders() -> Vec<Builder> {
        vec![
            Builder { id: "svm_c_bool", params: c_params(), cross: no_cross, narrow: no_narrow, run: c_bool },
            Builder { id: "svm_nu_bool", params: nu_params(), cross: no_cross, narrow: no_narrow, run: nu_bool },
            Builder { id: "svm_c_pr", params: c_params(), cross: no_cross, narrow: no_narrow, run: c_pr },
            Builder { id: "svm_nu_pr", params: nu_params(), cross: no_cross, narrow: no_narrow, run: nu_pr },
            Builder { id: "svm_one_class", params: nu_params(), cross: no_cross, narrow: no_narrow, run: one_class },
            Builder {
                id: "svr_c",
                params: with(vec![
                    p("c", Gt(0.0), 1.0, &[10.0], (1e-3, 100.0)),
                    // no documented range for the loss epsilon, the code rejects <= 0: consistency only there
                    p("loss_eps", AmbNonPos, 0.1, &[0.01], (1e-4, 1.0)),
                ]),
                cross: no_cross,
                narrow: no_narrow,
                run: svr_c,
            },
            Builder { id: "svr_nu", params: nu_params(), cross: no_cross, narrow: no_narrow, run: svr_nu },
        ]
    }

    fn platt(cx: &Ctx, at: usize) -> linfa::platt_scaling::PlattParams<f64, ()> {
        Platt::params().maxiter(cx.u(at)).minstep(cx.v(at + 1)).sigma(cx.v(at + 2))
    }
    fn base<T>(cx: &Ctx, at: usize) -> SvmParams<f64, T> {
        Svm::<f64, T>::params().eps(cx.v(at)).with_platt_params(platt(cx, at + 1))
    }

    macro_rules! classification {
        ($name:ident, $t:ty, $nhead:expr, $set:expr, $read:expr) => {
            fn $name(cx: &Ctx, obs: &mut Obs) {
                let mk = || $set(base::<$t>(cx, $nhead), cx);
                let Some(v) = guard_core(obs, cx, &mk, Some(&eq), Some(&eq), Some(&$read)) else {
                    return;
                };
                let ds = DatasetBase::new(data::blobs(cx.seed, 10, 2), data::bool_targets(10));
                fit_core(
                    obs,
                    cx,
                    &v,
                    "fit",
                    || -> Result<_, SvmError> { mk().fit(&ds) },
                    || mk().check().and_then(|c| c.fit(&ds)),
                    || mk().check_ref().err().map(|e| e.to_string()),
                    &|| 0,
                    eqd,
                );
            }
        };
    }
    fn set_c<T>(b: SvmParams<f64, T>, cx: &Ctx) -> SvmParams<f64, T> {
        b.pos_neg_weights(cx.v(0), cx.v(1))
    }
    fn set_nu<T>(b: SvmParams<f64, T>, cx: &Ctx) -> SvmParams<f64, T> {
        b.nu_weight(cx.v(0))
    }
    fn read_c<T>(c: &linfa_svm::SvmValidParams<f64, T>) -> Vec<f64> {
        let (a, b) = c.c().unwrap_or((f64::NAN, f64::NAN));
        vec![a, b, c.solver_params().eps]
    }
    fn read_nu<T>(c: &linfa_svm::SvmValidParams<f64, T>) -> Vec<f64> {
        vec![c.nu().map(|x| x.0).unwrap_or(f64::NAN), c.solver_params().eps]
    }
    classification!(c_bool, bool, 2, set_c, read_c);
    classification!(nu_bool, bool, 1, set_nu, read_nu);
    classification!(c_pr, Pr, 2, set_c, read_c);
    classification!(nu_pr, Pr, 1, set_nu, read_nu);

    fn one_class(cx: &Ctx, obs: &mut Obs) {
        let mk = || set_nu(base::<Pr>(cx, 1), cx);
        let Some(v) = guard_core(obs, cx, &mk, Some(&eq), Some(&eq), Some(&read_nu)) else {
            return;
        };
        let ds = DatasetBase::new(data::blobs(cx.seed, 10, 2), Array1::from_elem(10, ()));
        fit_core(
            obs,
            cx,
            &v,
            "fit",
            || -> Result<Svm<f64, bool>, SvmError> { mk().fit(&ds) },
            || mk().check().and_then(|c| c.fit(&ds)),
            || mk().check_ref().err().map(|e| e.to_string()),
            &|| 0,
            eqd,
        );
    }

    fn svr_c(cx: &Ctx, obs: &mut Obs) {
        let mk = || base::<f64>(cx, 2).c_svr(cx.v(0), Some(cx.v(1)));
        let Some(v) = guard_core(obs, cx, &mk, Some(&eq), Some(&eq), Some(&read_c)) else {
            return;
        };
        let x = data::blobs(cx.seed, 10, 2);
        let y = data::regression_targets(&x, cx.seed);
        let ds = DatasetBase::new(x, y);
        fit_core(
            obs,
            cx,
            &v,
            "fit",
            || -> Result<_, SvmError> { mk().fit(&ds) },
            || mk().check().and_then(|c| c.fit(&ds)),
            || mk().check_ref().err().map(|e| e.to_string()),
            &|| 0,
            eqd,
        );
    }

    fn svr_nu(cx: &Ctx, obs: &mut Obs) {
        let mk = || base::<f64>(cx, 1).nu_svr(cx.v(0), None);
        let Some(v) = guard_core(obs, cx, &mk, Some(&eq), Some(&eq), Some(&read_nu)) else {
            return;
        };
        let x = data::blobs(cx.seed, 10, 2);
        let y = data::regression_targets(&x, cx.seed);
        let ds = DatasetBase::new(x, y);
        fit_core(
            obs,
            cx,
            &v,
            "fit",
            || -> Result<_, SvmError> { mk().fit(&ds) },
            || mk().check().and_then(|c| c.fit(&ds)),
            || mk().check_ref().err().map(|e| e.to_string()),
            &|| 0,
            eqd,
        );
    }
}

mod misc {
    use super::*;
    use linfa::composing::PlattError;
    use linfa::traits::PredictInplace;
    use linfa::Platt;
    use linfa_bayes::{GaussianNb, MultinomialNb, NaiveBayesError};
    use linfa_ftrl::{Ftrl, FtrlError};
    use linfa_hierarchical::{HierarchicalCluster, HierarchicalError};
    use linfa_kernel::{Kernel, KernelMethod};
    use linfa_trees::DecisionTree;
    use ndarray::{Array1, Array2};

    pub fn builders() -> Vec<Builder> {
        vec![
            Builder {
                id: "decision_tree",
                params: vec![p("min_impurity_decrease", TreeFloor, 1e-5, &[1e-3], (1e-12, 0.5))],
                cross: no_cross,
                narrow: no_narrow,
                run: tree,
            },
            Builder {
                id: "gaussian_nb",
                params: vec![p("var_smoothing", Ge(0.0), 1e-9, &[1e-3], (0.0, 1.0))],
                cross: no_cross,
                narrow: no_narrow,
                run: gnb,
            },
            Builder {
                id: "multinomial_nb",
                params: vec![p("alpha", Ge(0.0), 1.0, &[0.3], (0.0, 10.0))],
                cross: no_cross,
                narrow: no_narrow,
                run: mnb,
            },
            Builder {
                id: "ftrl",
                params: vec![
                    // "alpha must be positive and finite" while 0 is accepted: ambiguous at 0
                    p("alpha", GeAmb(0.0), 0.005, &[0.1], (1e-6, 1.0)),
                    // same wording, but 0.0 is the documented default: 0 is in range
                    p("beta", Ge(0.0), 0.0, &[0.5], (0.0, 10.0)),
                    p("l1_ratio", Closed(0.0, 1.0), 0.5, &[0.25], (0.0, 1.0)),
                    p("l2_ratio", Closed(0.0, 1.0), 0.5, &[0.75], (0.0, 1.0)),
                ],
                cross: no_cross,
                narrow: no_narrow,
                run: ftrl,
            },
            Builder {
                id: "platt",
                params: vec![
                    p("maxiter", CountGe(1), 100.0, &[30.0], (1.0, 100.0)),
                    p("minstep", GeAmb(0.0), 1e-10, &[1e-6], (TINY, 1e-3)),
                    p("sigma", GeAmb(0.0), 1e-12, &[1e-6], (1e-14, 1e-3)),
                ],
                cross: no_cross,
                narrow: no_narrow,
                run: platt,
            },
            Builder {
                id: "hierarchical_num_clusters",
                params: vec![p("num_clusters", CountGe(1), 2.0, &[3.0], (1.0, 12.0))],
                cross: no_cross,
                narrow: no_narrow,
                run: hier_num,
            },
            Builder {
                id: "hierarchical_max_distance",
                // no doc comment states the range; the code rejects negative values: 0 is left ambiguous
                params: vec![p("max_distance", GeAmb(0.0), 0.5, &[0.1, 3.0], (TINY, 100.0))],
                cross: no_cross,
                narrow: no_narrow,
                run: hier_dist,
            },
        ]
    }

    fn tree(cx: &Ctx, obs: &mut Obs) {
        let mid = cx.v(0);
        let mk = || DecisionTree::<f64, usize>::params().min_impurity_decrease(mid);
        let Some(v) = guard_core(obs, cx, &mk, Some(&eq), Some(&eq), Some(&|c| vec![c.min_impurity_decrease()])) else {
            return;
        };
        let ds = DatasetBase::new(data::blobs(cx.seed, 12, 2), data::class_targets(12, 2));
        fit_core(
            obs,
            cx,
            &v,
            "fit",
            || -> Result<_, linfa::Error> { mk().fit(&ds) },
            || mk().check().and_then(|c| c.fit(&ds)),
            || mk().check_ref().err().map(|e| e.to_string()),
            &|| 0,
            eqd,
        );
    }

    fn gnb(cx: &Ctx, obs: &mut Obs) {
        let s = cx.v(0);
        let mk = || GaussianNb::<f64, usize>::params().var_smoothing(s);
        let Some(v) = guard_core(obs, cx, &mk, Some(&eq), Some(&eq), Some(&|c| vec![c.var_smoothing()])) else {
            return;
        };
        let ds = DatasetBase::new(data::blobs(cx.seed, 12, 2), data::class_targets(12, 2));
        fit_core(
            obs,
            cx,
            &v,
            "fit",
            || -> Result<_, NaiveBayesError> { mk().fit(&ds) },
            || mk().check().and_then(|c| c.fit(&ds)),
            || mk().check_ref().err().map(|e| e.to_string()),
            &|| 0,
            eqd,
        );
        fit_core(
            obs,
            cx,
            &v,
            "fit_with",
            || -> Result<_, NaiveBayesError> { mk().fit_with(None, &ds) },
            || mk().check().and_then(|c| c.fit_with(None, &ds)),
            || mk().check_ref().err().map(|e| e.to_string()),
            &|| 0,
            eqd,
        );
    }

    fn mnb(cx: &Ctx, obs: &mut Obs) {
        let s = cx.v(0);
        let mk = || MultinomialNb::<f64, usize>::params().alpha(s);
        let Some(v) = guard_core(obs, cx, &mk, Some(&eq), Some(&eq), Some(&|c| vec![c.alpha()])) else {
            return;
        };
        let ds = DatasetBase::new(data::counts(cx.seed, 12, 3), data::class_targets(12, 2));
        fit_core(
            obs,
            cx,
            &v,
            "fit",
            || -> Result<_, NaiveBayesError> { mk().fit(&ds) },
            || mk().check().and_then(|c| c.fit(&ds)),
            || mk().check_ref().err().map(|e| e.to_string()),
            &|| 0,
            eqd,
        );
        fit_core(
            obs,
            cx,
            &v,
            "fit_with",
            || -> Result<_, NaiveBayesError> { mk().fit_with(None, &ds) },
            || mk().check().and_then(|c| c.fit_with(None, &ds)),
            || mk().check_ref().err().map(|e| e.to_string()),
            &|| 0,
            eqd,
        );
    }

    fn ftrl(cx: &Ctx, obs: &mut Obs) {
        let (alpha, beta, l1, l2) = (cx.v(0), cx.v(1), cx.v(2), cx.v(3));
        let rp = Probe::new();
        let mk = || Ftrl::<f64>::params_with_rng(CountRng::new(cx.seed, &rp)).alpha(alpha).beta(beta).l1_ratio(l1).l2_ratio(l2);
        let Some(v) = guard_core(
            obs,
            cx,
            &mk,
            Some(&eq),
            Some(&eq),
            Some(&|c| vec![c.alpha(), c.beta(), c.l1_ratio(), c.l2_ratio()]),
        ) else {
            return;
        };
        let ds = DatasetBase::new(data::blobs(cx.seed, 10, 2), data::bool_targets(10));
        fit_core(
            obs,
            cx,
            &v,
            "fit_with",
            || -> Result<_, FtrlError> { mk().fit_with(None, &ds) },
            || mk().check().and_then(|c| c.fit_with(None, &ds)),
            || mk().check_ref().err().map(|e| e.to_string()),
            &|| rp.get(),
            dbg,
        );
    }

    /// the model handed to Platt scaling: counts how often it is asked to predict
    #[derive(Debug, Clone)]
    struct Scorer(Probe);
    impl PartialEq for Scorer {
        fn eq(&self, _: &Self) -> bool {
            true
        }
    }
    impl PredictInplace<Array2<f64>, Array1<f64>> for Scorer {
        fn predict_inplace(&self, x: &Array2<f64>, y: &mut Array1<f64>) {
            self.0.hit();
            for (i, t) in y.iter_mut().enumerate() {
                *t = 0.5 * x[(i, 0)] + 0.25;
            }
        }
        fn default_target(&self, x: &Array2<f64>) -> Array1<f64> {
            Array1::zeros(x.nrows())
        }
    }

    fn platt(cx: &Ctx, obs: &mut Obs) {
        let (it, ms, sg) = (cx.u(0), cx.v(1), cx.v(2));
        let mk = || Platt::<f64, Scorer>::params().maxiter(it).minstep(ms).sigma(sg);
        let Some(v) = guard_core(obs, cx, &mk, Some(&eq), Some(&eq), None) else {
            return;
        };
        let pp = Probe::new();
        // overlapping scores so that the Newton iteration has a finite optimum
        let mut x = data::blobs(cx.seed, 12, 2);
        x.mapv_inplace(|t| t * 0.25);
        let mut y = data::bool_targets(12);
        y[0] = true;
        y[11] = false;
        let ds = DatasetBase::new(x, y);
        fit_core(
            obs,
            cx,
            &v,
            "fit_with",
            || -> Result<_, PlattError> { mk().fit_with(Scorer(pp.clone()), &ds) },
            || mk().check().and_then(|c| c.fit_with(Scorer(pp.clone()), &ds)),
            || mk().check_ref().err().map(|e| e.to_string()),
            &|| pp.get(),
            eqd,
        );
    }

    /// partition induced by cluster ids (ids themselves follow HashMap order)
    fn partition(ids: &[usize]) -> Vec<usize> {
        let mut first: Vec<(usize, usize)> = vec![];
        ids.iter()
            .map(|id| match first.iter().find(|(k, _)| k == id) {
                Some((_, n)) => *n,
                None => {
                    first.push((*id, first.len()));
                    first.len() - 1
                }
            })
            .collect()
    }

    fn hier(cx: &Ctx, obs: &mut Obs, mk: &dyn Fn() -> HierarchicalCluster<f64>) {
        let Some(v) = guard_core(obs, cx, mk, Some(&eq), Some(&eq), None) else {
            return;
        };
        let x = data::blobs(cx.seed, 12, 2);
        let kernel = || Kernel::params().method(KernelMethod::Gaussian(3.0)).transform(x.view());
        fit_core(
            obs,
            cx,
            &v,
            "transform",
            || -> Result<Vec<usize>, HierarchicalError<f64>> { mk().transform(kernel()).map(|d| partition(d.targets())) },
            || mk().check().map(|c| partition(c.transform(kernel()).targets())),
            || mk().check_ref().err().map(|e| e.to_string()),
            &|| 0,
            eq,
        );
    }
    fn hier_num(cx: &Ctx, obs: &mut Obs) {
        let n = cx.u(0);
        hier(cx, obs, &|| HierarchicalCluster::default().num_clusters(n));
    }
    fn hier_dist(cx: &Ctx, obs: &mut Obs) {
        let d = cx.v(0);
        hier(cx, obs, &|| HierarchicalCluster::default().max_distance(d));
    }
}

mod reduction {
    use super::*;
    use linfa_ica::fast_ica::FastIca;
    use linfa_kernel::{Kernel, KernelMethod};
    use linfa_pls::{PlsCanonical, PlsCca, PlsError, PlsRegression};
    use linfa_reduction::random_projection::{GaussianRandomProjection, SparseRandomProjection};
    use linfa_reduction::{DiffusionMap, ReductionError};
    use linfa_tsne::{TSneError, TSneParams};

    fn pls_params() -> Vec<crate::spec::ParamSpec> {
        vec![
            // "The tolerance is should not be negative"
            p("tolerance", Ge(0.0), 1e-6, &[1e-3], (0.0, 1.0)),
            p("max_iterations", CountGe(1), 500.0, &[20.0], (1.0, 500.0)),
        ]
    }

    pub fn builders() -> Vec<Builder> {
        vec![
            Builder {
                id: "tsne",
                params: vec![
                    // "negative perplexity"
                    p("perplexity", Ge(0.0), 5.0, &[2.0], (0.5, 5.0)),
                    // "lies in range (0, inf) where a value of 0 disables approximation": ambiguous at 0
                    p("approx_threshold", GeAmb(0.0), 0.5, &[0.2], (0.0, 2.0)),
                ],
                cross: no_cross,
                narrow: no_narrow,
                run: tsne,
            },
            Builder { id: "pls_regression", params: pls_params(), cross: no_cross, narrow: no_narrow, run: pls_regression },
            Builder { id: "pls_canonical", params: pls_params(), cross: no_cross, narrow: no_narrow, run: pls_canonical },
            Builder { id: "pls_cca", params: pls_params(), cross: no_cross, narrow: no_narrow, run: pls_cca },
            Builder {
                id: "fast_ica",
                // "tolerance should be positive" while 0 is accepted: ambiguous at 0
                params: vec![p("tol", GeAmb(0.0), 1e-4, &[1e-2], (1e-8, 1.0))],
                cross: no_cross,
                narrow: no_narrow,
                run: ica,
            },
            Builder {
                id: "diffusion_map",
                params: vec![
                    p("steps", CountGe(1), 1.0, &[3.0], (1.0, 5.0)),
                    p("embedding_size", CountGe(1), 2.0, &[3.0], (1.0, 4.0)),
                ],
                cross: no_cross,
                narrow: no_narrow,
                run: diffusion,
            },
            Builder {
                id: "random_projection_gaussian_dim",
                params: vec![p("target_dim", CountGe(1), 3.0, &[5.0], (1.0, 100.0))],
                cross: no_cross,
                narrow: no_narrow,
                run: rp_gauss_dim,
            },
            Builder {
                id: "random_projection_gaussian_eps",
                // "Precision parameter must be in the interval (0; 1)"
                params: vec![p("eps", Open(0.0, 1.0), 0.1, &[0.5, 0.9], (0.0, 1.0))],
                cross: no_cross,
                narrow: no_narrow,
                run: rp_gauss_eps,
            },
            Builder {
                id: "random_projection_sparse_dim",
                params: vec![p("target_dim", CountGe(1), 3.0, &[5.0], (1.0, 100.0))],
                cross: no_cross,
                narrow: no_narrow,
                run: rp_sparse_dim,
            },
            Builder {
                id: "random_projection_sparse_eps",
                params: vec![p("eps", Open(0.0, 1.0), 0.1, &[0.5, 0.9], (0.0, 1.0))],
                cross: no_cross,
                narrow: no_narrow,
                run: rp_sparse_eps,
            },
        ]
    }

    fn tsne(cx: &Ctx, obs: &mut Obs) {
        let (perp, th) = (cx.v(0), cx.v(1));
        let rp = Probe::new();
        let mk = || {
            TSneParams::<f64, _>::embedding_size_with_rng(2, CountRng::new(cx.seed, &rp))
                .perplexity(perp)
                .approx_threshold(th)
                .max_iter(4)
        };
        let Some(v) = guard_core(
            obs,
            cx,
            &mk,
            Some(&eq),
            Some(&eq),
            Some(&|c| vec![c.perplexity(), c.approx_threshold()]),
        ) else {
            return;
        };
        let x = data::blobs(cx.seed, 16, 3);
        // shape / Ok-ness only: the optimiser runs on a thread pool
        fit_core(
            obs,
            cx,
            &v,
            "transform",
            || -> Result<(usize, usize), TSneError> { mk().transform(x.clone()).map(|e| e.dim()) },
            || mk().check().and_then(|c| c.transform(x.clone())).map(|e| e.dim()),
            || mk().check_ref().err().map(|e| e.to_string()),
            &|| rp.get(),
            eq,
        );
    }

    macro_rules! pls {
        ($name:ident, $ty:ident) => {
            fn $name(cx: &Ctx, obs: &mut Obs) {
                let (tol, it) = (cx.v(0), cx.u(1));
                let mk = || $ty::<f64>::params(2).tolerance(tol).max_iterations(it);
                let Some(v) = guard_core(obs, cx, &mk, None, None, None) else {
                    return;
                };
                let x = data::blobs(cx.seed, 12, 3);
                let y1 = data::regression_targets(&x, cx.seed);
                let y2 = data::regression_targets(&x, cx.seed + 5).mapv(|t| t * t);
                let y = ndarray::stack![ndarray::Axis(1), y1, y2];
                let ds = DatasetBase::new(x, y);
                fit_core(
                    obs,
                    cx,
                    &v,
                    "fit",
                    || -> Result<_, PlsError> { mk().fit(&ds) },
                    || mk().check().and_then(|c| c.fit(&ds)),
                    || mk().check_ref().err().map(|e| e.to_string()),
                    &|| 0,
                    eqd,
                );
            }
        };
    }
    pls!(pls_regression, PlsRegression);
    pls!(pls_canonical, PlsCanonical);
    pls!(pls_cca, PlsCca);

    fn ica(cx: &Ctx, obs: &mut Obs) {
        let tol = cx.v(0);
        let mk = || FastIca::<f64>::params().tol(tol).max_iter(30).random_state(cx.seed as usize + 1);
        let Some(v) = guard_core(obs, cx, &mk, Some(&eq), Some(&eq), Some(&|c| vec![c.tol()])) else {
            return;
        };
        let ds = DatasetBase::from(data::blobs(cx.seed, 16, 2));
        fit_core(
            obs,
            cx,
            &v,
            "fit",
            || -> Result<_, linfa_ica::error::FastIcaError> { mk().fit(&ds) },
            || mk().check().and_then(|c| c.fit(&ds)),
            || mk().check_ref().err().map(|e| e.to_string()),
            &|| 0,
            eqd,
        );
    }

    fn diffusion(cx: &Ctx, obs: &mut Obs) {
        let (steps, emb) = (cx.u(0), cx.u(1));
        let mk = || DiffusionMap::<f64>::params(emb).steps(steps);
        let Some(v) = guard_core(
            obs,
            cx,
            &mk,
            Some(&eq),
            Some(&eq),
            Some(&|c| vec![c.steps() as f64, c.embedding_size() as f64]),
        ) else {
            return;
        };
        let x = data::blobs(cx.seed, 10, 2);
        let kernel = Kernel::params().method(KernelMethod::Gaussian(3.0)).transform(x.view());
        fit_core(
            obs,
            cx,
            &v,
            "transform",
            || -> Result<DiffusionMap<f64>, ReductionError> { mk().transform(&kernel) },
            || mk().check().map(|c| c.transform(&kernel)),
            || mk().check_ref().err().map(|e| e.to_string()),
            &|| 0,
            eqd,
        );
    }

    macro_rules! rp {
        ($name:ident, $ty:ident, $set:ident, $conv:expr, $read:expr) => {
            fn $name(cx: &Ctx, obs: &mut Obs) {
                let val = cx.v(0);
                let rp = Probe::new();
                let mk = || $ty::<f64>::params_with_rng(CountRng::new(cx.seed, &rp)).$set($conv(val));
                let Some(v) = guard_core(obs, cx, &mk, None, None, Some(&$read)) else {
                    return;
                };
                let ds = DatasetBase::from(data::blobs(cx.seed, 4, 80));
                let probe_x = data::blobs(cx.seed + 1, 3, 80);
                fit_core(
                    obs,
                    cx,
                    &v,
                    "fit",
                    || -> Result<$ty<f64>, ReductionError> { mk().fit(&ds) },
                    || mk().check().and_then(|c| c.fit(&ds)),
                    || mk().check_ref().err().map(|e| e.to_string()),
                    &|| rp.get(),
                    |a, b| a.transform(&probe_x) == b.transform(&probe_x),
                );
            }
        };
    }
    fn as_count(v: f64) -> usize {
        if v >= 0.0 {
            v as usize
        } else {
            0
        }
    }
    fn as_is(v: f64) -> f64 {
        v
    }
    rp!(rp_gauss_dim, GaussianRandomProjection, target_dim, as_count, |c: &linfa_reduction::random_projection::GaussianRandomProjectionValidParams<CountRng>| vec![c.target_dim().map(|d| d as f64).unwrap_or(f64::NAN)]);
    rp!(rp_gauss_eps, GaussianRandomProjection, eps, as_is, |c: &linfa_reduction::random_projection::GaussianRandomProjectionValidParams<CountRng>| vec![c.eps().unwrap_or(f64::NAN)]);
    rp!(rp_sparse_dim, SparseRandomProjection, target_dim, as_count, |c: &linfa_reduction::random_projection::SparseRandomProjectionValidParams<CountRng>| vec![c.target_dim().map(|d| d as f64).unwrap_or(f64::NAN)]);
    rp!(rp_sparse_eps, SparseRandomProjection, eps, as_is, |c: &linfa_reduction::random_projection::SparseRandomProjectionValidParams<CountRng>| vec![c.eps().unwrap_or(f64::NAN)]);
}

mod text {
    use super::*;
    use linfa_preprocessing::CountVectorizer;
    use ndarray::array;

    fn cross(v: &[f64]) -> Expect {
        // "`min_n` should not be greater than `max_n`", "`min_freq` should not be greater than `max_freq`"
        if v.len() == 4 && v[0] <= v[1] && v[2] <= v[3] {
            Expect::In
        } else {
            Expect::Out
        }
    }
    /// the recorded defect: a document frequency above 1 is the *only* thing wrong
    fn narrow(v: &[f64]) -> Option<&'static str> {
        let ok_else = v.len() == 4 && v[0] >= 1.0 && v[1] >= 1.0 && v[0] <= v[1] && v[2] >= 0.0 && v[3] >= 0.0 && v[2] <= v[3];
        if ok_else && (v[2] > 1.0 || v[3] > 1.0) {
            Some("verdict:accepted-document-frequency-above-1")
        } else {
            None
        }
    }

    pub fn builders() -> Vec<Builder> {
        vec![Builder {
            id: "count_vectorizer",
            params: vec![
                p("n_gram_min", CountGe(1), 1.0, &[2.0], (1.0, 3.0)),
                p("n_gram_max", CountGe(1), 1.0, &[2.0, 3.0], (1.0, 3.0)),
                // "`min_freq` and `max_freq` must lie in `0..=1`"
                p32("min_document_frequency", Closed(0.0, 1.0), 0.0, &[0.25], (0.0, 0.5)),
                p32("max_document_frequency", Closed(0.0, 1.0), 1.0, &[0.75], (0.5, 1.0)),
            ],
            cross,
            narrow,
            run: count_vectorizer,
        }]
    }

    fn count_vectorizer(cx: &Ctx, obs: &mut Obs) {
        let (a, b, lo, hi) = (cx.u(0), cx.u(1), cx.v(2) as f32, cx.v(3) as f32);
        let mk = || CountVectorizer::params().n_gram_range(a, b).document_frequency(lo, hi);
        let Some(v) = guard_core(
            obs,
            cx,
            &mk,
            None,
            None,
            Some(&|c| {
                let (x, y) = c.n_gram_range();
                let (l, h) = c.document_frequency();
                vec![x as f64, y as f64, l as f64, h as f64]
            }),
        ) else {
            return;
        };
        let texts = array![
            "one two three four",
            "two three four",
            "three four five",
            "four five six seven",
            "one four",
            "seven four two"
        ];
        let voc = |c: CountVectorizer| {
            let mut w = c.vocabulary().clone();
            w.sort();
            w
        };
        fit_core(
            obs,
            cx,
            &v,
            "fit",
            || mk().fit(&texts).map(voc),
            || mk().check().and_then(|c| c.fit(&texts)).map(voc),
            || mk().check_ref().err().map(|e| e.to_string()),
            &|| 0,
            eq,
        );
        let words = ["alpha", "beta", "gamma"];
        fit_core(
            obs,
            cx,
            &v,
            "fit_vocabulary",
            || mk().fit_vocabulary(&words).map(voc),
            || mk().check().and_then(|c| c.fit_vocabulary(&words)).map(voc),
            || mk().check_ref().err().map(|e| e.to_string()),
            &|| 0,
            eq,
        );
    }
}
