//! The range table and, per builder, the typed glue that exercises `check_ref`, `check` and the
//! training entry points.

use crate::core::{apply, as_count, dbg, fit_core, fit_core_empty, guard_core, ignore, CountDist, CountRng, Ctx, Glue, Probe};
use crate::data;
use crate::spec::{opt, p, p32, Dom::*, Expect};
use crate::{no_cross, no_narrow, Builder};
use linfa::dataset::DatasetBase;
use linfa::traits::{Fit, FitWith, Transformer};
use linfa::ParamGuard;
use std::sync::OnceLock;
use vengine::Obs;

const TINY: f64 = f64::MIN_POSITIVE;

pub fn registry() -> &'static [Builder] {
    static REG: OnceLock<Vec<Builder>> = OnceLock::new();
    REG.get_or_init(|| {
        let mut v = vec![];
        v.extend(clustering::builders());
        v.extend(linear::builders());
        v.extend(svm::builders());
        v.extend(misc::builders());
        v.extend(reduction::builders());
        v.extend(text::builders());
        v
    })
}

pub fn assumptions() -> Vec<String> {
    [
        "documented range = setter doc comment + struct-level parameter table + crate-level docs + text of the crate's parameter-error variants (DESIGN Appendix A, every row re-read on the pinned tree)",
        "all generated values are finite (no NaN / inf); every builder is instantiated with f64 (CountVectorizer: its native f32, grid values exactly representable)",
        "'just below / just inside' a bound = the adjacent representable number; at 0 both the smallest normal and the smallest denormal number of either sign (f64: +-2.2e-308, +-5e-324; f32 parameters: +-1.2e-38, +-1.4e-45)",
        "-0.0 is on the grid of every float parameter whose grid holds 0.0, as a consistency-only value (verdict not asserted: the docs say nothing about the sign of zero); by-value = by-reference (verdict, error text, checked value), parameters unchanged (compared bit for bit), and entry point = that verdict are asserted in full",
        "verdict NOT asserted (consistency obligations only) where the documentation disagrees with itself or is silent at the bound: value 0 of elastic-net tolerance (table '(0, inf)' vs error list 'negative'), elastic-net max_iterations = 0 (table '[1, inf)' vs documented error list without such an error), logistic alpha = 0 and FTRL alpha = 0 and FastICA tol = 0 and Platt minstep/sigma = 0 ('positive' while 0 is accepted), GMM reg_covar = 0 (setter 'non-negative' vs error text 'must be positive'), SVM nu = 0 (setter '[0, 1]' vs crate docs '(0, 1]'), SVM solver eps = 0 and hierarchical max_distance = 0 (no wording for the bound), t-SNE approx_threshold = 0 ('range (0, inf) where a value of 0 disables approximation'), SVR loss epsilon <= 0 (no documented range), decision-tree min_impurity_decrease in (0, machine eps)",
        "FTRL beta = 0 is treated as in range (documented default) although the wording is 'positive'",
        "parameters without a documented range stay at their defaults and are not part of any verdict: iteration caps of logistic regression / Tweedie / FastICA / t-SNE, min_weight_split, min_weight_leaf, max_depth, SVR-nu regulariser c, k-means init method, kernels",
        "entry points on a rejected builder: Err text must equal Display of E::from(check_ref error) (the entry point's own From conversion); a panic or Ok is a failure; probes (counting Rng, counting Distance, counting model for Platt) must stay untouched where the builder takes one",
        "entry points on an accepted builder are compared with the checked form (Debug text or PartialEq of the fitted model, partition for hierarchical clustering whose ids follow HashMap order, sorted vocabulary for CountVectorizer, output shape only for t-SNE) only when every value lies in the per-parameter interval the tiny training run is exercised with (e.g. not with Platt minstep = 0 or SVM eps = 0, where training does not terminate in reasonable time); otherwise only check/check_ref are exercised",
        "every entry point (fit, fit_with, transform, fit_vocabulary) is exercised twice: with the ordinary tiny dataset / batch and with an EMPTY one (zero samples, same columns; empty kernel, empty document array, empty word list) - signatures <row>:<entry>_empty:*. A rejected builder must answer the empty input with exactly the check_ref error too (checking comes before looking at the data); an accepted builder must do whatever check()?.entry(empty) does (degenerate model, error text, or panic - a panic of BOTH is accepted, most estimators do not guard against zero samples and that is not C04's subject)",
        "datasets handed to fit / fit_with carry sample weights and feature names on odd seeds; k-means, GMM, FastICA and random projection (target type free) and the multi-task / PLS rows get two target columns, the others their 1-D targets. Builders whose transform also has a dataset form (DBSCAN, hierarchical clustering, t-SNE) are exercised through the array form AND the dataset form, the latter with two-column and with 1-D targets, weights (absent when seed % 4 == 0) and feature names; the unchecked builder's result must equal the checked form's in everything that is handed through: shape, targets, weights, feature names (and records / cluster partition where reproducible; the t-SNE embedding itself is not compared)",
        "a training failure that depends on the data (power method not converged, Platt not converged, JL dimension larger than the feature count) is an accepted outcome when the unchecked builder and the checked form fail with the same text",
        "history cases: a builder is configured with a first assignment, one of {check_ref, check on a copy, the training entry point} runs on it (outcome ignored), then the same builder (or a clone taken afterwards) is re-configured through its setters; verdict, error text, checked value, builder equality and training result must equal those of a fresh builder configured directly with the second assignment. Parameters that can only be given to the constructor (k-means / GMM n_clusters, DBSCAN / OPTICS min_points) are equal in both assignments. The first training run only happens when the first assignment lies in the trainable intervals",
        "SVM history cases with an odd seed: the first life selects the other of the two mutually exclusive variants (Nu 0.4 resp. C weights (7, 3), always valid) with the solver eps / Platt values of the first assignment; the setter under test must displace it (checked value: the other variant must read back as None, as the setters' code and the 'either C or Nu' docs promise). The valid/invalid label of the first assignment of those cases refers to the row's own table and is approximate for the non-trivial count",
        "enum / bool valued builder options are extra dimensions of every row that has them (k-means init method, DBSCAN / OPTICS nearest-neighbour algorithm, GMM init method, elastic-net / logistic with_intercept, Tweedie link and fit_intercept, SVM kernel and shrinking, tree split quality and max depth, hierarchical linkage method, PLS algorithm and scale, FastICA gfunc, count vectoriser convert_to_lowercase and normalize); they have no range of their own, the expected verdict comes from the numeric table only, i.e. it must be independent of them. No doc comment states a cross-constraint between an option and a numeric range (PLS: 'max_iterations ... when algorithm=Nipals. Ignored otherwise' says the value is ignored, not that it is unchecked). Training is not run with SVM shrinking (C13's subject), with the k-means|| initialisation (not reproducible from run to run, C20's subject) nor with an explicit identity / logit Tweedie link",
        "order cases: every setter / builder-transforming call of a row (GMM and random-projection with_rng, FTRL rng, DBSCAN / OPTICS dist_fn and nn_algo, SVM with_platt_params / with_kernel_params / kernel shortcuts / shrinking, and all plain setters) is one step of a chain; the chain is applied in a generated permutation and the result must equal the canonical order's (every call writes its own field; the mutually exclusive ones - SVM C / Nu variant, projection dim / eps, hierarchical criterion, tokenizer - occur once per chain). Constructor arguments always come first. The non-trivial rule of order cases is the one of the underlying plain / history case; permutations that happen to be the identity are not filtered out",
        "count vectoriser tokenizer parameter: 0 = default regex, 1 = the regex \\b[^ ][^ ]+\\b, 2 = the invalid regex '[' (documented: 'Returns an error if the regex expression for the split is invalid'), 3 = a function tokenizer",
        "linfa_clustering::AppxDbscan is an alias of Dbscan in the pinned tree (its own hyperparams module is not compiled), so it has no separate row",
    ]
    .iter()
    .map(|s| s.to_string())
    .collect()
}

fn eq<T: PartialEq>(a: &T, b: &T) -> bool {
    a == b
}
/// equal by `PartialEq`, or (NaN-tolerant) by `Debug` text
fn eqd<T: PartialEq + std::fmt::Debug>(a: &T, b: &T) -> bool {
    a == b || dbg(a, b)
}
fn at(v: &[f64], i: usize) -> f64 {
    v.get(i).copied().unwrap_or(f64::NAN)
}
fn cnt(v: &[f64], i: usize) -> usize {
    as_count(at(v, i))
}
const NONE: &[usize] = &[];

/// builder with `Clone + PartialEq`, a single `fit` entry point and no probes
macro_rules! run_fit {
    ($fname:ident, $err:ty, base: $base:expr, set: $set:expr, read: $read:expr, data: $data:expr, same: $same:expr) => {
        fn $fname(cx: &Ctx, obs: &mut Obs) {
            let ds = data::decorate($data(cx), cx.seed);
            let ds0 = data::empty_ds(&ds);
            let base = $base;
            let set = $set;
            let g = Glue {
                cx, stale: None, first_set: None,
                base: &base,
                set: &set,
                clone: Some(&|b| b.clone()),
                touch: &|b| ignore(|| -> Result<_, $err> { b.fit(&ds) }),
            };
            let Some((v, hb)) = guard_core(obs, &g, Some(&eq), Some(&eq), $read) else {
                return;
            };
            fit_core::<_, _, $err>(obs, &g, &v, &hb, "fit", &|b| b.fit(&ds), &|c| c.fit(&ds), &|| 0, &$same);
            fit_core_empty::<_, _, $err>(obs, &g, &v, &hb, "fit_empty", &|b| b.fit(&ds0), &|c| c.fit(&ds0), &|| 0, &$same);
        }
    };
}

mod clustering {
    use super::*;
    use linfa_clustering::{
        Dbscan, DbscanParams, GaussianMixtureModel, GmmError, GmmInitMethod, GmmParams, IncrKMeansError, KMeans, KMeansError, KMeansInit,
        KMeansParams, Optics,
        OpticsParams,
    };
    use linfa_nn::CommonNearestNeighbour;

    pub fn builders() -> Vec<Builder> {
        vec![
            Builder {
                id: "kmeans",
                params: vec![
                    p("n_clusters", CountGe(1), 2.0, &[3.0], (1.0, 4.0)),
                    p("n_runs", CountGe(1), 10.0, &[3.0], (1.0, 10.0)),
                    p("tolerance", Gt(0.0), 1e-4, &[0.37], (TINY, 10.0)),
                    p("max_n_iterations", CountGe(1), 300.0, &[7.0], (1.0, 300.0)),
                    // 0 k-means++, 1 random, 2 precomputed centroids (n_clusters rows of the data), 3 k-means|| (never trained
                    // with: its result differs from run to run, which is C20's subject)
                    opt("init_method", 4, 2.0),
                ],
                ctor: &[0],
                cross: no_cross,
                narrow: no_narrow,
                run: kmeans,
            },
            Builder {
                id: "dbscan",
                params: vec![
                    p("min_points", CountGe(2), 3.0, &[5.0], (2.0, 8.0)),
                    p("tolerance", Gt(0.0), 1e-4, &[0.8], (TINY, 10.0)),
                    // 0 k-d tree (default), 1 linear search, 2 ball tree
                    opt("nn_algo", 3, 2.0),
                ],
                ctor: &[0],
                cross: no_cross,
                narrow: no_narrow,
                run: dbscan,
            },
            Builder {
                id: "optics",
                params: vec![
                    p("min_points", CountGe(2), 3.0, &[5.0], (2.0, 8.0)),
                    p("tolerance", Gt(0.0), 3.0, &[0.8], (TINY, 10.0)),
                    opt("nn_algo", 3, 2.0),
                ],
                ctor: &[0],
                cross: no_cross,
                narrow: no_narrow,
                run: optics,
            },
            Builder {
                id: "gmm",
                params: vec![
                    p("n_clusters", CountGe(1), 2.0, &[3.0], (1.0, 3.0)),
                    p("tolerance", Gt(0.0), 1e-3, &[0.05], (1e-6, 1.0)),
                    p("reg_covar", GeAmb(0.0), 1e-6, &[1e-3], (1e-9, 1.0)),
                    p("n_runs", CountGe(1), 1.0, &[3.0], (1.0, 3.0)),
                    p("max_n_iterations", CountGe(1), 100.0, &[7.0], (1.0, 100.0)),
                    // 0 k-means initialisation, 1 random (the covariance type has a single variant, Full, which is set explicitly)
                    opt("init_method", 2, 1.0),
                ],
                ctor: &[0],
                cross: no_cross,
                narrow: no_narrow,
                run: gmm,
            },
        ]
    }

    fn kmeans(cx: &Ctx, obs: &mut Obs) {
        type P = KMeansParams<f64, CountRng, CountDist>;
        type IE = IncrKMeansError<KMeans<f64, CountDist>>;
        let (rp, dp) = (Probe::new(), Probe::new());
        let ds = data::decorate(DatasetBase::new(data::blobs(cx.seed, 12, 2), data::two_targets(12)), cx.seed);
        let ds0 = data::empty_ds(&ds);
        let base = |v: &[f64]| -> P { KMeans::params_with(cnt(v, 0), CountRng::new(cx.seed, &rp), CountDist(dp.clone())) };
        let x0 = data::blobs(cx.seed, 12, 2);
        let set = |b: P, v: &[f64]| {
            let init = match cnt(v, 4) {
                0 => KMeansInit::KMeansPlusPlus,
                1 => KMeansInit::Random,
                2 => {
                    // rows from both blobs
                    let k = cnt(v, 0).min(12);
                    let rows: Vec<usize> = (0..k).map(|i| (i * 7) % 12).collect();
                    KMeansInit::Precomputed(x0.select(ndarray::Axis(0), &rows))
                }
                _ => KMeansInit::KMeansPara,
            };
            apply(
                b,
                v,
                &[
                    &|b: P, v| b.n_runs(cnt(v, 1)),
                    &|b: P, v| b.tolerance(at(v, 2)),
                    &|b: P, v| b.max_n_iterations(cnt(v, 3) as u64),
                    &|b: P, _| b.init_method(init.clone()),
                ],
            )
        };
        let g = Glue {
            cx, stale: None, first_set: None,
            base: &base,
            set: &set,
            clone: Some(&|b| b.clone()),
            touch: &|b| ignore(|| -> Result<_, KMeansError> { b.fit(&ds) }),
        };
        let Some((v, hb)) = guard_core(
            obs,
            &g,
            Some(&eq),
            Some(&eq),
            Some(&|c| vec![c.n_clusters() as f64, c.n_runs() as f64, c.tolerance(), c.max_n_iterations() as f64]),
        ) else {
            return;
        };
        let touched = || rp.get() + dp.get();
        fit_core::<_, _, KMeansError>(obs, &g, &v, &hb, "fit", &|b| b.fit(&ds), &|c| c.fit(&ds), &touched, &dbg);
        fit_core_empty::<_, _, KMeansError>(obs, &g, &v, &hb, "fit_empty", &|b| b.fit(&ds0), &|c| c.fit(&ds0), &touched, &dbg);
        // incremental entry point: a not-yet-converged model is a normal outcome, compare the models
        let unwrap = |r: Result<KMeans<f64, CountDist>, IE>| match r {
            Err(IncrKMeansError::NotConverged(m)) => Ok(m),
            other => other,
        };
        fit_core::<_, _, IE>(
            obs,
            &g,
            &v,
            &hb,
            "fit_with",
            &|b| unwrap(b.fit_with(None, &ds)),
            &|c| unwrap(c.fit_with(None, &ds)),
            &touched,
            &dbg,
        );
        fit_core_empty::<_, _, IE>(
            obs,
            &g,
            &v,
            &hb,
            "fit_with_empty",
            &|b| unwrap(b.fit_with(None, &ds0)),
            &|c| unwrap(c.fit_with(None, &ds0)),
            &touched,
            &dbg,
        );
    }

    fn nn(k: usize) -> CommonNearestNeighbour {
        match k {
            0 => CommonNearestNeighbour::KdTree,
            1 => CommonNearestNeighbour::LinearSearch,
            _ => CommonNearestNeighbour::BallTree,
        }
    }

    fn dbscan(cx: &Ctx, obs: &mut Obs) {
        type P = DbscanParams<f64, CountDist, CommonNearestNeighbour>;
        let dp = Probe::new();
        let x = data::blobs(cx.seed, 12, 2);
        let x0 = data::empty_records(&x);
        let base = |v: &[f64]| -> P { Dbscan::params_with(cnt(v, 0), CountDist(dp.clone()), nn(0)) };
        let set = |b: P, v: &[f64]| {
            apply(
                b,
                v,
                &[
                    &|b: P, _| b.dist_fn(CountDist(dp.clone())),
                    &|b: P, v| b.tolerance(at(v, 1)),
                    &|b: P, v| b.nn_algo(nn(cnt(v, 2))),
                ],
            )
        };
        let g = Glue { cx, stale: None, first_set: None, base: &base, set: &set, clone: Some(&|b| b.clone()), touch: &|b| ignore(|| b.transform(&x)) };
        let Some((v, hb)) =
            guard_core(obs, &g, Some(&eq), Some(&eq), Some(&|c| vec![c.minimum_points() as f64, c.tolerance()]))
        else {
            return;
        };
        fit_core(obs, &g, &v, &hb, "transform", &|b| b.transform(&x), &|c| Ok(c.transform(&x)), &|| dp.get(), &dbg);
        fit_core_empty(obs, &g, &v, &hb, "transform_empty", &|b| b.transform(&x0), &|c| Ok(c.transform(&x0)), &|| dp.get(), &dbg);
        // dataset forms (records + targets + weights + names in, the same dataset with the cluster ids as targets out)
        type Out = DatasetBase<ndarray::Array2<f64>, ndarray::Array1<Option<usize>>>;
        let summary = |d: Out| (data::parts(&d), format!("{:?}", d.records()));
        let two = |x: &ndarray::Array2<f64>| data::full(DatasetBase::new(x.clone(), data::two_targets(x.nrows())), cx.seed);
        let one = |x: &ndarray::Array2<f64>| data::full(DatasetBase::new(x.clone(), data::class_targets(x.nrows(), 2)), cx.seed);
        fit_core::<_, (data::Parts, String), linfa_clustering::DbscanParamsError>(
            obs,
            &g,
            &v,
            &hb,
            "transform_dataset",
            &|b| Transformer::<_, Result<Out, _>>::transform(b, two(&x)).map(summary),
            &|c| Ok(summary(Transformer::<_, Out>::transform(c, two(&x)))),
            &|| dp.get(),
            &eq,
        );
        fit_core::<_, (data::Parts, String), linfa_clustering::DbscanParamsError>(
            obs,
            &g,
            &v,
            &hb,
            "transform_dataset_1d_targets",
            &|b| Transformer::<_, Result<Out, _>>::transform(b, one(&x)).map(summary),
            &|c| Ok(summary(Transformer::<_, Out>::transform(c, one(&x)))),
            &|| dp.get(),
            &eq,
        );
        fit_core_empty::<_, (data::Parts, String), linfa_clustering::DbscanParamsError>(
            obs,
            &g,
            &v,
            &hb,
            "transform_dataset_empty",
            &|b| Transformer::<_, Result<Out, _>>::transform(b, two(&x0)).map(summary),
            &|c| Ok(summary(Transformer::<_, Out>::transform(c, two(&x0)))),
            &|| dp.get(),
            &eq,
        );
    }

    fn optics(cx: &Ctx, obs: &mut Obs) {
        type P = OpticsParams<f64, CountDist, CommonNearestNeighbour>;
        let dp = Probe::new();
        let x = data::blobs(cx.seed, 12, 2);
        let x0 = data::empty_records(&x);
        let base = |v: &[f64]| -> P { Optics::params_with(cnt(v, 0), CountDist(dp.clone()), nn(0)) };
        let set = |b: P, v: &[f64]| {
            apply(
                b,
                v,
                &[
                    &|b: P, _| b.dist_fn(CountDist(dp.clone())),
                    &|b: P, v| b.tolerance(at(v, 1)),
                    &|b: P, v| b.nn_algo(nn(cnt(v, 2))),
                ],
            )
        };
        let g = Glue { cx, stale: None, first_set: None, base: &base, set: &set, clone: Some(&|b| b.clone()), touch: &|b| ignore(|| b.transform(x.view())) };
        let Some((v, hb)) =
            guard_core(obs, &g, Some(&eq), Some(&eq), Some(&|c| vec![c.minimum_points() as f64, c.tolerance()]))
        else {
            return;
        };
        fit_core(obs, &g, &v, &hb, "transform", &|b| b.transform(x.view()), &|c| Ok(c.transform(x.view())), &|| dp.get(), &dbg);
        fit_core_empty(obs, &g, &v, &hb, "transform_empty", &|b| b.transform(x0.view()), &|c| Ok(c.transform(x0.view())), &|| dp.get(), &dbg);
    }

    fn gmm(cx: &Ctx, obs: &mut Obs) {
        type P = GmmParams<f64, CountRng>;
        let rp = Probe::new();
        let ds = data::decorate(DatasetBase::new(data::blobs(cx.seed, 16, 2), data::two_targets(16)), cx.seed);
        let ds0 = data::empty_ds(&ds);
        // constructed with another generator; `with_rng` (first in the canonical order) installs the real one
        let base = |v: &[f64]| -> P { GaussianMixtureModel::params_with_rng(cnt(v, 0), CountRng::new(cx.seed ^ 0x5eed, &rp)) };
        let set = |b: P, v: &[f64]| {
            apply(
                b,
                v,
                &[
                    // builder-transforming: replaces the generator, must carry every other setting over
                    &|b: P, _| b.with_rng(CountRng::new(cx.seed, &rp)),
                    &|b: P, v| b.tolerance(at(v, 1)),
                    &|b: P, v| b.reg_covariance(at(v, 2)),
                    &|b: P, v| b.n_runs(cnt(v, 3) as u64),
                    &|b: P, v| b.max_n_iterations(cnt(v, 4) as u64),
                    &|b: P, v| b.init_method(if cnt(v, 5) == 0 { GmmInitMethod::KMeans } else { GmmInitMethod::Random }),
                    &|b: P, _| b.covariance_type(linfa_clustering::GmmCovarType::Full),
                ],
            )
        };
        let g = Glue {
            cx, stale: None, first_set: None,
            base: &base,
            set: &set,
            clone: Some(&|b| b.clone()),
            touch: &|b| ignore(|| -> Result<_, GmmError> { b.fit(&ds) }),
        };
        let Some((v, hb)) = guard_core(
            obs,
            &g,
            Some(&eq),
            Some(&eq),
            Some(&|c| {
                vec![c.n_clusters() as f64, c.tolerance(), c.reg_covariance(), c.n_runs() as f64, c.max_n_iterations() as f64]
            }),
        ) else {
            return;
        };
        fit_core::<_, _, GmmError>(obs, &g, &v, &hb, "fit", &|b| b.fit(&ds), &|c| c.fit(&ds), &|| rp.get(), &dbg);
        fit_core_empty::<_, _, GmmError>(obs, &g, &v, &hb, "fit_empty", &|b| b.fit(&ds0), &|c| c.fit(&ds0), &|| rp.get(), &dbg);
    }
}

mod linear {
    use super::*;
    use linfa_elasticnet::{ElasticNetError, ElasticNetParams, MultiTaskElasticNetParams};
    use linfa_linear::{LinearError, TweedieRegressor, TweedieRegressorParams};
    use linfa_logistic::{LogisticRegression, MultiLogisticRegression};

    fn enet_params() -> Vec<crate::spec::ParamSpec> {
        vec![
            p("penalty", Ge(0.0), 1.0, &[0.05], (0.0, 10.0)),
            p("l1_ratio", Closed(0.0, 1.0), 0.5, &[0.25], (0.0, 1.0)),
            // range table says (0, inf), the error list says "negative", 0 is accepted: ambiguous at 0
            p("tolerance", GeAmb(0.0), 1e-4, &[1e-2], (1e-8, 1.0)),
            // range table says [1, inf) but the documented error list has no entry for it: ambiguous below 1
            p("max_iterations", CountGeAmbBelow(1), 1000.0, &[50.0], (1.0, 1000.0)),
            // 0 with intercept (default), 1 without
            opt("with_intercept", 2, 1.0),
        ]
    }
    fn logistic_params() -> Vec<crate::spec::ParamSpec> {
        vec![
            // "alpha must be a positive, finite number" while 0 is accepted: ambiguous at 0
            p("alpha", GeAmb(0.0), 1.0, &[0.1], (1e-6, 10.0)),
            p("gradient_tolerance", Gt(0.0), 1e-4, &[1e-2], (1e-8, 1.0)),
            opt("with_intercept", 2, 1.0),
        ]
    }

    pub fn builders() -> Vec<Builder> {
        vec![
            Builder { id: "elastic_net", params: enet_params(), ctor: NONE, cross: no_cross, narrow: no_narrow, run: enet },
            Builder {
                id: "multi_task_elastic_net",
                params: enet_params(),
                ctor: NONE,
                cross: no_cross,
                narrow: no_narrow,
                run: mt_enet,
            },
            Builder { id: "logistic", params: logistic_params(), ctor: NONE, cross: no_cross, narrow: no_narrow, run: logistic },
            Builder {
                id: "multi_logistic",
                params: logistic_params(),
                ctor: NONE,
                cross: no_cross,
                narrow: no_narrow,
                run: multi_logistic,
            },
            Builder {
                id: "tweedie",
                params: vec![
                    p("alpha", Ge(0.0), 1.0, &[0.1], (0.0, 10.0)),
                    p("power", NotOpen(0.0, 1.0), 1.0, &[1.5, 2.0, 3.0], (0.0, 3.0)),
                    // 0 link chosen from the power (default), 1 log, 2 identity, 3 logit. The docs state no power x link
                    // constraint for checking; training runs with the automatic link and with log (targets are positive)
                    opt("link", 4, 1.0),
                    opt("fit_intercept", 2, 1.0),
                ],
                // the link can be set but not unset: it is equal in both assignments of a history case
                ctor: &[2],
                cross: no_cross,
                narrow: no_narrow,
                run: tweedie,
            },
        ]
    }

    run_fit!(enet, ElasticNetError,
        base: |_: &[f64]| ElasticNetParams::<f64>::new(),
        set: |b: ElasticNetParams<f64>, v: &[f64]| apply(b, v, &[
            &|b: ElasticNetParams<f64>, v| b.penalty(at(v, 0)),
            &|b: ElasticNetParams<f64>, v| b.l1_ratio(at(v, 1)),
            &|b: ElasticNetParams<f64>, v| b.tolerance(at(v, 2)),
            &|b: ElasticNetParams<f64>, v| b.max_iterations(cnt(v, 3) as u32),
            &|b: ElasticNetParams<f64>, v| b.with_intercept(cnt(v, 4) == 0),
        ]),
        read: Some(&|c| vec![c.penalty(), c.l1_ratio(), c.tolerance(), c.max_iterations() as f64]),
        data: |cx: &Ctx| {
            let x = data::blobs(cx.seed, 10, 2);
            let y = data::regression_targets(&x, cx.seed);
            DatasetBase::new(x, y)
        },
        same: dbg);

    run_fit!(mt_enet, ElasticNetError,
        base: |_: &[f64]| MultiTaskElasticNetParams::<f64>::new(),
        set: |b: MultiTaskElasticNetParams<f64>, v: &[f64]| apply(b, v, &[
            &|b: MultiTaskElasticNetParams<f64>, v| b.penalty(at(v, 0)),
            &|b: MultiTaskElasticNetParams<f64>, v| b.l1_ratio(at(v, 1)),
            &|b: MultiTaskElasticNetParams<f64>, v| b.tolerance(at(v, 2)),
            &|b: MultiTaskElasticNetParams<f64>, v| b.max_iterations(cnt(v, 3) as u32),
            &|b: MultiTaskElasticNetParams<f64>, v| b.with_intercept(cnt(v, 4) == 0),
        ]),
        read: Some(&|c| vec![c.penalty(), c.l1_ratio(), c.tolerance(), c.max_iterations() as f64]),
        data: |cx: &Ctx| {
            let x = data::blobs(cx.seed, 10, 2);
            let y1 = data::regression_targets(&x, cx.seed);
            let y2 = data::regression_targets(&x, cx.seed + 17);
            let y = ndarray::stack![ndarray::Axis(1), y1, y2];
            DatasetBase::new(x, y)
        },
        same: dbg);

    run_fit!(logistic, linfa_logistic::error::Error,
        base: |_: &[f64]| LogisticRegression::<f64>::new().max_iterations(30),
        set: |b: LogisticRegression<f64>, v: &[f64]| apply(b, v, &[
            &|b: LogisticRegression<f64>, v| b.alpha(at(v, 0)),
            &|b: LogisticRegression<f64>, v| b.gradient_tolerance(at(v, 1)),
            &|b: LogisticRegression<f64>, v| b.with_intercept(cnt(v, 2) == 0),
        ]),
        read: None,
        data: |cx: &Ctx| DatasetBase::new(data::blobs(cx.seed, 10, 2), data::class_targets(10, 2)),
        same: eqd);

    run_fit!(multi_logistic, linfa_logistic::error::Error,
        base: |_: &[f64]| MultiLogisticRegression::<f64>::new().max_iterations(30),
        set: |b: MultiLogisticRegression<f64>, v: &[f64]| apply(b, v, &[
            &|b: MultiLogisticRegression<f64>, v| b.alpha(at(v, 0)),
            &|b: MultiLogisticRegression<f64>, v| b.gradient_tolerance(at(v, 1)),
            &|b: MultiLogisticRegression<f64>, v| b.with_intercept(cnt(v, 2) == 0),
        ]),
        read: None,
        data: |cx: &Ctx| DatasetBase::new(data::blobs(cx.seed, 12, 2), data::class_targets(12, 3)),
        same: eqd);

    run_fit!(tweedie, LinearError<f64>,
        base: |_: &[f64]| TweedieRegressor::<f64>::params().max_iter(30),
        set: |b: TweedieRegressorParams<f64>, v: &[f64]| {
            type P = TweedieRegressorParams<f64>;
            apply(b, v, &[
                &|b: P, v| b.alpha(at(v, 0)),
                &|b: P, v| b.power(at(v, 1)),
                &|b: P, v| b.fit_intercept(cnt(v, 3) == 0),
                &|b: P, v| match cnt(v, 2) {
                    0 => b,
                    1 => b.link(linfa_linear::Link::Log),
                    2 => b.link(linfa_linear::Link::Identity),
                    _ => b.link(linfa_linear::Link::Logit),
                },
            ])
        },
        read: Some(&|c| vec![c.alpha(), c.power()]),
        data: |cx: &Ctx| {
            let x = data::blobs(cx.seed, 10, 2);
            let y = data::positive_targets(&x, cx.seed);
            DatasetBase::new(x, y)
        },
        same: eqd);
}

mod svm {
    use super::*;
    use linfa::dataset::Pr;
    use linfa::Platt;
    use linfa_svm::{Svm, SvmError, SvmParams};
    use ndarray::Array1;

    fn common() -> Vec<crate::spec::ParamSpec> {
        vec![
            // no doc comment states a range; the error variant only rejects negative values: 0 is left ambiguous
            p("eps", GeAmb(0.0), 1e-7, &[1e-3], (1e-9, 1.0)),
            p("platt_maxiter", CountGe(1), 100.0, &[30.0], (1.0, 100.0)),
            // "minstep should be positive" / "sigma should be positive" while 0 is accepted: ambiguous at 0
            p("platt_minstep", GeAmb(0.0), 1e-10, &[1e-6], (TINY, 1e-3)),
            p("platt_sigma", GeAmb(0.0), 1e-12, &[1e-6], (1e-14, 1e-3)),
            // 0 linear (default), 1 gaussian(2.0), 2 polynomial(1, 2)
            opt("kernel", 3, 2.0),
            // 0 off (default), 1 on; never trained with (shrinking is exercised by C13)
            opt("shrinking", 2, 0.0),
        ]
    }
    fn with(mut head: Vec<crate::spec::ParamSpec>) -> Vec<crate::spec::ParamSpec> {
        head.extend(common());
        head
    }
    fn c_params() -> Vec<crate::spec::ParamSpec> {
        with(vec![
            // crate docs: "C ... should be in the interval (0, inf)"
            p("c_pos", Gt(0.0), 1.0, &[10.0], (1e-3, 100.0)),
            p("c_neg", Gt(0.0), 1.0, &[0.5], (1e-3, 100.0)),
        ])
    }
    fn nu_params() -> Vec<crate::spec::ParamSpec> {
        // crate docs: "(0, 1]"; setter doc: "[0, 1]"; 0 is rejected: ambiguous at 0
        with(vec![p("nu", LeftAmbClosed(0.0, 1.0), 0.5, &[0.25], (0.1, 0.9))])
    }

    pub fn builders() -> Vec<Builder> {
        let b = |id, params, run| Builder { id, params, ctor: NONE, cross: no_cross, narrow: no_narrow, run };
        vec![
            b("svm_c_bool", c_params(), c_bool),
            b("svm_nu_bool", nu_params(), nu_bool),
            b("svm_c_pr", c_params(), c_pr),
            b("svm_nu_pr", nu_params(), nu_pr),
            b("svm_one_class", nu_params(), one_class),
            b(
                "svr_c",
                with(vec![
                    p("c", Gt(0.0), 1.0, &[10.0], (1e-3, 100.0)),
                    // no documented range for the loss epsilon, the code rejects <= 0: consistency only there
                    p("loss_eps", AmbNonPos, 0.1, &[0.01], (1e-4, 1.0)),
                ]),
                svr_c,
            ),
            b("svr_nu", nu_params(), svr_nu),
        ]
    }

    /// variant setter `head` plus solver eps, the nested Platt parameters, kernel and shrinking (stored from index `i` on),
    /// every call one step of the (permutable) chain
    fn chain<T>(
        b: SvmParams<f64, T>,
        v: &[f64],
        i: usize,
        head: &dyn Fn(SvmParams<f64, T>, &[f64]) -> SvmParams<f64, T>,
    ) -> SvmParams<f64, T> {
        apply(
            b,
            v,
            &[
                head,
                &|b: SvmParams<f64, T>, v| b.eps(at(v, i)),
                &|b: SvmParams<f64, T>, v| {
                    b.with_platt_params(Platt::params().maxiter(cnt(v, i + 1)).minstep(at(v, i + 2)).sigma(at(v, i + 3)))
                },
                &|b: SvmParams<f64, T>, v| b.shrinking(cnt(v, i + 5) == 1),
                &|b: SvmParams<f64, T>, v| match cnt(v, i + 4) {
                    0 => b.linear_kernel(),
                    1 => b.gaussian_kernel(2.0),
                    _ => b.with_kernel_params(
                        linfa_kernel::Kernel::params().method(linfa_kernel::KernelMethod::Polynomial(1.0, 2.0)),
                    ),
                },
            ],
        )
    }
    fn tail<T>(b: SvmParams<f64, T>, v: &[f64], i: usize) -> SvmParams<f64, T> {
        chain(b, v, i, &|b, _| b)
    }
    fn set_c<T>(b: SvmParams<f64, T>, v: &[f64]) -> SvmParams<f64, T> {
        chain(b, v, 2, &|b, v| b.pos_neg_weights(at(v, 0), at(v, 1)))
    }
    fn set_nu<T>(b: SvmParams<f64, T>, v: &[f64]) -> SvmParams<f64, T> {
        chain(b, v, 1, &|b, v| b.nu_weight(at(v, 0)))
    }
    // the setters document that C weights and Nu displace each other; NaN (= mismatch) when the other one is still set
    fn read_c<T>(c: &linfa_svm::SvmValidParams<f64, T>) -> Vec<f64> {
        let (a, b) = c.c().unwrap_or((f64::NAN, f64::NAN));
        vec![if c.nu().is_none() { a } else { f64::NAN }, b, c.solver_params().eps]
    }
    fn read_nu<T>(c: &linfa_svm::SvmValidParams<f64, T>) -> Vec<f64> {
        vec![if c.c().is_none() { c.nu().map(|x| x.0).unwrap_or(f64::NAN) } else { f64::NAN }, c.solver_params().eps]
    }
    fn cls_data(cx: &Ctx) -> DatasetBase<ndarray::Array2<f64>, Array1<bool>> {
        DatasetBase::new(data::blobs(cx.seed, 10, 2), data::bool_targets(10))
    }
    fn reg_data(cx: &Ctx) -> DatasetBase<ndarray::Array2<f64>, Array1<f64>> {
        let x = data::blobs(cx.seed, 10, 2);
        let y = data::regression_targets(&x, cx.seed);
        DatasetBase::new(x, y)
    }

    /// like `run_fit!`, plus: on odd seeds the first life of a history case selects the *other* of the two mutually
    /// exclusive variants (C weights <-> Nu), which the setter under test then has to displace completely
    macro_rules! run_svm {
        ($fname:ident, $t:ty, $set:expr, $other:expr, $read:expr, $data:expr) => {
            fn $fname(cx: &Ctx, obs: &mut Obs) {
                let ds = data::decorate($data(cx), cx.seed);
                let ds0 = data::empty_ds(&ds);
                let base = |_: &[f64]| Svm::<f64, $t>::params();
                let set = $set;
                let other = $other;
                let switch = cx.hist.is_some() && cx.seed % 2 == 1;
                obs.class_if(switch, "history_first_life_other_svm_variant");
                let g = Glue {
                    cx,
                    stale: None,
                    first_set: if switch { Some(&other) } else { None },
                    base: &base,
                    set: &set,
                    clone: Some(&|b| b.clone()),
                    touch: &|b| ignore(|| -> Result<_, SvmError> { b.fit(&ds) }),
                };
                let Some((v, hb)) = guard_core(obs, &g, Some(&eq), Some(&eq), Some(&$read)) else {
                    return;
                };
                fit_core::<_, _, SvmError>(obs, &g, &v, &hb, "fit", &|b| b.fit(&ds), &|c| c.fit(&ds), &|| 0, &eqd);
                fit_core_empty::<_, _, SvmError>(obs, &g, &v, &hb, "fit_empty", &|b| b.fit(&ds0), &|c| c.fit(&ds0), &|| 0, &eqd);
            }
        };
    }
    /// first life with Nu (always a valid, trainable one), solver eps / Platt parameters from the earlier assignment
    fn first_nu<T>(b: SvmParams<f64, T>, v: &[f64]) -> SvmParams<f64, T> {
        tail(b.nu_weight(0.4), v, 2)
    }
    /// first life with C weights (valid, different from the default (1, 1))
    fn first_c<T>(b: SvmParams<f64, T>, v: &[f64]) -> SvmParams<f64, T> {
        tail(b.pos_neg_weights(7.0, 3.0), v, 1)
    }
    fn one_class_data(cx: &Ctx) -> DatasetBase<ndarray::Array2<f64>, Array1<()>> {
        DatasetBase::new(data::blobs(cx.seed, 10, 2), Array1::from_elem(10, ()))
    }
    run_svm!(c_bool, bool, set_c::<bool>, first_nu::<bool>, read_c, cls_data);
    run_svm!(nu_bool, bool, set_nu::<bool>, first_c::<bool>, read_nu, cls_data);
    run_svm!(c_pr, Pr, set_c::<Pr>, first_nu::<Pr>, read_c, cls_data);
    run_svm!(nu_pr, Pr, set_nu::<Pr>, first_c::<Pr>, read_nu, cls_data);
    run_svm!(one_class, Pr, set_nu::<Pr>, first_c::<Pr>, read_nu, one_class_data);
    run_svm!(
        svr_c,
        f64,
        |b: SvmParams<f64, f64>, v: &[f64]| chain(b, v, 2, &|b, v| b.c_svr(at(v, 0), Some(at(v, 1)))),
        |b: SvmParams<f64, f64>, v: &[f64]| tail(b.nu_svr(0.4, Some(2.0)), v, 2),
        read_c,
        reg_data
    );
    run_svm!(
        svr_nu,
        f64,
        |b: SvmParams<f64, f64>, v: &[f64]| chain(b, v, 1, &|b, v| b.nu_svr(at(v, 0), None)),
        |b: SvmParams<f64, f64>, v: &[f64]| tail(b.c_svr(7.0, Some(0.3)), v, 1),
        read_nu,
        reg_data
    );
}

mod misc {
    use super::*;
    use linfa::composing::PlattError;
    use linfa::platt_scaling::PlattParams;
    use linfa::traits::PredictInplace;
    use linfa::Platt;
    use linfa_bayes::{GaussianNb, GaussianNbParams, MultinomialNb, MultinomialNbParams, NaiveBayesError};
    use linfa_ftrl::{Ftrl, FtrlError, FtrlParams};
    use linfa_hierarchical::{HierarchicalCluster, HierarchicalError};
    use linfa_kernel::{Kernel, KernelMethod};
    use linfa_trees::{DecisionTree, DecisionTreeParams};
    use ndarray::{Array1, Array2};

    pub fn builders() -> Vec<Builder> {
        let b = |id, params, run| Builder { id, params, ctor: NONE, cross: no_cross, narrow: no_narrow, run };
        vec![
            b(
                "decision_tree",
                vec![
                    p("min_impurity_decrease", TreeFloor, 1e-5, &[1e-3], (1e-12, 0.5)),
                    // 0 Gini (default), 1 entropy
                    opt("split_quality", 2, 1.0),
                    // 0 unlimited depth (default), 1 depth 1, 2 depth 3
                    opt("max_depth", 3, 2.0),
                ],
                tree,
            ),
            b("gaussian_nb", vec![p("var_smoothing", Ge(0.0), 1e-9, &[1e-3], (0.0, 1.0))], gnb),
            b("multinomial_nb", vec![p("alpha", Ge(0.0), 1.0, &[0.3], (0.0, 10.0))], mnb),
            b(
                "ftrl",
                vec![
                    // "alpha must be positive and finite" while 0 is accepted: ambiguous at 0
                    p("alpha", GeAmb(0.0), 0.005, &[0.1], (1e-6, 1.0)),
                    // same wording, but 0.0 is the documented default: 0 is in range
                    p("beta", Ge(0.0), 0.0, &[0.5], (0.0, 10.0)),
                    p("l1_ratio", Closed(0.0, 1.0), 0.5, &[0.25], (0.0, 1.0)),
                    p("l2_ratio", Closed(0.0, 1.0), 0.5, &[0.75], (0.0, 1.0)),
                ],
                ftrl,
            ),
            b(
                "platt",
                vec![
                    p("maxiter", CountGe(1), 100.0, &[30.0], (1.0, 100.0)),
                    p("minstep", GeAmb(0.0), 1e-10, &[1e-6], (TINY, 1e-3)),
                    p("sigma", GeAmb(0.0), 1e-12, &[1e-6], (1e-14, 1e-3)),
                ],
                platt,
            ),
            b(
                "hierarchical_num_clusters",
                vec![p("num_clusters", CountGe(1), 2.0, &[3.0], (1.0, 12.0)), opt("method", 4, 3.0)],
                hier_num,
            ),
            // no doc comment states the range; the code rejects negative values: 0 is left ambiguous
            b(
                "hierarchical_max_distance",
                vec![p("max_distance", GeAmb(0.0), 0.5, &[0.1, 3.0], (TINY, 100.0)), opt("method", 4, 3.0)],
                hier_dist,
            ),
        ]
    }

    fn labelled(cx: &Ctx) -> DatasetBase<Array2<f64>, Array1<usize>> {
        DatasetBase::new(data::blobs(cx.seed, 12, 2), data::class_targets(12, 2))
    }

    run_fit!(tree, linfa::Error,
        base: |_: &[f64]| DecisionTree::<f64, usize>::params(),
        set: |b: DecisionTreeParams<f64, usize>, v: &[f64]| apply(b, v, &[
            &|b: DecisionTreeParams<f64, usize>, v| b.min_impurity_decrease(at(v, 0)),
            &|b: DecisionTreeParams<f64, usize>, v| {
                b.split_quality(if cnt(v, 1) == 0 { linfa_trees::SplitQuality::Gini } else { linfa_trees::SplitQuality::Entropy })
            },
            &|b: DecisionTreeParams<f64, usize>, v| b.max_depth(match cnt(v, 2) {
                0 => None,
                1 => Some(1),
                _ => Some(3),
            }),
        ]),
        read: Some(&|c| vec![c.min_impurity_decrease()]),
        data: labelled,
        same: eqd);

    fn gnb(cx: &Ctx, obs: &mut Obs) {
        type P = GaussianNbParams<f64, usize>;
        let ds = data::decorate(labelled(cx), cx.seed);
        let ds0 = data::empty_ds(&ds);
        let base = |_: &[f64]| -> P { GaussianNb::<f64, usize>::params() };
        let set = |b: P, v: &[f64]| b.var_smoothing(at(v, 0));
        let g = Glue {
            cx, stale: None, first_set: None,
            base: &base,
            set: &set,
            clone: Some(&|b| b.clone()),
            touch: &|b| ignore(|| -> Result<_, NaiveBayesError> { b.fit(&ds) }),
        };
        let Some((v, hb)) = guard_core(obs, &g, Some(&eq), Some(&eq), Some(&|c| vec![c.var_smoothing()])) else {
            return;
        };
        fit_core::<_, _, NaiveBayesError>(obs, &g, &v, &hb, "fit", &|b| b.fit(&ds), &|c| c.fit(&ds), &|| 0, &eqd);
        fit_core_empty::<_, _, NaiveBayesError>(obs, &g, &v, &hb, "fit_empty", &|b| b.fit(&ds0), &|c| c.fit(&ds0), &|| 0, &eqd);
        fit_core::<_, _, NaiveBayesError>(
            obs,
            &g,
            &v,
            &hb,
            "fit_with",
            &|b| b.fit_with(None, &ds),
            &|c| c.fit_with(None, &ds),
            &|| 0,
            &eqd,
        );
        fit_core_empty::<_, _, NaiveBayesError>(
            obs,
            &g,
            &v,
            &hb,
            "fit_with_empty",
            &|b| b.fit_with(None, &ds0),
            &|c| c.fit_with(None, &ds0),
            &|| 0,
            &eqd,
        );
    }

    fn mnb(cx: &Ctx, obs: &mut Obs) {
        type P = MultinomialNbParams<f64, usize>;
        let ds = data::decorate(DatasetBase::new(data::counts(cx.seed, 12, 3), data::class_targets(12, 2)), cx.seed);
        let ds0 = data::empty_ds(&ds);
        let base = |_: &[f64]| -> P { MultinomialNb::<f64, usize>::params() };
        let set = |b: P, v: &[f64]| b.alpha(at(v, 0));
        let g = Glue {
            cx, stale: None, first_set: None,
            base: &base,
            set: &set,
            clone: Some(&|b| b.clone()),
            touch: &|b| ignore(|| -> Result<_, NaiveBayesError> { b.fit(&ds) }),
        };
        let Some((v, hb)) = guard_core(obs, &g, Some(&eq), Some(&eq), Some(&|c| vec![c.alpha()])) else {
            return;
        };
        fit_core::<_, _, NaiveBayesError>(obs, &g, &v, &hb, "fit", &|b| b.fit(&ds), &|c| c.fit(&ds), &|| 0, &eqd);
        fit_core_empty::<_, _, NaiveBayesError>(obs, &g, &v, &hb, "fit_empty", &|b| b.fit(&ds0), &|c| c.fit(&ds0), &|| 0, &eqd);
        fit_core::<_, _, NaiveBayesError>(
            obs,
            &g,
            &v,
            &hb,
            "fit_with",
            &|b| b.fit_with(None, &ds),
            &|c| c.fit_with(None, &ds),
            &|| 0,
            &eqd,
        );
        fit_core_empty::<_, _, NaiveBayesError>(
            obs,
            &g,
            &v,
            &hb,
            "fit_with_empty",
            &|b| b.fit_with(None, &ds0),
            &|c| c.fit_with(None, &ds0),
            &|| 0,
            &eqd,
        );
    }

    fn ftrl(cx: &Ctx, obs: &mut Obs) {
        type P = FtrlParams<f64, CountRng>;
        let rp = Probe::new();
        let ds = data::decorate(DatasetBase::new(data::blobs(cx.seed, 10, 2), data::bool_targets(10)), cx.seed);
        let ds0 = data::empty_ds(&ds);
        let base = |_: &[f64]| -> P { Ftrl::<f64>::params_with_rng(CountRng::new(cx.seed, &rp)) };
        let set = |b: P, v: &[f64]| {
            apply(
                b,
                v,
                &[
                    &|b: P, _| b.rng(CountRng::new(cx.seed, &rp)),
                    &|b: P, v| b.alpha(at(v, 0)),
                    &|b: P, v| b.beta(at(v, 1)),
                    &|b: P, v| b.l1_ratio(at(v, 2)),
                    &|b: P, v| b.l2_ratio(at(v, 3)),
                ],
            )
        };
        let g = Glue {
            cx, stale: None, first_set: None,
            base: &base,
            set: &set,
            clone: Some(&|b| b.clone()),
            touch: &|b| ignore(|| -> Result<_, FtrlError> { b.fit_with(None, &ds) }),
        };
        // the positional constructor `FtrlParams::new(alpha, beta, l1_ratio, l2_ratio, rng)` ("hyperparameters with
        // pre-defined values") must describe the same parameter set as the setter chain with the same values: same
        // verdict, same checked values
        {
            use linfa::ParamGuard;
            obs.class("ftrl_positional_constructor");
            let by_ctor: P = FtrlParams::new(at(cx.vals, 0), at(cx.vals, 1), at(cx.vals, 2), at(cx.vals, 3), CountRng::new(cx.seed, &rp));
            let by_set: P = Ftrl::<f64>::params_with_rng(CountRng::new(cx.seed, &rp)).alpha(at(cx.vals, 0)).beta(at(cx.vals, 1)).l1_ratio(at(cx.vals, 2)).l2_ratio(at(cx.vals, 3));
            let a = match by_ctor.check_ref() {
                Ok(c) => format!("Ok(alpha {:e}, beta {:e}, l1_ratio {:e}, l2_ratio {:e})", c.alpha(), c.beta(), c.l1_ratio(), c.l2_ratio()),
                Err(e) => format!("Err({e})"),
            };
            let b = match by_set.check_ref() {
                Ok(c) => format!("Ok(alpha {:e}, beta {:e}, l1_ratio {:e}, l2_ratio {:e})", c.alpha(), c.beta(), c.l1_ratio(), c.l2_ratio()),
                Err(e) => format!("Err({e})"),
            };
            obs.ensure(a == b, "ftrl:constructor:differs-from-setter-chain", || {
                format!("FtrlParams::new({:e}, {:e}, {:e}, {:e}, rng).check_ref() = {a}, the setter chain with the same values gives {b}", at(cx.vals, 0), at(cx.vals, 1), at(cx.vals, 2), at(cx.vals, 3))
            });
        }
        let Some((v, hb)) = guard_core(
            obs,
            &g,
            Some(&eq),
            Some(&eq),
            Some(&|c| vec![c.alpha(), c.beta(), c.l1_ratio(), c.l2_ratio()]),
        ) else {
            return;
        };
        fit_core::<_, _, FtrlError>(
            obs,
            &g,
            &v,
            &hb,
            "fit_with",
            &|b| b.fit_with(None, &ds),
            &|c| c.fit_with(None, &ds),
            &|| rp.get(),
            &dbg,
        );
        fit_core_empty::<_, _, FtrlError>(
            obs,
            &g,
            &v,
            &hb,
            "fit_with_empty",
            &|b| b.fit_with(None, &ds0),
            &|c| c.fit_with(None, &ds0),
            &|| rp.get(),
            &dbg,
        );
    }

    /// the model handed to Platt scaling: counts how often it is asked to predict
    #[derive(Debug, Clone)]
    struct Scorer(Probe);
    impl PartialEq for Scorer {
        fn eq(&self, _: &Self) -> bool {
            true
        }
    }
    impl PredictInplace<Array2<f64>, Array1<f64>> for Scorer {
        fn predict_inplace(&self, x: &Array2<f64>, y: &mut Array1<f64>) {
            self.0.hit();
            for (i, t) in y.iter_mut().enumerate() {
                *t = 0.5 * x[(i, 0)] + 0.25;
            }
        }
        fn default_target(&self, x: &Array2<f64>) -> Array1<f64> {
            Array1::zeros(x.nrows())
        }
    }

    fn platt(cx: &Ctx, obs: &mut Obs) {
        type P = PlattParams<f64, Scorer>;
        let pp = Probe::new();
        // overlapping scores so that the Newton iteration has a finite optimum
        let mut x = data::blobs(cx.seed, 12, 2);
        x.mapv_inplace(|t| t * 0.25);
        let mut y = data::bool_targets(12);
        y[0] = true;
        y[11] = false;
        let ds = data::decorate(DatasetBase::new(x, y), cx.seed);
        let ds0 = data::empty_ds(&ds);
        let base = |_: &[f64]| -> P { Platt::<f64, Scorer>::params() };
        let set = |b: P, v: &[f64]| {
            apply(b, v, &[&|b: P, v| b.maxiter(cnt(v, 0)), &|b: P, v| b.minstep(at(v, 1)), &|b: P, v| b.sigma(at(v, 2))])
        };
        let g = Glue {
            cx, stale: None, first_set: None,
            base: &base,
            set: &set,
            clone: Some(&|b| b.clone()),
            touch: &|b| ignore(|| -> Result<_, PlattError> { b.fit_with(Scorer(Probe::new()), &ds) }),
        };
        let Some((v, hb)) = guard_core(obs, &g, Some(&eq), Some(&eq), None) else {
            return;
        };
        fit_core::<_, _, PlattError>(
            obs,
            &g,
            &v,
            &hb,
            "fit_with",
            &|b| b.fit_with(Scorer(pp.clone()), &ds),
            &|c| c.fit_with(Scorer(pp.clone()), &ds),
            &|| pp.get(),
            &eqd,
        );
        fit_core_empty::<_, _, PlattError>(
            obs,
            &g,
            &v,
            &hb,
            "fit_with_empty",
            &|b| b.fit_with(Scorer(pp.clone()), &ds0),
            &|c| c.fit_with(Scorer(pp.clone()), &ds0),
            &|| pp.get(),
            &eqd,
        );
    }

    /// partition induced by cluster ids (ids themselves follow HashMap order)
    fn partition(ids: &[usize]) -> Vec<usize> {
        let mut first: Vec<(usize, usize)> = vec![];
        ids.iter()
            .map(|id| match first.iter().find(|(k, _)| k == id) {
                Some((_, n)) => *n,
                None => {
                    first.push((*id, first.len()));
                    first.len() - 1
                }
            })
            .collect()
    }

    fn hier(cx: &Ctx, obs: &mut Obs, set: &dyn Fn(HierarchicalCluster<f64>, &[f64]) -> HierarchicalCluster<f64>) {
        type P = HierarchicalCluster<f64>;
        let x = data::blobs(cx.seed, 12, 2);
        let kernel = || Kernel::params().method(KernelMethod::Gaussian(3.0)).transform(x.view());
        let x0 = data::empty_records(&x);
        let kernel0 = || Kernel::params().method(KernelMethod::Gaussian(3.0)).transform(x0.view());
        let base = |_: &[f64]| -> P { HierarchicalCluster::default() };
        let g = Glue { cx, stale: None, first_set: None, base: &base, set, clone: Some(&|b| b.clone()), touch: &|b| ignore(|| b.transform(kernel())) };
        let Some((v, hb)) = guard_core(obs, &g, Some(&eq), Some(&eq), None) else {
            return;
        };
        fit_core::<_, Vec<usize>, HierarchicalError<f64>>(
            obs,
            &g,
            &v,
            &hb,
            "transform",
            &|b| b.transform(kernel()).map(|d| partition(d.targets())),
            &|c| Ok(partition(c.transform(kernel()).targets())),
            &|| 0,
            &eq,
        );
        fit_core_empty::<_, Vec<usize>, HierarchicalError<f64>>(
            obs,
            &g,
            &v,
            &hb,
            "transform_empty",
            &|b| b.transform(kernel0()).map(|d| partition(d.targets())),
            &|c| Ok(partition(c.transform(kernel0()).targets())),
            &|| 0,
            &eq,
        );
        // dataset forms (kernel + targets + weights + names in, kernel + cluster ids out)
        let summary = |d: DatasetBase<Kernel<f64>, Vec<usize>>| {
            let ids = partition(d.targets());
            let (dims, _, w, names) = data::parts(&d);
            (dims, format!("{ids:?}"), w, names)
        };
        let two = |k: Kernel<f64>| {
            let n = linfa::dataset::Records::nsamples(&k);
            data::full(DatasetBase::new(k, data::two_targets(n)), cx.seed)
        };
        let one = |k: Kernel<f64>| {
            let n = linfa::dataset::Records::nsamples(&k);
            data::full(DatasetBase::new(k, data::class_targets(n, 2)), cx.seed)
        };
        fit_core::<_, data::Parts, HierarchicalError<f64>>(
            obs,
            &g,
            &v,
            &hb,
            "transform_dataset",
            &|b| b.transform(two(kernel())).map(summary),
            &|c| Ok(summary(c.transform(two(kernel())))),
            &|| 0,
            &eq,
        );
        fit_core::<_, data::Parts, HierarchicalError<f64>>(
            obs,
            &g,
            &v,
            &hb,
            "transform_dataset_1d_targets",
            &|b| b.transform(one(kernel())).map(summary),
            &|c| Ok(summary(c.transform(one(kernel())))),
            &|| 0,
            &eq,
        );
        fit_core_empty::<_, data::Parts, HierarchicalError<f64>>(
            obs,
            &g,
            &v,
            &hb,
            "transform_dataset_empty",
            &|b| b.transform(two(kernel0())).map(summary),
            &|c| Ok(summary(c.transform(two(kernel0())))),
            &|| 0,
            &eq,
        );
    }
    /// 0 average (default), 1 single, 2 complete, 3 Ward
    fn method(k: usize) -> linfa_hierarchical::Method {
        match k {
            0 => linfa_hierarchical::Method::Average,
            1 => linfa_hierarchical::Method::Single,
            2 => linfa_hierarchical::Method::Complete,
            _ => linfa_hierarchical::Method::Ward,
        }
    }
    fn hier_num(cx: &Ctx, obs: &mut Obs) {
        type P = HierarchicalCluster<f64>;
        hier(cx, obs, &|b, v| apply(b, v, &[&|b: P, v| b.num_clusters(cnt(v, 0)), &|b: P, v| b.with_method(method(cnt(v, 1)))]));
    }
    fn hier_dist(cx: &Ctx, obs: &mut Obs) {
        type P = HierarchicalCluster<f64>;
        hier(cx, obs, &|b, v| apply(b, v, &[&|b: P, v| b.max_distance(at(v, 0)), &|b: P, v| b.with_method(method(cnt(v, 1)))]));
    }
}

mod reduction {
    use super::*;
    use linfa_ica::fast_ica::FastIca;
    use linfa_ica::hyperparams::FastIcaParams;
    use linfa_kernel::{Kernel, KernelMethod};
    use linfa_pls::{PlsCanonical, PlsCca, PlsError, PlsRegression};
    use linfa_reduction::random_projection::{GaussianRandomProjection, SparseRandomProjection};
    use linfa_reduction::{DiffusionMap, DiffusionMapParams, ReductionError};
    use linfa_tsne::{TSneError, TSneParams};

    fn pls_params() -> Vec<crate::spec::ParamSpec> {
        vec![
            // "The tolerance is should not be negative"
            p("tolerance", Ge(0.0), 1e-6, &[1e-3], (0.0, 1.0)),
            p("max_iterations", CountGe(1), 500.0, &[20.0], (1.0, 500.0)),
            // 0 NIPALS power method (default), 1 full SVD ("max_iterations ... when algorithm='Nipals'. Ignored otherwise": the
            // value is ignored by the SVD, the documented range and its check are not conditional)
            opt("algorithm", 2, 1.0),
            // 0 scale the data (default), 1 do not
            opt("scale", 2, 1.0),
        ]
    }

    pub fn builders() -> Vec<Builder> {
        let b = |id, params, run| Builder { id, params, ctor: NONE, cross: no_cross, narrow: no_narrow, run };
        vec![
            b(
                "tsne",
                vec![
                    // "negative perplexity"
                    p("perplexity", Ge(0.0), 5.0, &[2.0], (0.5, 5.0)),
                    // "lies in range (0, inf) where a value of 0 disables approximation": ambiguous at 0
                    p("approx_threshold", GeAmb(0.0), 0.5, &[0.2], (0.0, 2.0)),
                ],
                tsne,
            ),
            b("pls_regression", pls_params(), pls_regression),
            b("pls_canonical", pls_params(), pls_canonical),
            b("pls_cca", pls_params(), pls_cca),
            // "tolerance should be positive" while 0 is accepted: ambiguous at 0
            b(
                "fast_ica",
                vec![
                    p("tol", GeAmb(0.0), 1e-4, &[1e-2], (1e-8, 1.0)),
                    // 0 logcosh(1.0) (default), 1 exp, 2 cube, 3 logcosh(1.5)
                    opt("gfunc", 4, 3.0),
                ],
                ica,
            ),
            b(
                "diffusion_map",
                vec![
                    p("steps", CountGe(1), 1.0, &[3.0], (1.0, 5.0)),
                    p("embedding_size", CountGe(1), 2.0, &[3.0], (1.0, 4.0)),
                ],
                diffusion,
            ),
            b("random_projection_gaussian_dim", vec![p("target_dim", CountGe(1), 3.0, &[5.0], (1.0, 100.0))], rp_gauss_dim),
            // "Precision parameter must be in the interval (0; 1)"
            b("random_projection_gaussian_eps", vec![p("eps", Open(0.0, 1.0), 0.1, &[0.5, 0.9], (0.0, 1.0))], rp_gauss_eps),
            b("random_projection_sparse_dim", vec![p("target_dim", CountGe(1), 3.0, &[5.0], (1.0, 100.0))], rp_sparse_dim),
            b("random_projection_sparse_eps", vec![p("eps", Open(0.0, 1.0), 0.1, &[0.5, 0.9], (0.0, 1.0))], rp_sparse_eps),
        ]
    }

    fn tsne(cx: &Ctx, obs: &mut Obs) {
        type P = TSneParams<f64, CountRng>;
        let rp = Probe::new();
        let x = data::blobs(cx.seed, 16, 3);
        let x0 = data::empty_records(&x);
        let base = |_: &[f64]| -> P { TSneParams::<f64, _>::embedding_size_with_rng(2, CountRng::new(cx.seed, &rp)).max_iter(4) };
        let set = |b: P, v: &[f64]| {
            apply(b, v, &[&|b: P, v| b.perplexity(at(v, 0)), &|b: P, v| b.approx_threshold(at(v, 1)), &|b: P, _| b.max_iter(4)])
        };
        let g = Glue { cx, stale: None, first_set: None, base: &base, set: &set, clone: Some(&|b| b.clone()), touch: &|b| ignore(|| b.transform(x.clone())) };
        let Some((v, hb)) =
            guard_core(obs, &g, Some(&eq), Some(&eq), Some(&|c| vec![c.perplexity(), c.approx_threshold()]))
        else {
            return;
        };
        // shape / Ok-ness only: the optimiser runs on a thread pool
        fit_core::<_, (usize, usize), TSneError>(
            obs,
            &g,
            &v,
            &hb,
            "transform",
            &|b| b.transform(x.clone()).map(|e| e.dim()),
            &|c| c.transform(x.clone()).map(|e| e.dim()),
            &|| rp.get(),
            &eq,
        );
        fit_core_empty::<_, (usize, usize), TSneError>(
            obs,
            &g,
            &v,
            &hb,
            "transform_empty",
            &|b| b.transform(x0.clone()).map(|e| e.dim()),
            &|c| c.transform(x0.clone()).map(|e| e.dim()),
            &|| rp.get(),
            &eq,
        );
        // dataset forms: the embedding is not reproducible, everything that is handed through (targets, weights, names, shape) is
        let two = |x: &ndarray::Array2<f64>| data::full(DatasetBase::new(x.clone(), data::two_targets(x.nrows())), cx.seed);
        let one = |x: &ndarray::Array2<f64>| data::full(DatasetBase::new(x.clone(), data::class_targets(x.nrows(), 2)), cx.seed);
        fit_core::<_, data::Parts, TSneError>(
            obs,
            &g,
            &v,
            &hb,
            "transform_dataset",
            &|b| b.transform(two(&x)).map(|d| data::parts(&d)),
            &|c| c.transform(two(&x)).map(|d| data::parts(&d)),
            &|| rp.get(),
            &eq,
        );
        fit_core::<_, data::Parts, TSneError>(
            obs,
            &g,
            &v,
            &hb,
            "transform_dataset_1d_targets",
            &|b| b.transform(one(&x)).map(|d| data::parts(&d)),
            &|c| c.transform(one(&x)).map(|d| data::parts(&d)),
            &|| rp.get(),
            &eq,
        );
        fit_core_empty::<_, data::Parts, TSneError>(
            obs,
            &g,
            &v,
            &hb,
            "transform_dataset_empty",
            &|b| b.transform(two(&x0)).map(|d| data::parts(&d)),
            &|c| c.transform(two(&x0)).map(|d| data::parts(&d)),
            &|| rp.get(),
            &eq,
        );
    }

    macro_rules! pls {
        ($name:ident, $ty:ident) => {
            fn $name(cx: &Ctx, obs: &mut Obs) {
                let x = data::blobs(cx.seed, 12, 3);
                let y1 = data::regression_targets(&x, cx.seed);
                let y2 = data::regression_targets(&x, cx.seed + 5).mapv(|t| t * t);
                let y = ndarray::stack![ndarray::Axis(1), y1, y2];
                let ds = data::decorate(DatasetBase::new(x, y), cx.seed);
                let ds0 = data::empty_ds(&ds);
                let base = |_: &[f64]| $ty::<f64>::params(2);
                let set = |b: paste_ty!($ty), v: &[f64]| {
                    type P = paste_ty!($ty);
                    apply(
                        b,
                        v,
                        &[
                            &|b: P, v| b.tolerance(at(v, 0)),
                            &|b: P, v| b.max_iterations(cnt(v, 1)),
                            &|b: P, v| b.algorithm(if cnt(v, 2) == 0 { linfa_pls::Algorithm::Nipals } else { linfa_pls::Algorithm::Svd }),
                            &|b: P, v| b.scale(cnt(v, 3) == 0),
                        ],
                    )
                };
                // no Clone on these builders: the "clone" variant degenerates to the same builder
                let g = Glue { cx, stale: None, first_set: None, base: &base, set: &set, clone: None, touch: &|b| ignore(|| -> Result<_, PlsError> { b.fit(&ds) }) };
                let Some((v, hb)) = guard_core(obs, &g, None, None, None) else {
                    return;
                };
                fit_core::<_, _, PlsError>(obs, &g, &v, &hb, "fit", &|b| b.fit(&ds), &|c| c.fit(&ds), &|| 0, &eqd);
                fit_core_empty::<_, _, PlsError>(obs, &g, &v, &hb, "fit_empty", &|b| b.fit(&ds0), &|c| c.fit(&ds0), &|| 0, &eqd);
            }
        };
    }
    macro_rules! paste_ty {
        (PlsRegression) => { linfa_pls::PlsRegressionParams<f64> };
        (PlsCanonical) => { linfa_pls::PlsCanonicalParams<f64> };
        (PlsCca) => { linfa_pls::PlsCcaParams<f64> };
    }
    pls!(pls_regression, PlsRegression);
    pls!(pls_canonical, PlsCanonical);
    pls!(pls_cca, PlsCca);

    run_fit!(ica, linfa_ica::error::FastIcaError,
        base: |_: &[f64]| FastIca::<f64>::params().max_iter(30),
        set: |b: FastIcaParams<f64>, v: &[f64]| apply(b, v, &[
            &|b: FastIcaParams<f64>, v| b.tol(at(v, 0)),
            &|b: FastIcaParams<f64>, _| b.random_state(7),
            &|b: FastIcaParams<f64>, v| b.gfunc(match cnt(v, 1) {
                0 => linfa_ica::fast_ica::GFunc::Logcosh(1.0),
                1 => linfa_ica::fast_ica::GFunc::Exp,
                2 => linfa_ica::fast_ica::GFunc::Cube,
                _ => linfa_ica::fast_ica::GFunc::Logcosh(1.5),
            }),
        ]),
        read: Some(&|c| vec![c.tol()]),
        data: |cx: &Ctx| DatasetBase::new(data::blobs(cx.seed, 16, 2), data::two_targets(16)),
        same: eqd);

    fn diffusion(cx: &Ctx, obs: &mut Obs) {
        type P = DiffusionMapParams;
        let x = data::blobs(cx.seed, 10, 2);
        let kernel = Kernel::params().method(KernelMethod::Gaussian(3.0)).transform(x.view());
        let x0 = data::empty_records(&x);
        let kernel0 = Kernel::params().method(KernelMethod::Gaussian(3.0)).transform(x0.view());
        let base = |_: &[f64]| -> P { DiffusionMap::<f64>::params(2) };
        let set = |b: P, v: &[f64]| apply(b, v, &[&|b: P, v| b.steps(cnt(v, 0)), &|b: P, v| b.embedding_size(cnt(v, 1))]);
        let g = Glue {
            cx, stale: None, first_set: None,
            base: &base,
            set: &set,
            clone: Some(&|b| b.clone()),
            touch: &|b| ignore(|| -> Result<DiffusionMap<f64>, ReductionError> { b.transform(&kernel) }),
        };
        let Some((v, hb)) =
            guard_core(obs, &g, Some(&eq), Some(&eq), Some(&|c| vec![c.steps() as f64, c.embedding_size() as f64]))
        else {
            return;
        };
        fit_core::<_, DiffusionMap<f64>, ReductionError>(
            obs,
            &g,
            &v,
            &hb,
            "transform",
            &|b| b.transform(&kernel),
            &|c| Ok(c.transform(&kernel)),
            &|| 0,
            &eqd,
        );
        fit_core_empty::<_, DiffusionMap<f64>, ReductionError>(
            obs,
            &g,
            &v,
            &hb,
            "transform_empty",
            &|b| b.transform(&kernel0),
            &|c| Ok(c.transform(&kernel0)),
            &|| 0,
            &eqd,
        );
    }

    macro_rules! rp {
        ($name:ident, $ty:ident, $pty:ident, $set:ident, $conv:expr, $read:expr) => {
            fn $name(cx: &Ctx, obs: &mut Obs) {
                type P = linfa_reduction::random_projection::$pty<CountRng>;
                let rp = Probe::new();
                let ds = data::decorate(DatasetBase::new(data::blobs(cx.seed, 4, 80), data::two_targets(4)), cx.seed);
                let ds0 = data::empty_ds(&ds);
                let probe_x = data::blobs(cx.seed + 1, 3, 80);
                // constructed with another generator; `with_rng` (builder-transforming, first in the canonical order)
                // installs the real one and must carry the dimension / precision over
                let base = |_: &[f64]| -> P { $ty::<f64>::params_with_rng(CountRng::new(cx.seed ^ 0x5eed, &rp)) };
                let set = |b: P, v: &[f64]| {
                    apply(b, v, &[&|b: P, _| b.with_rng(CountRng::new(cx.seed, &rp)), &|b: P, v| b.$set($conv(at(v, 0)))])
                };
                // no Clone on these builders: the "clone" variant degenerates to the same builder
                let g = Glue {
                    cx, stale: None, first_set: None,
                    base: &base,
                    set: &set,
                    clone: None,
                    touch: &|b| ignore(|| -> Result<$ty<f64>, ReductionError> { b.fit(&ds) }),
                };
                let Some((v, hb)) = guard_core(obs, &g, None, None, Some(&$read)) else {
                    return;
                };
                fit_core::<_, $ty<f64>, ReductionError>(
                    obs,
                    &g,
                    &v,
                    &hb,
                    "fit",
                    &|b| b.fit(&ds),
                    &|c| c.fit(&ds),
                    &|| rp.get(),
                    &|a, b| a.transform(&probe_x) == b.transform(&probe_x),
                );
                fit_core_empty::<_, $ty<f64>, ReductionError>(
                    obs,
                    &g,
                    &v,
                    &hb,
                    "fit_empty",
                    &|b| b.fit(&ds0),
                    &|c| c.fit(&ds0),
                    &|| rp.get(),
                    &|a, b| a.transform(&probe_x) == b.transform(&probe_x),
                );
            }
        };
    }
    fn as_is(v: f64) -> f64 {
        v
    }
    rp!(rp_gauss_dim, GaussianRandomProjection, GaussianRandomProjectionParams, target_dim, as_count, |c: &linfa_reduction::random_projection::GaussianRandomProjectionValidParams<CountRng>| vec![c.target_dim().map(|d| d as f64).unwrap_or(f64::NAN)]);
    rp!(rp_gauss_eps, GaussianRandomProjection, GaussianRandomProjectionParams, eps, as_is, |c: &linfa_reduction::random_projection::GaussianRandomProjectionValidParams<CountRng>| vec![c.eps().unwrap_or(f64::NAN)]);
    rp!(rp_sparse_dim, SparseRandomProjection, SparseRandomProjectionParams, target_dim, as_count, |c: &linfa_reduction::random_projection::SparseRandomProjectionValidParams<CountRng>| vec![c.target_dim().map(|d| d as f64).unwrap_or(f64::NAN)]);
    rp!(rp_sparse_eps, SparseRandomProjection, SparseRandomProjectionParams, eps, as_is, |c: &linfa_reduction::random_projection::SparseRandomProjectionValidParams<CountRng>| vec![c.eps().unwrap_or(f64::NAN)]);
}

mod text {
    use super::*;
    use linfa_preprocessing::{CountVectorizer, CountVectorizerParams, PreprocessingError, Tokenizer};
    use ndarray::array;

    const OTHER_REGEX: &str = r"\b[^ ][^ ]+\b";
    const BAD_REGEX: &str = r"[";
    const DEFAULT_REGEX: &str = r"\b\w\w+\b";

    fn cross(v: &[f64]) -> Expect {
        // "`min_n` should not be greater than `max_n`", "`min_freq` should not be greater than `max_freq`"
        if v.len() == 7 && v[0] <= v[1] && v[2] <= v[3] {
            Expect::In
        } else {
            Expect::Out
        }
    }

    pub fn builders() -> Vec<Builder> {
        vec![Builder {
            id: "count_vectorizer",
            params: vec![
                p("n_gram_min", CountGe(1), 1.0, &[2.0], (1.0, 3.0)),
                p("n_gram_max", CountGe(1), 1.0, &[2.0, 3.0], (1.0, 3.0)),
                // "`min_freq` and `max_freq` must lie in `0..=1`"
                p32("min_document_frequency", Closed(0.0, 1.0), 0.0, &[0.25], (0.0, 0.5)),
                p32("max_document_frequency", Closed(0.0, 1.0), 1.0, &[0.75], (0.5, 1.0)),
                // 0 default regex, 1 another valid regex, 2 the invalid regex "[", 3 function tokenizer
                p("tokenizer", Category { n: 4, bad: 2 }, 0.0, &[], (0.0, 3.0)),
                // 0 lowercase (default), 1 keep case
                opt("convert_to_lowercase", 2, 1.0),
                // 0 NFKD normalisation (default), 1 none
                opt("normalize", 2, 1.0),
            ],
            ctor: NONE,
            cross,
            narrow: no_narrow,
            run: count_vectorizer,
        }]
    }

    fn split_on_space(s: &str) -> Vec<&str> {
        s.split(' ').collect()
    }

    fn set(b: CountVectorizerParams, v: &[f64]) -> CountVectorizerParams {
        type P = CountVectorizerParams;
        apply(
            b,
            v,
            &[
                &|b: P, v| b.n_gram_range(cnt(v, 0), cnt(v, 1)),
                &|b: P, v| b.document_frequency(at(v, 2) as f32, at(v, 3) as f32),
                &|b: P, v| match cnt(v, 4) {
                    0 => b.tokenizer(Tokenizer::Regex(DEFAULT_REGEX.to_string())),
                    1 => b.tokenizer(Tokenizer::Regex(OTHER_REGEX.to_string())),
                    2 => b.tokenizer(Tokenizer::Regex(BAD_REGEX.to_string())),
                    _ => b.tokenizer(Tokenizer::Function(split_on_space)),
                },
                &|b: P, v| b.convert_to_lowercase(cnt(v, 5) == 0),
                &|b: P, v| b.normalize(cnt(v, 6) == 0),
            ],
        )
    }

    fn count_vectorizer(cx: &Ctx, obs: &mut Obs) {
        type P = CountVectorizerParams;
        // the three tokenizers split these documents differently
        let texts = array![
            "one-two three a Four",
            "two three four",
            "three four five b",
            "four five-six seven",
            "one four",
            "seven four two"
        ];
        let texts0: ndarray::Array1<&str> = ndarray::Array1::from(Vec::<&str>::new());
        let base = |_: &[f64]| -> P { CountVectorizer::params() };
        // Recorded defect, direction 1: `.tokenizer(Tokenizer::Function(f))` keeps an earlier invalid regex
        // expression, which check_ref still compiles although it is no longer used. Recognised exactly by the
        // error text of the stale regex.
        let bad_regex_then_function = cx.hist.as_ref().map(|h| cnt(h.vals, 4) == 2).unwrap_or(false) && cnt(cx.vals, 4) == 3;
        let stale = if bad_regex_then_function {
            obs.class("invalid_regex_then_function_tokenizer");
            let mut with_bad = cx.vals.to_vec();
            if let Some(t) = with_bad.get_mut(4) {
                *t = 2.0;
            }
            set(base(cx.vals), &with_bad)
                .check_ref()
                .err()
                .map(|e| ("history:function-tokenizer-after-invalid-regex-still-rejected", e.to_string()))
        } else {
            None
        };
        let g = Glue {
            cx, stale, first_set: None,
            base: &base,
            set: &set,
            clone: Some(&|b| b.clone()),
            touch: &|b| ignore(|| b.fit(&texts)),
        };
        let Some((v, hb)) = guard_core(
            obs,
            &g,
            None,
            None,
            Some(&|c| {
                let (x, y) = c.n_gram_range();
                let (l, h) = c.document_frequency();
                vec![x as f64, y as f64, l as f64, h as f64]
            }),
        ) else {
            return;
        };
        let voc = |c: CountVectorizer| {
            let mut w = c.vocabulary().clone();
            w.sort();
            w
        };
        // Recorded defect, direction 2 (own signature): `.tokenizer(Tokenizer::Regex(..))` on a builder that holds a function
        // tokenizer keeps the function, so the regex that was just set is ignored. Recognised exactly: the result
        // must then equal that of a fresh builder with the function tokenizer; anything else fails as usual.
        let function_then_regex = cx.hist.as_ref().map(|h| cnt(h.vals, 4) == 3).unwrap_or(false) && cnt(cx.vals, 4) <= 1;
        if function_then_regex && v.ok && cx.fit_safe {
            let mut as_function = cx.vals.to_vec();
            if let Some(t) = as_function.get_mut(4) {
                *t = 3.0;
            }
            let got = vengine::guard(|| hb.fit(&texts).map(voc).map_err(|e| e.to_string()));
            let want = vengine::guard(|| set(base(cx.vals), cx.vals).fit(&texts).map(voc).map_err(|e| e.to_string()));
            let defect = vengine::guard(|| set(base(cx.vals), &as_function).fit(&texts).map(voc).map_err(|e| e.to_string()));
            obs.class("function_tokenizer_then_regex");
            match (got, want, defect) {
                (Ok(g0), Ok(w0), Ok(d0)) => {
                    if g0 != w0 {
                        if g0 == d0 {
                            obs.fail(
                                cx.sig("history:regex-after-function-tokenizer-keeps-function"),
                                format!(
                                    "after .tokenizer(Tokenizer::Function(f)) a later .tokenizer(Tokenizer::Regex(r)) is ignored: fit gave {:?}, a fresh builder with the regex gives {:?} ({})",
                                    g0,
                                    w0,
                                    cx.describe()
                                ),
                            );
                        } else {
                            obs.fail(
                                cx.sig("fit:valid-differs-from-checked"),
                                format!("fit gave {:?}, a fresh builder gives {:?} ({})", g0, w0, cx.describe()),
                            );
                        }
                    }
                }
                _ => obs.fail(cx.sig("fit:panics-on-valid"), format!("fit panicked ({})", cx.describe())),
            }
            return;
        }
        fit_core::<_, _, PreprocessingError>(
            obs,
            &g,
            &v,
            &hb,
            "fit",
            &|b| b.fit(&texts).map(voc),
            &|c| c.fit(&texts).map(voc),
            &|| 0,
            &eq,
        );
        fit_core_empty::<_, _, PreprocessingError>(
            obs,
            &g,
            &v,
            &hb,
            "fit_empty",
            &|b| b.fit(&texts0).map(voc),
            &|c| c.fit(&texts0).map(voc),
            &|| 0,
            &eq,
        );
        let words = ["alpha", "beta", "gamma"];
        let words0: [&str; 0] = [];
        fit_core::<_, _, PreprocessingError>(
            obs,
            &g,
            &v,
            &hb,
            "fit_vocabulary",
            &|b| b.fit_vocabulary(&words).map(voc),
            &|c| c.fit_vocabulary(&words).map(voc),
            &|| 0,
            &eq,
        );
        fit_core_empty::<_, _, PreprocessingError>(
            obs,
            &g,
            &v,
            &hb,
            "fit_vocabulary_empty",
            &|b| b.fit_vocabulary(&words0).map(voc),
            &|c| c.fit_vocabulary(&words0).map(voc),
            &|| 0,
            &eq,
        );
    }
}
