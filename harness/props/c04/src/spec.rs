//! Documented ranges (DESIGN Appendix A, re-verified against the doc comments and error texts of
//! the pinned tree) and the boundary grids derived from them.
//!
//! Every parameter value is carried as an `f64` (counts as integral floats). The expectation of a
//! value is computed from the *documented* range by the harness' own comparison, never through
//! linfa. `Amb` marks values at which the documentation itself disagrees (or is silent) — there
//! only the consistency obligations are asserted, never the verdict.

#[derive(Clone, Copy, PartialEq, Eq, Debug)]
pub enum Expect {
    In,
    Out,
    Amb,
}

#[derive(Clone, Copy, Debug)]
pub enum Dom {
    /// documented `x > a`
    Gt(f64),
    /// documented `x >= a`
    Ge(f64),
    /// `x > a` in range, `x < a` out of range, `x == a` ambiguous ("positive" while `a` is accepted, or the
    /// reverse; or no wording at all for the bound)
    GeAmb(f64),
    /// documented `a <= x <= b`
    Closed(f64, f64),
    /// documented `a < x < b`
    Open(f64, f64),
    /// `a < x <= b` in range; `x == a` ambiguous (two doc comments disagree); else out
    LeftAmbClosed(f64, f64),
    /// documented "not in the open interval (a, b)"
    NotOpen(f64, f64),
    /// decision tree `min_impurity_decrease`: "greater than zero"; the code's floor is machine epsilon:
    /// `x <= 0` out, `0 < x < eps` ambiguous, `x >= eps` in
    TreeFloor,
    /// no documented range, but the code rejects `x <= 0`: `x <= 0` ambiguous, `x > 0` in
    AmbNonPos,
    /// integer count, documented `x >= n`
    CountGe(u64),
    /// enum / bool valued builder option with values `0..n`: no range of its own, every value is valid; the verdict
    /// of the numeric parameters must not depend on it
    Choice(u64),
    /// categorical parameter with values `0..n`; the value `bad` is documented as an error, the others are valid
    Category { n: u64, bad: u64 },
    /// integer count, `x >= n` in range, below ambiguous (range table and error list of the docs disagree)
    CountGeAmbBelow(u64),
}

pub fn next_up(x: f64) -> f64 {
    if x == 0.0 {
        return f64::MIN_POSITIVE;
    }
    let b = x.to_bits();
    f64::from_bits(if x > 0.0 { b + 1 } else { b - 1 })
}
pub fn next_down(x: f64) -> f64 {
    -next_up(-x)
}
pub fn next_up32(x: f64) -> f64 {
    let x = x as f32;
    if x == 0.0 {
        return f32::MIN_POSITIVE as f64;
    }
    let b = x.to_bits();
    f32::from_bits(if x > 0.0 { b + 1 } else { b - 1 }) as f64
}
pub fn next_down32(x: f64) -> f64 {
    -next_up32(-x)
}

impl Dom {
    pub fn expect(&self, x: f64) -> Expect {
        use Expect::*;
        let b = |c: bool| if c { In } else { Out };
        match *self {
            Dom::Gt(a) => b(x > a),
            Dom::Ge(a) => b(x >= a),
            Dom::GeAmb(a) => {
                if x == a {
                    Amb
                } else {
                    b(x > a)
                }
            }
            Dom::Closed(a, c) => b(x >= a && x <= c),
            Dom::Open(a, c) => b(x > a && x < c),
            Dom::LeftAmbClosed(a, c) => {
                if x == a {
                    Amb
                } else {
                    b(x > a && x <= c)
                }
            }
            Dom::NotOpen(a, c) => b(!(x > a && x < c)),
            Dom::TreeFloor => {
                if x <= 0.0 {
                    Out
                } else if x < f64::EPSILON {
                    Amb
                } else {
                    In
                }
            }
            Dom::AmbNonPos => {
                if x <= 0.0 {
                    Amb
                } else {
                    In
                }
            }
            Dom::CountGe(n) => b(x >= n as f64),
            Dom::Category { bad, .. } => b(x != bad as f64),
            Dom::Choice(_) => In,
            Dom::CountGeAmbBelow(n) => {
                if x >= n as f64 {
                    In
                } else {
                    Amb
                }
            }
        }
    }

    /// Boundary points of the documented range: far below / just below / at / just inside each bound
    /// (and at / just above an upper bound). `single` = the parameter is stored as `f32` by linfa.
    pub fn boundary(&self, single: bool) -> Vec<f64> {
        let up = |x: f64| if single { next_up32(x) } else { next_up(x) };
        let dn = |x: f64| if single { next_down32(x) } else { next_down(x) };
        match *self {
            Dom::Gt(a) | Dom::Ge(a) | Dom::GeAmb(a) => vec![a - 1.0, dn(a), a, up(a)],
            Dom::AmbNonPos => vec![-1.0, dn(0.0), 0.0, up(0.0)],
            Dom::Closed(a, c) | Dom::Open(a, c) | Dom::LeftAmbClosed(a, c) | Dom::NotOpen(a, c) => vec![
                a - 0.5,
                dn(a),
                a,
                up(a),
                dn(c),
                c,
                up(c),
                c + 6.0,
            ],
            Dom::TreeFloor => vec![
                -1.0,
                dn(0.0),
                0.0,
                up(0.0),
                f64::EPSILON / 2.0,
                dn(f64::EPSILON),
                f64::EPSILON,
                up(f64::EPSILON),
            ],
            Dom::Category { n, .. } | Dom::Choice(n) => (0..n).map(|k| k as f64).collect(),
            Dom::CountGe(n) | Dom::CountGeAmbBelow(n) => {
                let mut v = vec![];
                if n >= 2 {
                    v.push(0.0);
                }
                if n >= 1 {
                    v.push((n - 1) as f64);
                }
                v.push(n as f64);
                v.push((n + 1) as f64);
                v
            }
        }
    }
}

#[derive(Clone, Debug)]
pub struct ParamSpec {
    pub name: &'static str,
    pub dom: Dom,
    /// linfa's default (or, for constructor arguments without a default, the harness' base value)
    pub default: f64,
    /// far-inside, non-default values (all of them safe to train with)
    pub inside: &'static [f64],
    /// inclusive interval of values the tiny training run is exercised with; outside it only
    /// `check` / `check_ref` (and the rejecting path of `fit`) are exercised
    pub safe: (f64, f64),
    /// stored as `f32` by linfa
    pub single: bool,
}

impl ParamSpec {
    fn is_float(&self) -> bool {
        !matches!(self.dom, Dom::CountGe(_) | Dom::CountGeAmbBelow(_) | Dom::Choice(_) | Dom::Category { .. })
    }
    /// grid; index 0 is the default so that shrinking converges to "all default". Wherever 0.0 is on the grid of a
    /// float parameter, -0.0 is added (consistency-only value, see `expect`); wherever the smallest normal number is,
    /// the smallest denormal is added with the same sign.
    pub fn grid(&self) -> Vec<f64> {
        let mut g = vec![self.default];
        let push = |g: &mut Vec<f64>, v: f64| {
            if v.is_finite() && !g.iter().any(|w| w.to_bits() == v.to_bits()) {
                g.push(v);
            }
        };
        for v in self.inside.iter().copied().chain(self.dom.boundary(self.single)) {
            push(&mut g, v);
        }
        if self.is_float() {
            let (tiny, denormal) = if self.single {
                (f32::MIN_POSITIVE as f64, f32::from_bits(1) as f64)
            } else {
                (f64::MIN_POSITIVE, f64::from_bits(1))
            };
            let snapshot = g.clone();
            for v in snapshot {
                if v.to_bits() == 0 {
                    push(&mut g, -0.0);
                } else if v == tiny {
                    push(&mut g, denormal);
                } else if v == -tiny {
                    push(&mut g, -denormal);
                }
            }
        }
        g
    }
    /// expectation from the documented range; `-0.0` is consistency-only everywhere (the docs say nothing about the
    /// sign of zero, linfa's guards mix sign-bit tests and comparisons)
    pub fn expect(&self, v: f64) -> Expect {
        if self.is_float() && v == 0.0 && v.is_sign_negative() {
            return Expect::Amb;
        }
        self.dom.expect(v)
    }
    pub fn is_safe(&self, v: f64) -> bool {
        v >= self.safe.0 && v <= self.safe.1
    }
}

pub const fn p(
    name: &'static str,
    dom: Dom,
    default: f64,
    inside: &'static [f64],
    safe: (f64, f64),
) -> ParamSpec {
    ParamSpec { name, dom, default, inside, safe, single: false }
}
pub const fn p32(
    name: &'static str,
    dom: Dom,
    default: f64,
    inside: &'static [f64],
    safe: (f64, f64),
) -> ParamSpec {
    ParamSpec { name, dom, default, inside, safe, single: true }
}

/// option with `n` values, default 0, trained with the values `0..=safe_max`
pub const fn opt(name: &'static str, n: u64, safe_max: f64) -> ParamSpec {
    ParamSpec { name, dom: Dom::Choice(n), default: 0.0, inside: &[], safe: (0.0, safe_max), single: false }
}

pub fn combine(parts: impl IntoIterator<Item = Expect>) -> Expect {
    let mut amb = false;
    for e in parts {
        match e {
            Expect::Out => return Expect::Out,
            Expect::Amb => amb = true,
            Expect::In => {}
        }
    }
    if amb {
        Expect::Amb
    } else {
        Expect::In
    }
}
