fn main() {
    vengine::main(c04::property())
}
