//! Tiny valid datasets, derived from the case's seed (`SplitMix`), well conditioned so that every
//! estimator trains on them in well under a millisecond-to-millisecond range.

use linfa::dataset::Records;
use ndarray::{Array1, Array2};
use vengine::gen::SplitMix;

/// two well separated blobs: rows 0..n/2 around (-2, -2, ..), the rest around (+2, +2, ..)
pub fn blobs(seed: u64, n: usize, p: usize) -> Array2<f64> {
    let mut r = SplitMix(seed ^ 0xc04c04);
    Array2::from_shape_fn((n, p), |(i, j)| {
        let c = if i < n / 2 { -2.0 } else { 2.0 };
        let g = (r.gauss() * 0.5 * 1024.0).round() / 1024.0;
        c + g + 0.125 * j as f64
    })
}

pub fn bool_targets(n: usize) -> Array1<bool> {
    Array1::from_shape_fn(n, |i| i >= n / 2)
}

pub fn class_targets(n: usize, k: usize) -> Array1<usize> {
    Array1::from_shape_fn(n, |i| (i * k) / n)
}

/// noisy linear response of the blobs' features
pub fn regression_targets(x: &Array2<f64>, seed: u64) -> Array1<f64> {
    let mut r = SplitMix(seed ^ 0x7e57);
    Array1::from_shape_fn(x.nrows(), |i| {
        let mut s = 0.5;
        for j in 0..x.ncols() {
            s += (j as f64 + 1.0) * 0.25 * x[(i, j)];
        }
        s + (r.gauss() * 0.05 * 1024.0).round() / 1024.0
    })
}

/// strictly positive targets (valid for every Tweedie power)
pub fn positive_targets(x: &Array2<f64>, seed: u64) -> Array1<f64> {
    regression_targets(x, seed).mapv(|v| 1.0 + v.abs())
}

/// non-negative count-like features (multinomial naive Bayes)
pub fn counts(seed: u64, n: usize, p: usize) -> Array2<f64> {
    let mut r = SplitMix(seed ^ 0xc0c0);
    Array2::from_shape_fn((n, p), |(i, j)| {
        let base = if (i < n / 2) == (j % 2 == 0) { 4 } else { 1 };
        (base + r.below(3)) as f64
    })
}

/// empty (zero-sample) companions of the tiny datasets: same number of columns, no rows
pub trait EmptyLike {
    fn empty_like(&self) -> Self;
}
impl<T: Clone> EmptyLike for Array1<T> {
    fn empty_like(&self) -> Self {
        Array1::from(Vec::<T>::new())
    }
}
impl EmptyLike for Array2<f64> {
    fn empty_like(&self) -> Self {
        Array2::zeros((0, self.ncols()))
    }
}
pub fn empty_records(x: &Array2<f64>) -> Array2<f64> {
    Array2::zeros((0, x.ncols()))
}
pub fn empty_ds<T: EmptyLike>(ds: &linfa::DatasetBase<Array2<f64>, T>) -> linfa::DatasetBase<Array2<f64>, T> {
    linfa::DatasetBase::new(empty_records(ds.records()), ds.targets().empty_like())
}

// ---- decorated datasets: sample weights, feature names, two target columns

pub fn weights(n: usize, seed: u64) -> ndarray::Array1<f32> {
    ndarray::Array1::from_shape_fn(n, |i| 0.5 + ((i * 7 + seed as usize) % 5) as f32 * 0.25)
}
pub fn names(p: usize) -> Vec<String> {
    (0..p).map(|j| format!("feature_{j}")).collect()
}
pub fn two_targets(n: usize) -> Array2<f64> {
    Array2::from_shape_fn((n, 2), |(i, c)| (i * 3 + c) as f64)
}
/// on odd seeds the dataset carries sample weights and feature names
pub fn decorate<T>(ds: linfa::DatasetBase<Array2<f64>, T>, seed: u64) -> linfa::DatasetBase<Array2<f64>, T> {
    if seed % 2 == 1 {
        let (n, p) = ds.records().dim();
        ds.with_weights(weights(n, seed)).with_feature_names(names(p))
    } else {
        ds
    }
}
/// always weighted and named (the dataset forms of `transform` hand these parts through)
pub fn full<R: linfa::dataset::Records, T>(ds: linfa::DatasetBase<R, T>, seed: u64) -> linfa::DatasetBase<R, T> {
    let (n, p) = (ds.nsamples(), ds.nfeatures());
    let ds = ds.with_feature_names(names(p));
    if seed % 4 == 0 {
        ds
    } else {
        ds.with_weights(weights(n, seed))
    }
}
/// the pass-through parts of a dataset: (samples, features), targets, weights, feature names
pub type Parts = ((usize, usize), String, Option<Vec<f32>>, Vec<String>);
pub fn parts<R: linfa::dataset::Records, T: std::fmt::Debug>(ds: &linfa::DatasetBase<R, T>) -> Parts {
    (
        (ds.nsamples(), ds.nfeatures()),
        format!("{:?}", ds.targets()),
        ds.weights().map(|w| w.to_vec()),
        ds.feature_names().to_vec(),
    )
}
