//! C04 — invalid hyper-parameters are rejected with an error before any training.
//!
//! A hand-transcribed table (`builders::registry`, from DESIGN Appendix A, each row re-verified
//! against the setter's doc comment, the struct-level docs and the crate's error texts) gives the
//! *documented* range of every numeric parameter of every `ParamGuard` builder of the workspace.
//! A case is one builder plus a full assignment taken from the boundary grids of its parameters.
//! The expectation is computed from the table by the harness' own comparisons; linfa is observed
//! through `check_ref`, `check`, and `fit` / `fit_with` / `transform` on the *unchecked* builder.

pub mod builders;
pub mod core;
pub mod data;
pub mod spec;

use crate::core::{Ctx, Hist};
use crate::spec::{combine, Expect, ParamSpec};
use proptest::prelude::*;
use serde::{Deserialize, Serialize};
use vengine::gen::idx;
use vengine::{enum_sub, prop_sub, Obs, Property, Tier};

#[derive(Debug, Clone, Serialize, Deserialize)]
pub struct Case {
    /// builder id (see `builders::registry`)
    pub builder: String,
    /// one value per parameter, in the order of the builder's table row
    pub vals: Vec<f64>,
    /// seed of the tiny dataset / of linfa's generators
    pub seed: u64,
    /// history cases: the builder's earlier life (absent = the builder is configured once)
    #[serde(default, skip_serializing_if = "Option::is_none")]
    pub first: Option<First>,
    /// order cases: keys that permute the setter / builder-transforming calls (stable sort of the call indices by key);
    /// absent = the canonical order
    #[serde(default, skip_serializing_if = "Option::is_none")]
    pub order: Option<Vec<u16>>,
}

#[derive(Debug, Clone, Serialize, Deserialize)]
pub struct First {
    /// the assignment the builder was configured with before
    pub vals: Vec<f64>,
    /// operation run on it afterwards (outcome ignored): 0 = check_ref, 1 = check on a copy, 2 = fit / fit_with / transform on tiny data
    pub action: u8,
    /// re-configure a clone taken after that operation (false: the same builder)
    pub on_clone: bool,
}

pub struct Builder {
    pub id: &'static str,
    pub params: Vec<ParamSpec>,
    /// indices of parameters that can only be given to the constructor (equal in both assignments of a history case)
    pub ctor: &'static [usize],
    /// cross-parameter constraints of the documented range (`min <= max`), `In` when there are none
    pub cross: fn(&[f64]) -> Expect,
    /// recognises assignments whose only out-of-range reason is a recorded defect
    pub narrow: fn(&[f64]) -> Option<&'static str>,
    pub run: fn(&Ctx, &mut Obs),
}

pub fn no_cross(_: &[f64]) -> Expect {
    Expect::In
}
pub fn no_narrow(_: &[f64]) -> Option<&'static str> {
    None
}

fn expectation(b: &Builder, vals: &[f64]) -> (Vec<Expect>, Expect, Expect, bool) {
    let per: Vec<Expect> = b.params.iter().zip(vals).map(|(p, v)| p.expect(*v)).collect();
    let cross = (b.cross)(vals);
    let expect = combine(per.iter().copied().chain(std::iter::once(cross)));
    let safe = b.params.iter().zip(vals).all(|(p, v)| p.is_safe(*v));
    (per, cross, expect, safe)
}

/// stored cases written before a parameter was appended to a row: missing trailing values are the defaults
fn padded(b: &Builder, vals: &[f64]) -> Vec<f64> {
    let mut v = vals.to_vec();
    while v.len() < b.params.len() {
        v.push(b.params[v.len()].default);
    }
    v
}

fn check_case(c: &Case, obs: &mut Obs) {
    let reg = builders::registry();
    let Some(b) = reg.iter().find(|b| b.id == c.builder) else {
        obs.skip("unknown_builder");
        return;
    };
    crate::core::set_order(c.order.clone());
    obs.class_if(c.order.is_some(), "setter_order_permuted");
    let vals = padded(b, &c.vals);
    if b.params.len() != vals.len() || vals.iter().any(|v| !v.is_finite()) {
        obs.skip("malformed_case");
        return;
    }
    let (per, cross, expect, fit_safe) = expectation(b, &vals);
    let n_out = per.iter().filter(|e| **e == Expect::Out).count() + usize::from(cross == Expect::Out);
    let n_in_nondefault = b
        .params
        .iter()
        .zip(&vals)
        .zip(&per)
        .filter(|((p, v), e)| **e == Expect::In && v.to_bits() != p.default.to_bits())
        .count();
    let n_nondefault = b.params.iter().zip(&vals).filter(|(p, v)| v.to_bits() != p.default.to_bits()).count();

    match expect {
        Expect::In => obs.class("expect_valid"),
        Expect::Out => obs.class("expect_invalid"),
        Expect::Amb => obs.class("expect_ambiguous_bound_consistency_only"),
    }
    obs.class_if(vals.iter().any(|v| *v == 0.0 && v.is_sign_negative()), "has_negative_zero");
    obs.class_if(vals.iter().any(|v| *v != 0.0 && v.abs() < f32::MIN_POSITIVE as f64 * 0.5), "has_denormal_or_tiny_value");
    obs.class_if(n_out >= 2, "two_or_more_out_of_range");
    obs.class_if(cross == Expect::Out, "cross_constraint_violated");
    obs.class_if(n_nondefault == 0, "all_default");
    obs.class_if(expect == Expect::In && fit_safe, "valid_and_trainable");

    // history
    let first_vals;
    let hist = match &c.first {
        None => {
            // NT rule of the design: at least one out-of-range value together with at least one in-range non-default value
            obs.nontrivial_if(n_out >= 1 && n_in_nondefault >= 1);
            None
        }
        Some(f) => {
            first_vals = padded(b, &f.vals);
            let ctor_equal = b.ctor.iter().all(|i| first_vals.get(*i).map(|x| x.to_bits()) == vals.get(*i).map(|x| x.to_bits()));
            if first_vals.len() != vals.len() || first_vals.iter().any(|v| !v.is_finite()) || !ctor_equal {
                obs.skip("malformed_case");
                return;
            }
            let (_, _, e1, safe1) = expectation(b, &first_vals);
            let changed = first_vals.iter().zip(&vals).any(|(a, b)| a.to_bits() != b.to_bits());
            obs.class(match (e1, expect) {
                (Expect::In, Expect::Out) => "history_valid_then_invalid",
                (Expect::Out, Expect::In) => "history_invalid_then_valid",
                (Expect::In, Expect::In) => "history_valid_then_valid",
                (Expect::Out, Expect::Out) => "history_invalid_then_invalid",
                _ => "history_with_ambiguous_assignment",
            });
            obs.class(match f.action {
                0 => "history_first_op_check_ref",
                1 => "history_first_op_check_by_value",
                _ if safe1 => "history_first_op_training_entry",
                _ => "history_first_op_training_entry_replaced_by_check_ref",
            });
            obs.class_if(f.on_clone, "history_reconfigured_clone");
            obs.class_if(!f.on_clone, "history_reconfigured_same_builder");
            obs.class_if(!changed, "history_same_assignment_twice");
            // NT rule of the history sub-checks: valid -> invalid here; "both valid with differing fit result" is decided in fit_core
            obs.nontrivial_if(e1 == Expect::In && expect == Expect::Out);
            Some(Hist { vals: &first_vals, action: f.action, on_clone: f.on_clone, trainable: safe1, expect: e1 })
        }
    };

    let narrow = if expect == Expect::Out { (b.narrow)(&vals) } else { None };
    let cx = Ctx {
        id: b.id,
        vals: &vals,
        names: b.params.iter().map(|p| p.name).collect(),
        expect,
        fit_safe,
        narrow,
        seed: c.seed,
        hist,
    };
    obs.class(cx.cls(match expect {
        Expect::In => "valid",
        Expect::Out => "invalid",
        Expect::Amb => "ambiguous",
    }));
    (b.run)(&cx, obs);
}

// ------------------------------------------------------------------------------------------------
// generators

/// every single-parameter boundary row: one parameter walks its grid, the others stay at their default
fn single_rows() -> Vec<Case> {
    let mut out = vec![];
    for b in builders::registry() {
        let defaults: Vec<f64> = b.params.iter().map(|p| p.default).collect();
        out.push(Case { builder: b.id.to_string(), vals: defaults.clone(), seed: 1, first: None, order: None });
        for (i, p) in b.params.iter().enumerate() {
            for (k, g) in p.grid().into_iter().enumerate().skip(1) {
                let mut vals = defaults.clone();
                vals[i] = g;
                out.push(Case { builder: b.id.to_string(), vals, seed: (i * 31 + k) as u64, first: None, order: None });
            }
        }
    }
    out
}

/// every pair of parameters × every pair of grid values, the others at their default
fn pair_rows() -> Vec<Case> {
    let mut out = vec![];
    for b in builders::registry() {
        let defaults: Vec<f64> = b.params.iter().map(|p| p.default).collect();
        for i in 0..b.params.len() {
            for j in (i + 1)..b.params.len() {
                let gi = b.params[i].grid();
                let gj = b.params[j].grid();
                for (a, x) in gi.iter().enumerate().skip(1) {
                    for (c, y) in gj.iter().enumerate().skip(1) {
                        let mut vals = defaults.clone();
                        vals[i] = *x;
                        vals[j] = *y;
                        out.push(Case { builder: b.id.to_string(), vals, seed: (a * 17 + c) as u64, first: None, order: None });
                    }
                }
            }
        }
    }
    out
}

/// the full product of the grids ("every parameter in combination"), for every builder whose product has at most `limit` points
fn full_product(limit: usize) -> Vec<Case> {
    let mut out = vec![];
    for b in builders::registry() {
        let grids: Vec<Vec<f64>> = b.params.iter().map(|p| p.grid()).collect();
        let total: usize = grids.iter().map(|g| g.len()).product();
        if total > limit {
            continue;
        }
        for mut k in 0..total {
            let mut vals = Vec::with_capacity(grids.len());
            for g in &grids {
                vals.push(g[k % g.len()]);
                k /= g.len();
            }
            out.push(Case { builder: b.id.to_string(), vals, seed: (out.len() % 7) as u64, first: None, order: None });
        }
    }
    out
}

/// one full assignment. `mode` steers the share of verdicts: all values in range / exactly one
/// parameter anywhere on its grid / every parameter anywhere on its grid.
fn assignment(b: &Builder, mode: u8, picks: &[u16], which: u16) -> Vec<f64> {
    let k = b.params.len();
    let free = idx(which, k.max(1));
    b.params
        .iter()
        .enumerate()
        .map(|(i, p)| {
            let g = p.grid();
            let pick = picks.get(i).copied().unwrap_or(0);
            let anywhere = g[idx(pick, g.len())];
            let inside: Vec<f64> = g.iter().copied().filter(|v| p.expect(*v) == Expect::In).collect();
            let trainable: Vec<f64> = inside.iter().copied().filter(|v| p.is_safe(*v)).collect();
            let in_range = if inside.is_empty() { p.default } else { inside[idx(pick, inside.len())] };
            let safe = if trainable.is_empty() { p.default } else { trainable[idx(pick, trainable.len())] };
            match mode {
                0 | 1 => safe,     // valid and trainable
                2 => in_range,     // valid, bounds included
                3 | 4 => {
                    // one parameter free
                    if i == free {
                        anywhere
                    } else {
                        safe
                    }
                }
                _ => anywhere,
            }
        })
        .collect()
}

/// random full assignments
fn combo_strategy() -> impl Strategy<Value = Case> {
    let n = builders::registry().len();
    (any::<u16>(), 0u8..8, proptest::collection::vec(any::<u16>(), 12), any::<u16>(), 0u64..16).prop_map(
        move |(bi, mode, picks, which, seed)| {
            let reg = builders::registry();
            let b = &reg[idx(bi, n)];
            Case { builder: b.id.to_string(), vals: assignment(b, mode, &picks, which), seed, first: None, order: None }
        },
    )
}

/// random histories: two full assignments (constructor-only parameters shared), first operation, same builder / clone
fn history_strategy() -> impl Strategy<Value = Case> {
    let n = builders::registry().len();
    (
        any::<u16>(),
        (0u8..8, proptest::collection::vec(any::<u16>(), 12), any::<u16>()),
        (0u8..8, proptest::collection::vec(any::<u16>(), 12), any::<u16>()),
        0u8..3,
        any::<bool>(),
        0u64..16,
    )
        .prop_map(move |(bi, (m2, p2, w2), (m1, p1, w1), action, on_clone, seed)| {
            let reg = builders::registry();
            let b = &reg[idx(bi, n)];
            let vals = assignment(b, m2, &p2, w2);
            // the earlier assignment is valid and trainable in 5 of 8 cases
            let mut v1 = assignment(b, m1, &p1, w1);
            for i in b.ctor {
                if let (Some(x), Some(y)) = (v1.get_mut(*i), vals.get(*i)) {
                    *x = *y;
                }
            }
            Case { builder: b.id.to_string(), vals, seed, first: Some(First { vals: v1, action, on_clone }), order: None }
        })
}

/// enumerated histories: for every parameter, every ordered pair (a, b) of its grid values: configured with a
/// (others default), first operation, re-configured to b. All six (operation, same/clone) variants for transitions
/// from or to the default, one variant (cycled) for the others.
fn history_rows() -> Vec<Case> {
    let mut out = vec![];
    for b in builders::registry() {
        let defaults: Vec<f64> = b.params.iter().map(|p| p.default).collect();
        for (i, p) in b.params.iter().enumerate() {
            if b.ctor.contains(&i) {
                continue;
            }
            let g = p.grid();
            for (ia, a) in g.iter().enumerate() {
                for (ib, bv) in g.iter().enumerate() {
                    let mut v1 = defaults.clone();
                    v1[i] = *a;
                    let mut v2 = defaults.clone();
                    v2[i] = *bv;
                    let variants: Vec<u8> = if ia == 0 || ib == 0 { (0..6).collect() } else { vec![((ia * 7 + ib) % 6) as u8] };
                    for var in variants {
                        out.push(Case {
                            builder: b.id.to_string(),
                            vals: v2.clone(),
                            seed: (ia + ib) as u64 % 5,
                            first: Some(First { vals: v1.clone(), action: var % 3, on_clone: var >= 3 }),
                            order: None,
                        });
                    }
                }
            }
        }
    }
    out
}

/// systematic orders over up to 12 calls: reversed, and "call j last" / "call j first" for every j
fn systematic_orders() -> Vec<Vec<u16>> {
    let mut v = vec![(0..12u16).map(|i| 12 - i).collect::<Vec<u16>>()];
    for j in 0..8usize {
        let mut last = vec![0u16; 12];
        last[j] = 1;
        v.push(last);
        let mut first = vec![1u16; 12];
        first[j] = 0;
        v.push(first);
    }
    v
}

/// enumerated order cases: every single-parameter boundary row under every systematic order, every pair row reversed
fn order_rows() -> Vec<Case> {
    let mut out = vec![];
    let orders = systematic_orders();
    for c in single_rows() {
        for o in &orders {
            out.push(Case { order: Some(o.clone()), ..c.clone() });
        }
    }
    for c in pair_rows() {
        out.push(Case { order: Some(orders[0].clone()), ..c });
    }
    out
}

/// random order cases: a random full assignment (in half of the cases with a history) under a random permutation of the calls
fn order_strategy() -> impl Strategy<Value = Case> {
    (
        prop_oneof![combo_strategy(), history_strategy()],
        proptest::collection::vec(0u16..12, 12),
    )
        .prop_map(|(c, keys)| Case { order: Some(keys), ..c })
}

pub fn property() -> Property {
    Property {
        id: "C04",
        rule: "case = (builder, one value per numeric parameter from the boundary grid {far below, just below, at, just inside, far inside, at / just \
               above an upper bound} of its documented range, dataset seed). Enumerated: every single-parameter boundary row and every pair of \
               parameters x pair of grid values (others default), and the full product of all grids for every builder whose product has <= 2500 points (quick) / for every builder whose product has <= 60 000 points (thorough); random: full assignments (all-valid / one free parameter / all free). \
               Non-trivial = at least one out-of-range value together with at least one in-range non-default value; distinct = distinct canonical JSON. \
               History sub-checks: two assignments v1, v2 (constructor-only parameters shared); a builder is configured with v1, one of {check_ref, check on a copy, \
               training entry point} runs on it, then the same builder or a clone of it is re-configured to v2 through the setters and must be indistinguishable from a \
               fresh builder with v2. Enumerated: every ordered pair of grid values of every parameter; random: two full assignments. Non-trivial there = v1 valid and v2 \
               invalid, or both valid and trainable with different training results. Order sub-checks: the setter and builder-transforming calls (with_rng, dist_fn / nn_algo, \
               with_kernel_params, with_platt_params, ...) of a row are applied in a generated permutation; verdict, error text, checked value, builder equality and training result \
               must equal those of the canonical call order (and the getters the generated values). Enumerated: every single row under 'reversed', 'call j first', 'call j last'; \
               every pair row reversed; random: full assignments (half of them with a history) under a random permutation",
        assumptions: builders::assumptions(),
        subs: vec![
            prop_sub("random_combinations", 40000, 1200000, |_t: Tier| combo_strategy(), check_case).chunks(16),
            enum_sub("full_product", |t: Tier| full_product(t.pick(2500, 60_000)), check_case).chunks(16),
            enum_sub("pair_rows", |_t: Tier| pair_rows(), check_case).chunks(16),
            enum_sub("single_rows", |_t: Tier| single_rows(), check_case).chunks(8),
            prop_sub("history_random", 30000, 600000, |_t: Tier| history_strategy(), check_case).chunks(16),
            enum_sub("history_rows", |_t: Tier| history_rows(), check_case).chunks(16),
            prop_sub("order_random", 25000, 400000, |_t: Tier| order_strategy(), check_case).chunks(16),
            enum_sub("order_rows", |_t: Tier| order_rows(), check_case).chunks(16),
        ],
    }
}
