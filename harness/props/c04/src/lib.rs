//! C04 — invalid hyper-parameters are rejected with an error before any training.
//!
//! A hand-transcribed table (`builders::registry`, from DESIGN Appendix A, each row re-verified
//! against the setter's doc comment, the struct-level docs and the crate's error texts) gives the
//! *documented* range of every numeric parameter of every `ParamGuard` builder of the workspace.
//! A case is one builder plus a full assignment taken from the boundary grids of its parameters.
//! The expectation is computed from the table by the harness' own comparisons; linfa is observed
//! through `check_ref`, `check`, and `fit` / `fit_with` / `transform` on the *unchecked* builder.

pub mod builders;
pub mod core;
pub mod data;
pub mod spec;

use crate::core::Ctx;
use crate::spec::{combine, Expect, ParamSpec};
use proptest::prelude::*;
use serde::{Deserialize, Serialize};
use vengine::gen::idx;
use vengine::{enum_sub, prop_sub, Obs, Property, Tier};

#[derive(Debug, Clone, Serialize, Deserialize)]
pub struct Case {
    /// builder id (see `builders::registry`)
    pub builder: String,
    /// one value per parameter, in the order of the builder's table row
    pub vals: Vec<f64>,
    /// seed of the tiny dataset / of linfa's generators
    pub seed: u64,
}

pub struct Builder {
    pub id: &'static str,
    pub params: Vec<ParamSpec>,
    /// cross-parameter constraints of the documented range (`min <= max`), `In` when there are none
    pub cross: fn(&[f64]) -> Expect,
    /// recognises assignments whose only out-of-range reason is a recorded defect
    pub narrow: fn(&[f64]) -> Option<&'static str>,
    pub run: fn(&Ctx, &mut Obs),
}

pub fn no_cross(_: &[f64]) -> Expect {
    Expect::In
}
pub fn no_narrow(_: &[f64]) -> Option<&'static str> {
    None
}

fn check_case(c: &Case, obs: &mut Obs) {
    let reg = builders::registry();
    let Some(b) = reg.iter().find(|b| b.id == c.builder) else {
        obs.skip("unknown_builder");
        return;
    };
    if b.params.len() != c.vals.len() || c.vals.iter().any(|v| !v.is_finite()) {
        obs.skip("malformed_case");
        return;
    }
    let per: Vec<Expect> = b.params.iter().zip(&c.vals).map(|(p, v)| p.expect(*v)).collect();
    let cross = (b.cross)(&c.vals);
    let expect = combine(per.iter().copied().chain(std::iter::once(cross)));
    let fit_safe = b.params.iter().zip(&c.vals).all(|(p, v)| p.is_safe(*v));
    let n_out = per.iter().filter(|e| **e == Expect::Out).count() + usize::from(cross == Expect::Out);
    let n_in_nondefault = b
        .params
        .iter()
        .zip(&c.vals)
        .zip(&per)
        .filter(|((p, v), e)| **e == Expect::In && v.to_bits() != p.default.to_bits())
        .count();
    let n_nondefault = b.params.iter().zip(&c.vals).filter(|(p, v)| v.to_bits() != p.default.to_bits()).count();

    match expect {
        Expect::In => obs.class("expect_valid"),
        Expect::Out => obs.class("expect_invalid"),
        Expect::Amb => obs.class("expect_ambiguous_bound_consistency_only"),
    }
    obs.class_if(n_out >= 2, "two_or_more_out_of_range");
    obs.class_if(cross == Expect::Out, "cross_constraint_violated");
    obs.class_if(n_nondefault == 0, "all_default");
    obs.class_if(expect == Expect::In && fit_safe, "valid_and_trainable");
    // NT rule of the design: at least one out-of-range value together with at least one in-range non-default value
    obs.nontrivial_if(n_out >= 1 && n_in_nondefault >= 1);

    let narrow = if expect == Expect::Out { (b.narrow)(&c.vals) } else { None };
    let cx = Ctx {
        id: b.id,
        vals: &c.vals,
        names: b.params.iter().map(|p| p.name).collect(),
        expect,
        fit_safe,
        narrow,
        seed: c.seed,
    };
    obs.class(cx.cls(match expect {
        Expect::In => "valid",
        Expect::Out => "invalid",
        Expect::Amb => "ambiguous",
    }));
    (b.run)(&cx, obs);
}

// ------------------------------------------------------------------------------------------------
// generators

/// every single-parameter boundary row: one parameter walks its grid, the others stay at their default
fn single_rows() -> Vec<Case> {
    let mut out = vec![];
    for b in builders::registry() {
        let defaults: Vec<f64> = b.params.iter().map(|p| p.default).collect();
        out.push(Case { builder: b.id.to_string(), vals: defaults.clone(), seed: 1 });
        for (i, p) in b.params.iter().enumerate() {
            for (k, g) in p.grid().into_iter().enumerate().skip(1) {
                let mut vals = defaults.clone();
                vals[i] = g;
                out.push(Case { builder: b.id.to_string(), vals, seed: (i * 31 + k) as u64 });
            }
        }
    }
    out
}

/// every pair of parameters × every pair of grid values, the others at their default
fn pair_rows() -> Vec<Case> {
    let mut out = vec![];
    for b in builders::registry() {
        let defaults: Vec<f64> = b.params.iter().map(|p| p.default).collect();
        for i in 0..b.params.len() {
            for j in (i + 1)..b.params.len() {
                let gi = b.params[i].grid();
                let gj = b.params[j].grid();
                for (a, x) in gi.iter().enumerate().skip(1) {
                    for (c, y) in gj.iter().enumerate().skip(1) {
                        let mut vals = defaults.clone();
                        vals[i] = *x;
                        vals[j] = *y;
                        out.push(Case { builder: b.id.to_string(), vals, seed: (a * 17 + c) as u64 });
                    }
                }
            }
        }
    }
    out
}

/// the full product of the grids ("every parameter in combination"), for every builder whose product has at most `limit` points
fn full_product(limit: usize) -> Vec<Case> {
    let mut out = vec![];
    for b in builders::registry() {
        let grids: Vec<Vec<f64>> = b.params.iter().map(|p| p.grid()).collect();
        let total: usize = grids.iter().map(|g| g.len()).product();
        if total > limit {
            continue;
        }
        for mut k in 0..total {
            let mut vals = Vec::with_capacity(grids.len());
            for g in &grids {
                vals.push(g[k % g.len()]);
                k /= g.len();
            }
            out.push(Case { builder: b.id.to_string(), vals, seed: (out.len() % 7) as u64 });
        }
    }
    out
}

/// random full assignments. `mode` steers the share of verdicts: all values in range / exactly one
/// parameter anywhere on its grid / every parameter anywhere on its grid.
fn combo_strategy() -> impl Strategy<Value = Case> {
    let n = builders::registry().len();
    (any::<u16>(), 0u8..8, proptest::collection::vec(any::<u16>(), 12), any::<u16>(), 0u64..16).prop_map(
        move |(bi, mode, picks, which, seed)| {
            let reg = builders::registry();
            let b = &reg[idx(bi, n)];
            let k = b.params.len();
            let free = idx(which, k.max(1));
            let vals = b
                .params
                .iter()
                .enumerate()
                .map(|(i, p)| {
                    let g = p.grid();
                    let pick = picks.get(i).copied().unwrap_or(0);
                    let anywhere = g[idx(pick, g.len())];
                    let inside: Vec<f64> = g.iter().copied().filter(|v| p.expect(*v) == Expect::In).collect();
                    let trainable: Vec<f64> = inside.iter().copied().filter(|v| p.is_safe(*v)).collect();
                    let in_range = if inside.is_empty() { p.default } else { inside[idx(pick, inside.len())] };
                    let safe = if trainable.is_empty() { p.default } else { trainable[idx(pick, trainable.len())] };
                    match mode {
                        0 | 1 => safe,                                   // valid and trainable
                        2 => in_range,                                   // valid, bounds included
                        3 | 4 => if i == free { anywhere } else { safe } // one parameter free
                        _ => anywhere,
                    }
                })
                .collect();
            Case { builder: b.id.to_string(), vals, seed }
        },
    )
}

pub fn property() -> Property {
    Property {
        id: "C04",
        rule: "case = (builder, one value per numeric parameter from the boundary grid {far below, just below, at, just inside, far inside, at / just \
               above an upper bound} of its documented range, dataset seed). Enumerated: every single-parameter boundary row and every pair of \
               parameters x pair of grid values (others default), and the full product of all grids for every builder whose product has <= 2500 points (quick) / for every builder (thorough); random: full assignments (all-valid / one free parameter / all free). \
               Non-trivial = at least one out-of-range value together with at least one in-range non-default value; distinct = distinct canonical JSON",
        assumptions: builders::assumptions(),
        subs: vec![
            prop_sub("random_combinations", 40000, 1200000, |_t: Tier| combo_strategy(), check_case).chunks(16),
            enum_sub("full_product", |t: Tier| full_product(t.pick(2500, 400_000)), check_case).chunks(16),
            enum_sub("pair_rows", |_t: Tier| pair_rows(), check_case).chunks(16),
            enum_sub("single_rows", |_t: Tier| single_rows(), check_case).chunks(8),
        ],
    }
}
