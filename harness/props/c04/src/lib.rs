//! C04 — stub (to be written; see /verif/harness/AUTHORING.md and DESIGN.md §3 C04)
use vengine::Property;

pub fn property() -> Property {
    Property { id: "C04", rule: "", assumptions: vec![], subs: vec![] }
}
