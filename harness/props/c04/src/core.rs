//! Builder-independent oracle: the obligations (1)–(3) of DESIGN §3 C04, written once.

use crate::spec::Expect;
use linfa::ParamGuard;
use rand::RngCore;
use rand_xoshiro::Xoshiro256Plus;
use std::fmt::Display;
use std::sync::atomic::{AtomicUsize, Ordering};
use std::sync::Arc;
use vengine::{guard, Obs};

/// The earlier life of the builder in a history case: it was configured with `vals`, one
/// operation was run on it (outcome ignored), and only then it was re-configured through the
/// setters to the case's values.
pub struct Hist<'a> {
    pub vals: &'a [f64],
    /// 0 = `check_ref`, 1 = `check` on a clone (by value where the builder has no `Clone`), 2 = the training entry point on tiny data
    pub action: u8,
    /// re-configure a clone taken after the first operation instead of the builder itself
    pub on_clone: bool,
    /// the first assignment lies inside the trainable intervals (otherwise action 2 is replaced by `check_ref`)
    pub trainable: bool,
    pub expect: Expect,
}

/// One evaluated case, seen from a builder's `run` function.
pub struct Ctx<'a> {
    pub id: &'static str,
    pub vals: &'a [f64],
    pub names: Vec<&'static str>,
    pub expect: Expect,
    /// every value lies in the interval the tiny training run is exercised with
    pub fit_safe: bool,
    /// the only reason for `expect == Out` is a recorded defect: use this verdict signature instead of the general one
    pub narrow: Option<&'static str>,
    pub seed: u64,
    pub hist: Option<Hist<'a>>,
}

impl<'a> Ctx<'a> {
    pub fn v(&self, i: usize) -> f64 {
        self.vals.get(i).copied().unwrap_or(f64::NAN)
    }
    pub fn u(&self, i: usize) -> usize {
        as_count(self.v(i))
    }
    /// class label `<builder>/<what>` (interned: `Obs::class` wants `&'static str`; the set is finite)
    pub fn cls(&self, what: &str) -> &'static str {
        use std::collections::HashMap;
        use std::sync::Mutex;
        static TABLE: Mutex<Option<HashMap<String, &'static str>>> = Mutex::new(None);
        let key = format!("{}/{}", self.id, what);
        let mut g = match TABLE.lock() {
            Ok(g) => g,
            Err(p) => p.into_inner(),
        };
        let t = g.get_or_insert_with(HashMap::new);
        if let Some(s) = t.get(&key) {
            return s;
        }
        let s: &'static str = Box::leak(key.clone().into_boxed_str());
        t.insert(key, s);
        s
    }
    pub fn sig(&self, what: &str) -> String {
        format!("{}:{}", self.id, what)
    }
    fn fmt_vals(&self, vals: &[f64]) -> String {
        self.names
            .iter()
            .zip(vals.iter())
            .map(|(n, v)| format!("{n}={v:e}"))
            .collect::<Vec<_>>()
            .join(", ")
    }
    pub fn describe(&self) -> String {
        let order = ORDER.with(|o| o.borrow().clone());
        let base = self.describe_values();
        match order {
            Some(k) => format!("{base}; setter / transforming calls applied in the order given by keys {:?}", k),
            None => base,
        }
    }
    fn describe_values(&self) -> String {
        match &self.hist {
            None => self.fmt_vals(self.vals),
            Some(h) => format!(
                "{}; history: configured with [{}], then {}, then {} re-configured through the setters",
                self.fmt_vals(self.vals),
                self.fmt_vals(h.vals),
                match h.action {
                    0 => "check_ref()",
                    1 => "check() on a copy",
                    _ => "the training entry point",
                },
                if h.on_clone { "a clone of it" } else { "the same builder" }
            ),
        }
    }
}

pub fn as_count(x: f64) -> usize {
    if x.is_finite() && x >= 0.0 {
        x as usize
    } else {
        0
    }
}

thread_local! {
    /// order keys of the current case (None = canonical order) and whether they are in force
    static ORDER: std::cell::RefCell<Option<Vec<u16>>> = const { std::cell::RefCell::new(None) };
    static ORDER_ON: std::cell::Cell<bool> = const { std::cell::Cell::new(true) };
}

/// set by `check_case` for every case
pub fn set_order(keys: Option<Vec<u16>>) {
    ORDER.with(|o| *o.borrow_mut() = keys);
    ORDER_ON.with(|f| f.set(true));
}
pub fn has_order() -> bool {
    ORDER.with(|o| o.borrow().is_some())
}
fn canonically<T>(f: impl FnOnce() -> T) -> T {
    let before = ORDER_ON.with(|x| x.replace(false));
    let r = f();
    ORDER_ON.with(|x| x.set(before));
    r
}

/// Applies the setter / builder-transforming calls `steps` to `b`: in the written (canonical) order, or — for an
/// order case — in the permutation decoded from the case's keys (stable sort of the step indices by key).
pub fn apply<P>(b: P, v: &[f64], steps: &[&dyn Fn(P, &[f64]) -> P]) -> P {
    let on = ORDER_ON.with(|x| x.get());
    let perm: Vec<usize> = match ORDER.with(|o| o.borrow().clone()) {
        Some(keys) if on => vengine::gen::perm_from_keys(&keys, steps.len()),
        _ => (0..steps.len()).collect(),
    };
    let mut b = b;
    for i in perm {
        if let Some(s) = steps.get(i) {
            b = s(b, v);
        }
    }
    b
}

/// How one builder type is constructed, (re-)configured and copied.
pub struct Glue<'a, P> {
    pub cx: &'a Ctx<'a>,
    /// constructor; takes the assignment for parameters that can only be given at construction
    pub base: &'a dyn Fn(&[f64]) -> P,
    /// every setter, applied to an existing builder
    pub set: &'a dyn Fn(P, &[f64]) -> P,
    pub clone: Option<&'a dyn Fn(&P) -> P>,
    /// runs the training entry point on tiny data, outcome ignored (must not let a panic escape)
    pub touch: &'a dyn Fn(&P),
    /// recorded defect of a history case: (narrow signature, exact error text the defect produces). When the
    /// re-configured builder is rejected with exactly this text while a fresh builder is accepted, the narrow
    /// signature is reported instead of the general verdict signatures; any other deviation fails as usual
    pub stale: Option<(&'static str, String)>,
    /// history cases only: how the *earlier* assignment is applied when that differs from `set` (SVM: the first
    /// life selects the other of the two mutually exclusive C / Nu variants, so that the later setter has to displace it)
    pub first_set: Option<&'a dyn Fn(P, &[f64]) -> P>,
}

impl<'a, P: ParamGuard> Glue<'a, P> {
    /// a builder configured directly with the case's values (setter calls in the case's order)
    pub fn fresh(&self) -> P {
        (self.set)((self.base)(self.cx.vals), self.cx.vals)
    }
    /// the reference: a builder configured directly with the case's values, setter calls in the canonical order
    pub fn reference(&self) -> P {
        canonically(|| self.fresh())
    }
    /// a fresh builder with the *earlier* assignment of a history case
    pub fn fresh_first(&self) -> Option<P> {
        self.cx.hist.as_ref().map(|h| self.first_life(h.vals))
    }
    fn first_life(&self, v1: &[f64]) -> P {
        match self.first_set {
            Some(fs) => fs((self.base)(v1), v1),
            None => (self.set)((self.base)(v1), v1),
        }
    }
    /// the builder under test: `fresh()` for plain cases; for history cases the builder that lived through
    /// the earlier configuration + operation and was then re-configured
    pub fn make(&self) -> P {
        let Some(h) = &self.cx.hist else {
            return self.fresh();
        };
        let b1 = self.first_life(h.vals);
        match (h.action, h.trainable) {
            (1, _) => {
                let copy = match self.clone {
                    Some(cl) => cl(&b1),
                    None => self.first_life(h.vals),
                };
                let _ = guard(|| {
                    let _ = copy.check();
                });
            }
            (2, true) => (self.touch)(&b1),
            _ => {
                let _ = guard(|| {
                    let _ = b1.check_ref();
                });
            }
        }
        let b = match (h.on_clone, self.clone) {
            (true, Some(cl)) => cl(&b1),
            _ => b1,
        };
        (self.set)(b, self.cx.vals)
    }
}

/// What `check_ref` said.
#[derive(Clone, Debug)]
pub struct Verdict {
    pub ok: bool,
    /// `Display` of the error (empty when ok)
    pub err: String,
}

/// Obligations (1) and (2): verdict of `check_ref` against the documented range; `check_ref` is
/// repeatable and leaves the builder equal to a fresh copy; `check` gives the same verdict, the
/// same error text, a checked value equal to the one `check_ref` exposes, and that value still
/// carries the generated numbers (`read`). History cases: verdict, error text, builder and
/// checked value must equal those of a fresh builder configured directly with the same values.
/// Returns the verdict and the builder under test (after its `check_ref`).
pub fn guard_core<P>(
    obs: &mut Obs,
    g: &Glue<P>,
    same_p: Option<&dyn Fn(&P, &P) -> bool>,
    same_c: Option<&dyn Fn(&P::Checked, &P::Checked) -> bool>,
    read: Option<&dyn Fn(&P::Checked) -> Vec<f64>>,
) -> Option<(Verdict, P)>
where
    P: ParamGuard,
    P::Error: Display,
{
    let cx = g.cx;
    let p = g.make();
    let first = obs.call(&cx.sig("check_ref"), || p.check_ref().map(|_| ()).map_err(|e| e.to_string()))?;
    let v = Verdict { ok: first.is_ok(), err: first.clone().err().unwrap_or_default() };

    // history: what does a fresh builder with the same values say?
    let compare = cx.hist.is_some() || has_order();
    let kind = if cx.hist.is_some() { "history" } else { "order" };
    let fresh_verdict = if compare {
        let f = g.reference();
        obs.call(&cx.sig("check_ref"), || f.check_ref().map(|_| ()).map_err(|e| e.to_string()))
    } else {
        None
    };
    let stale_hit = match (&g.stale, &fresh_verdict) {
        (Some((sig, text)), Some(Ok(()))) if !v.ok && &v.err == text => {
            obs.fail(
                cx.sig(sig),
                format!("re-configured builder is rejected with \"{}\" although a fresh builder with the same values is accepted ({})", v.err, cx.describe()),
            );
            true
        }
        _ => false,
    };

    // (1) verdict
    if !stale_hit {
        match cx.expect {
            Expect::In => {
                obs.ensure(v.ok, &cx.sig("verdict:rejected-in-range"), || {
                    format!("every value is inside its documented range ({}) but check_ref returned Err(\"{}\")", cx.describe(), v.err)
                });
            }
            Expect::Out => {
                if !v.ok {
                    // fine
                } else if let Some(n) = cx.narrow {
                    obs.fail(cx.sig(n), format!("check_ref accepted {}", cx.describe()));
                } else {
                    obs.fail(
                        cx.sig("verdict:accepted-out-of-range"),
                        format!("a value is outside its documented range ({}) but check_ref returned Ok", cx.describe()),
                    );
                }
            }
            Expect::Amb => {}
        }
    }

    // history: the re-configured builder must be indistinguishable from a fresh one
    if let (Some(fr), false) = (&fresh_verdict, stale_hit) {
        obs.ensure(fr.is_ok() == v.ok, &cx.sig(&format!("{kind}:verdict-differs-from-fresh-builder")), || {
            format!(
                "builder under test: check_ref = {:?}; fresh builder with the same values, canonical setter order: {:?} ({})",
                first,
                fr,
                cx.describe()
            )
        });
        if let (Err(a), Err(b)) = (&first, fr) {
            obs.ensure(a == b, &cx.sig(&format!("{kind}:error-differs-from-fresh-builder")), || {
                format!("re-configured builder fails with \"{a}\", a fresh builder with the same values with \"{b}\" ({})", cx.describe())
            });
        }
        let f = g.reference();
        if let (Some(eq), Ok(cp), Ok(cf)) = (same_c, p.check_ref(), f.check_ref()) {
            obs.ensure(eq(cp, cf), &cx.sig(&format!("{kind}:checked-value-differs-from-fresh-builder")), || {
                format!("checked parameters of the re-configured builder differ from those of a fresh builder ({})", cx.describe())
            });
        }
    }

    // (2a) check_ref is repeatable and does not change the builder
    if let Some(second) = obs.call(&cx.sig("check_ref"), || p.check_ref().map(|_| ()).map_err(|e| e.to_string())) {
        obs.ensure(second == first, &cx.sig("check_ref:not-repeatable"), || {
            format!("second check_ref on the same builder gave {:?}, first {:?} ({})", second, first, cx.describe())
        });
    }
    if let Some(eq) = same_p {
        let fresh = g.reference();
        obs.ensure(eq(&p, &fresh), &cx.sig("check_ref:changed-builder"), || {
            format!("after check_ref the builder differs from a fresh builder with the same values ({})", cx.describe())
        });
    }

    // (2b) check() by value
    let by_value = obs.call(&cx.sig("check"), || g.make().check());
    if let Some(r) = by_value {
        match r {
            Ok(checked) => {
                if obs.ensure(v.ok, &cx.sig("check:accepts-where-check_ref-rejects"), || {
                    format!("check() = Ok but check_ref() = Err(\"{}\") ({})", v.err, cx.describe())
                }) {
                    if let Ok(by_ref) = p.check_ref() {
                        if let Some(eq) = same_c {
                            obs.ensure(eq(&checked, by_ref), &cx.sig("check:value-differs-from-check_ref"), || {
                                format!("check() and check_ref() expose different parameter sets ({})", cx.describe())
                            });
                        }
                        if let Some(rd) = read {
                            let a = rd(&checked);
                            let b = rd(by_ref);
                            let same = |x: &[f64]| {
                                x.len() <= cx.vals.len()
                                    && x.iter().zip(cx.vals.iter()).all(|(g, w)| g.to_bits() == w.to_bits())
                            };
                            obs.ensure(same(&a), &cx.sig("check:parameters-changed"), || {
                                format!("check() returned values {:?}, set were {:?}", a, cx.vals)
                            });
                            obs.ensure(same(&b), &cx.sig("check_ref:parameters-changed"), || {
                                format!("check_ref() exposes values {:?}, set were {:?}", b, cx.vals)
                            });
                        }
                    }
                }
            }
            Err(e) => {
                let e = e.to_string();
                if obs.ensure(!v.ok, &cx.sig("check:rejects-where-check_ref-accepts"), || {
                    format!("check() = Err(\"{e}\") but check_ref() = Ok ({})", cx.describe())
                }) {
                    obs.ensure(e == v.err, &cx.sig("check:error-differs-from-check_ref"), || {
                        format!("check() error \"{e}\", check_ref() error \"{}\" ({})", v.err, cx.describe())
                    });
                }
            }
        }
    }
    obs.class_if(v.ok, "verdict_ok");
    obs.class_if(!v.ok, "verdict_err");
    Some((v, p))
}

/// Outcome of one training entry point, reduced to what is compared.
pub enum Outcome<T> {
    Ok(T),
    Err(String),
    Panic(String),
}

fn run<T, E: Display>(f: impl FnOnce() -> Result<T, E>) -> Outcome<T> {
    match guard(f) {
        Ok(Ok(t)) => Outcome::Ok(t),
        Ok(Err(e)) => Outcome::Err(e.to_string()),
        Err(m) => Outcome::Panic(m),
    }
}

/// Obligation (3) for one entry point (`fit`, `fit_with`, `transform`), `hb` being the builder under test.
///
/// * `v` rejected: `on_p(hb)` must return `Err` whose text equals the `check_ref` error sent
///   through the entry point's own `From` conversion, must not panic and must not have touched
///   the probes (`touched` = number of calls the mocks saw).
/// * `v` accepted and the case is `fit_safe`: `on_p(hb)` and `on_c(fresh().check())` (the checked
///   form of a *fresh* builder with the same values) must behave identically (`same` on two `Ok`
///   values, equal text on two `Err`, both panic).
#[allow(clippy::too_many_arguments)]
pub fn fit_core<P, T, E>(
    obs: &mut Obs,
    g: &Glue<P>,
    v: &Verdict,
    hb: &P,
    entry: &'static str,
    on_p: &dyn Fn(&P) -> Result<T, E>,
    on_c: &dyn Fn(&P::Checked) -> Result<T, E>,
    touched: &dyn Fn() -> usize,
    same: &dyn Fn(&T, &T) -> bool,
) where
    P: ParamGuard,
    E: Display + From<P::Error>,
{
    fit_core_x(obs, g, v, hb, entry, on_p, on_c, touched, same)
}

/// The same obligations with an EMPTY (zero-sample) dataset / batch as input: a rejected builder must still answer
/// with the parameter error (checking comes before looking at the data), an accepted builder must behave like
/// `check()?.entry(empty)` - whatever that does with an empty input (error, panic, degenerate model).
#[allow(clippy::too_many_arguments)]
pub fn fit_core_empty<P, T, E>(
    obs: &mut Obs,
    g: &Glue<P>,
    v: &Verdict,
    hb: &P,
    entry: &'static str,
    on_p: &dyn Fn(&P) -> Result<T, E>,
    on_c: &dyn Fn(&P::Checked) -> Result<T, E>,
    touched: &dyn Fn() -> usize,
    same: &dyn Fn(&T, &T) -> bool,
) where
    P: ParamGuard,
    E: Display + From<P::Error>,
{
    obs.class("entry_with_empty_input");
    fit_core_x(obs, g, v, hb, entry, on_p, on_c, touched, same)
}

#[allow(clippy::too_many_arguments)]
fn fit_core_x<P, T, E>(
    obs: &mut Obs,
    g: &Glue<P>,
    v: &Verdict,
    hb: &P,
    entry: &'static str,
    on_p: &dyn Fn(&P) -> Result<T, E>,
    on_c: &dyn Fn(&P::Checked) -> Result<T, E>,
    touched: &dyn Fn() -> usize,
    same: &dyn Fn(&T, &T) -> bool,
) where
    P: ParamGuard,
    E: Display + From<P::Error>,
{
    let cx = g.cx;
    if !v.ok {
        let before = touched();
        match run(|| on_p(hb)) {
            Outcome::Panic(m) => obs.fail(
                cx.sig(&format!("{entry}:panics-on-invalid")),
                format!("{entry} on the unchecked builder panicked: {m} ({})", cx.describe()),
            ),
            Outcome::Ok(_) => obs.fail(
                cx.sig(&format!("{entry}:trained-on-invalid")),
                format!(
                    "{entry} on the unchecked builder returned Ok although check_ref fails with \"{}\" ({})",
                    v.err,
                    cx.describe()
                ),
            ),
            Outcome::Err(e) => {
                if let Some(want) = hb.check_ref().err().map(|e| E::from(e).to_string()) {
                    obs.ensure(e == want, &cx.sig(&format!("{entry}:error-differs-from-check_ref")), || {
                        format!("{entry} returned Err(\"{e}\"), the converted check_ref error is \"{want}\" ({})", cx.describe())
                    });
                }
            }
        }
        let after = touched();
        obs.ensure(after == before, &cx.sig(&format!("{entry}:worked-before-rejecting")), || {
            format!(
                "{entry} on an invalid builder made {} calls into the data/model/rng probes before returning ({})",
                after - before,
                cx.describe()
            )
        });
        obs.class("entry_rejected");
        obs.class(cx.cls("rejected"));
        return;
    }
    if !cx.fit_safe {
        obs.class("entry_not_run_unsafe_value");
        return;
    }
    let a = run(|| on_p(hb));
    let b = run(|| {
        let checked = g.reference().check().map_err(E::from)?;
        on_c(&checked)
    });
    let sig = cx.sig(&format!("{entry}:valid-differs-from-checked"));
    // history cases: does the earlier configuration train to something else? (non-trivial rule)
    if let (Some(h), Outcome::Ok(x)) = (&cx.hist, &a) {
        if h.trainable && h.expect == Expect::In {
            if let Some(f1) = g.fresh_first() {
                if let Outcome::Ok(y) = run(|| on_p(&f1)) {
                    if !same(x, &y) {
                        obs.nontrivial();
                        obs.class("history_both_valid_fit_results_differ");
                    }
                }
            }
        }
    }
    match (a, b) {
        (Outcome::Ok(x), Outcome::Ok(y)) => {
            obs.class("entry_trained");
            obs.class(cx.cls(&format!("{entry}_trained")));
            obs.ensure(same(&x, &y), &sig, || {
                format!(
                    "{entry}: the unchecked builder and the checked form of a fresh builder with the same values produced different results ({})",
                    cx.describe()
                )
            });
        }
        (Outcome::Err(x), Outcome::Err(y)) => {
            obs.class("entry_both_err");
            obs.class(cx.cls(&format!("{entry}_both_err")));
            if std::env::var_os("C04_TRACE").is_some() {
                eprintln!("both-err {} {entry}: {x} ({})", cx.id, cx.describe());
            }
            obs.ensure(x == y, &sig, || {
                format!("{entry}: unchecked builder failed with \"{x}\", checked form with \"{y}\" ({})", cx.describe())
            });
        }
        (Outcome::Panic(_), Outcome::Panic(_)) => {
            obs.class("entry_both_panic");
            obs.class(cx.cls(&format!("{entry}_both_panic")));
        }
        (a, b) => {
            let d = |o: &Outcome<T>| match o {
                Outcome::Ok(_) => "Ok".to_string(),
                Outcome::Err(e) => format!("Err(\"{e}\")"),
                Outcome::Panic(m) => format!("panic({m})"),
            };
            obs.fail(
                sig,
                format!("{entry}: unchecked builder gave {}, checked form gave {} ({})", d(&a), d(&b), cx.describe()),
            );
        }
    }
}

/// `touch` helper: run an entry point, ignore result and panic
pub fn ignore<T>(f: impl FnOnce() -> T) {
    let _ = guard(|| {
        let _ = f();
    });
}

// ------------------------------------------------------------------------------------------------
// probes

#[derive(Clone, Debug, Default)]
pub struct Probe(pub Arc<AtomicUsize>);
impl Probe {
    pub fn new() -> Self {
        Probe(Arc::new(AtomicUsize::new(0)))
    }
    pub fn hit(&self) {
        self.0.fetch_add(1, Ordering::Relaxed);
    }
    pub fn get(&self) -> usize {
        self.0.load(Ordering::Relaxed)
    }
}

/// Seeded generator that counts how often it is asked for randomness (clones share the counter).
#[derive(Clone, Debug)]
pub struct CountRng {
    pub inner: Xoshiro256Plus,
    pub probe: Probe,
}
impl CountRng {
    pub fn new(seed: u64, probe: &Probe) -> Self {
        use rand::SeedableRng;
        CountRng { inner: Xoshiro256Plus::seed_from_u64(seed), probe: probe.clone() }
    }
}
impl PartialEq for CountRng {
    fn eq(&self, o: &Self) -> bool {
        self.inner == o.inner
    }
}
impl RngCore for CountRng {
    fn next_u32(&mut self) -> u32 {
        self.probe.hit();
        self.inner.next_u32()
    }
    fn next_u64(&mut self) -> u64 {
        self.probe.hit();
        self.inner.next_u64()
    }
    fn fill_bytes(&mut self, dest: &mut [u8]) {
        self.probe.hit();
        self.inner.fill_bytes(dest)
    }
    fn try_fill_bytes(&mut self, dest: &mut [u8]) -> Result<(), rand::Error> {
        self.probe.hit();
        self.inner.try_fill_bytes(dest)
    }
}

/// Euclidean distance that counts its evaluations (clones share the counter).
#[derive(Clone, Debug)]
pub struct CountDist(pub Probe);
impl PartialEq for CountDist {
    fn eq(&self, _: &Self) -> bool {
        true
    }
}
impl linfa_nn::distance::Distance<f64> for CountDist {
    fn distance<D: ndarray::Dimension>(&self, a: ndarray::ArrayView<f64, D>, b: ndarray::ArrayView<f64, D>) -> f64 {
        self.0.hit();
        let mut s = 0.0;
        for (x, y) in a.iter().zip(b.iter()) {
            s += (x - y) * (x - y);
        }
        s.sqrt()
    }
}

pub fn dbg<T: std::fmt::Debug>(a: &T, b: &T) -> bool {
    format!("{a:?}") == format!("{b:?}")
}
