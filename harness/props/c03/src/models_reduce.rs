//! Adapters: PCA and PLS (regression / canonical / CCA).

use crate::case::{self, Case};
use crate::driver::{self, Spec};
use crate::forms::any_layout;
use crate::util::{abs_dot, all_finite, dot, fit_or_skip, ref_close, usable};
use linfa::prelude::*;
use linfa_pls::{PlsCanonical, PlsCca, PlsRegression};
use linfa_reduction::Pca;
use ndarray::Array2;
use vengine::Obs;

pub fn check_pca(c: &Case, obs: &mut Obs) {
    if !usable(c, obs) {
        return;
    }
    let p = c.p();
    let k = 1 + (c.opt(0, 4) as usize) % p;
    let whiten = c.opt(1, 2) == 1;
    obs.class(if whiten { "pca_whitened" } else { "pca_plain" });
    obs.class(if k == p { "pca_full_rank" } else { "pca_reduced" });
    // un-centred data so that forgetting the mean is visible
    let x = case::blob_x(c, 1);
    let ds = DatasetBase::from(x);
    let Some(model) = fit_or_skip(obs, || Pca::params(k).whiten(whiten).fit(&ds)) else { return };
    let comp = model.components().clone(); // k x p
    let mean = model.mean().to_vec();
    if !all_finite(comp.iter().chain(mean.iter())) || comp.dim() != (k, p) || mean.len() != p {
        obs.skip("skipped_nonfinite_parameters");
        return;
    }
    let cmax = comp.iter().fold(0.0f64, |a, v| a.max(v.abs()));
    let mabs: f64 = mean.iter().map(|v| v.abs()).sum();
    let spec = Spec::matmat(move |x| (x.iter().map(|v| v.abs()).sum::<f64>() + mabs) * cmax);
    let pred = any_layout::<_, Array2<f64>>(&model);
    if let Some(info) = driver::run(obs, c, &pred, &spec) {
        for (i, x) in info.rows.iter().enumerate() {
            obs.ensure(info.single[i].len() == k, "output:width", || {
                format!("PCA with {k} components returned {} columns", info.single[i].len())
            });
            let centred: Vec<f64> = x.iter().zip(&mean).map(|(a, b)| a - b).collect();
            for j in 0..k.min(info.single[i].len()) {
                let row: Vec<f64> = (0..p).map(|l| comp[(j, l)]).collect();
                let want = dot(&centred, &row);
                obs.ensure(ref_close(info.single[i][j], want, abs_dot(&centred, &row)), "reference:value", || {
                    format!("PCA maps {x:?} to {:e} (component {j}); (x - mean)·component = {want:e}", info.single[i][j])
                });
            }
        }
    }
}

pub fn check_pls(c: &Case, obs: &mut Obs) {
    if !usable(c, obs) {
        return;
    }
    let p = c.p();
    if p < 2 {
        obs.skip("skipped_malformed_case");
        return;
    }
    let q = 2 + c.opt(0, 2) as usize;
    let scale = c.opt(1, 2) == 0;
    let x = case::blob_x(c, 1);
    let y = case::reg_y2(c, q);
    let ds = Dataset::new(x, y);
    // outputs are standardised-x times coefficients: bounded by the outputs themselves up to the
    // conditioning of the fit; the coefficient magnitude enters the scale
    match c.opt(2, 3) {
        0 => {
            obs.class("pls_regression");
            let ncomp = 1 + (c.opt(0, 8) as usize / 2) % p;
            let Some(model) = fit_or_skip(obs, || PlsRegression::params(ncomp).scale(scale).fit(&ds)) else { return };
            let coef = model.coefficients().clone();
            if !all_finite(coef.iter()) {
                obs.skip("skipped_nonfinite_parameters");
                return;
            }
            let cmax = coef.iter().fold(0.0f64, |a, v| a.max(v.abs()));
            let spec = Spec::matmat(move |x| (1.0 + x.iter().map(|v| v.abs()).sum::<f64>()) * (1.0 + cmax) * 10.0);
            let pred = any_layout::<_, Array2<f64>>(&model);
            let info = driver::run(obs, c, &pred, &spec);
            width_check(obs, info, q);
        }
        1 => {
            obs.class("pls_canonical");
            let ncomp = 1 + (c.opt(0, 8) as usize / 2) % p.min(q);
            let Some(model) = fit_or_skip(obs, || PlsCanonical::params(ncomp).scale(scale).fit(&ds)) else { return };
            let coef = model.coefficients().clone();
            if !all_finite(coef.iter()) {
                obs.skip("skipped_nonfinite_parameters");
                return;
            }
            let cmax = coef.iter().fold(0.0f64, |a, v| a.max(v.abs()));
            let spec = Spec::matmat(move |x| (1.0 + x.iter().map(|v| v.abs()).sum::<f64>()) * (1.0 + cmax) * 10.0);
            let pred = any_layout::<_, Array2<f64>>(&model);
            let info = driver::run(obs, c, &pred, &spec);
            width_check(obs, info, q);
        }
        _ => {
            obs.class("pls_cca");
            let ncomp = 1 + (c.opt(0, 8) as usize / 2) % p.min(q);
            let Some(model) = fit_or_skip(obs, || PlsCca::params(ncomp).scale(scale).fit(&ds)) else { return };
            let coef = model.coefficients().clone();
            if !all_finite(coef.iter()) {
                obs.skip("skipped_nonfinite_parameters");
                return;
            }
            let cmax = coef.iter().fold(0.0f64, |a, v| a.max(v.abs()));
            let spec = Spec::matmat(move |x| (1.0 + x.iter().map(|v| v.abs()).sum::<f64>()) * (1.0 + cmax) * 10.0);
            let pred = any_layout::<_, Array2<f64>>(&model);
            let info = driver::run(obs, c, &pred, &spec);
            width_check(obs, info, q);
        }
    }
}

fn width_check(obs: &mut Obs, info: Option<driver::RunInfo>, q: usize) {
    if let Some(info) = info {
        for r in &info.single {
            obs.ensure(r.len() == q, "output:width", || format!("PLS with {q} targets returned {} columns", r.len()));
        }
    }
}
