//! Adapters: k-means (L2 / L1 distance), Gaussian mixture model.

use crate::case::{self, Case};
use crate::driver::{self, Spec};
use crate::forms::any_layout;
use crate::util::{all_finite, fit_or_skip, usable};
use linfa::prelude::*;
use linfa_clustering::{GaussianMixtureModel, KMeans};
use linfa_nn::distance::{L1Dist, L2Dist};
use ndarray::{Array1, Array2};
use rand_xoshiro::rand_core::SeedableRng;
use rand_xoshiro::Xoshiro256Plus;
use vengine::Obs;

fn nearest_check(obs: &mut Obs, info: &driver::RunInfo, centroids: &Array2<f64>, l1: bool) {
    for (i, x) in info.rows.iter().enumerate() {
        let d: Vec<f64> = centroids
            .rows()
            .into_iter()
            .map(|c| c.iter().zip(x).map(|(a, b)| if l1 { (a - b).abs() } else { (a - b) * (a - b) }).sum::<f64>())
            .collect();
        let best = d.iter().cloned().fold(f64::INFINITY, f64::min);
        let lab = info.single[i][0] as usize;
        let ok = d.get(lab).map(|v| *v <= best + 1e-12 * (1.0 + best)).unwrap_or(false);
        obs.ensure(ok, "reference:not-nearest-centroid", || {
            format!("k-means assigns {x:?} to cluster {lab}; distances to the centroids are {d:?}")
        });
    }
}

pub fn check_kmeans(c: &Case, obs: &mut Obs) {
    if !usable(c, obs) {
        return;
    }
    let k = 2 + c.opt(0, 2) as usize;
    let l1 = c.opt(1, 2) == 1;
    obs.class(if l1 { "kmeans_l1" } else { "kmeans_l2" });
    let ds = DatasetBase::from(case::blob_x(c, k));
    let rng = Xoshiro256Plus::seed_from_u64(c.seed);
    let spec = Spec::strict(true);
    if l1 {
        let Some(model) =
            fit_or_skip(obs, || KMeans::params_with(k, rng, L1Dist).n_runs(2).max_n_iterations(50).fit(&ds))
        else {
            return;
        };
        if !all_finite(model.centroids().iter()) {
            obs.skip("skipped_nonfinite_parameters");
            return;
        }
        let pred = any_layout::<_, Array1<usize>>(&model);
        if let Some(info) = driver::run(obs, c, &pred, &spec) {
            nearest_check(obs, &info, model.centroids(), true);
            driver::check_single_sample(
                obs,
                &info,
                "KMeans::predict(&sample)",
                &|v| { let l: usize = model.predict(&v); l as f64 },
                &|v| { let mut l = 3usize; linfa::traits::PredictInplace::predict_inplace(&model, &v, &mut l); l as f64 },
            );
        }
    } else {
        let Some(model) =
            fit_or_skip(obs, || KMeans::params_with(k, rng, L2Dist).n_runs(2).max_n_iterations(50).fit(&ds))
        else {
            return;
        };
        if !all_finite(model.centroids().iter()) {
            obs.skip("skipped_nonfinite_parameters");
            return;
        }
        let pred = any_layout::<_, Array1<usize>>(&model);
        if let Some(info) = driver::run(obs, c, &pred, &spec) {
            nearest_check(obs, &info, model.centroids(), false);
            driver::check_single_sample(
                obs,
                &info,
                "KMeans::predict(&sample)",
                &|v| { let l: usize = model.predict(&v); l as f64 },
                &|v| { let mut l = 3usize; linfa::traits::PredictInplace::predict_inplace(&model, &v, &mut l); l as f64 },
            );
        }
    }
}

pub fn check_gmm(c: &Case, obs: &mut Obs) {
    if !usable(c, obs) {
        return;
    }
    let k = 2 + c.opt(0, 2) as usize;
    obs.class(if k == 2 { "gmm_2_components" } else { "gmm_3_components" });
    let reg = [1e-6, 1e-2][c.opt(1, 2) as usize];
    let ds = DatasetBase::from(case::blob_x(c, k));
    let rng = Xoshiro256Plus::seed_from_u64(c.seed);
    let Some(model) = fit_or_skip(obs, || {
        GaussianMixtureModel::params_with_rng(k, rng).n_runs(1).tolerance(1e-3).reg_covariance(reg).max_n_iterations(100).fit(&ds)
    }) else {
        return;
    };
    if !all_finite(model.means().iter().chain(model.precisions().iter()).chain(model.weights().iter())) {
        obs.skip("skipped_nonfinite_parameters");
        return;
    }
    // labels are the arg-max of responsibilities computed through matrix products: a disagreement
    // between batch shapes is acceptable only where the model's own responsibilities tie
    let p = c.p();
    let tie = |x: &[f64], a: f64, b: f64| {
        let row = case::to_array(std::slice::from_ref(&x.to_vec()), p);
        let Ok(pr) = vengine::guard(|| model.predict_proba(&row)) else { return false };
        let (ia, ib) = (a as usize, b as usize);
        match (pr.get((0, ia)), pr.get((0, ib))) {
            (Some(pa), Some(pb)) => !pa.is_finite() || !pb.is_finite() || (pa - pb).abs() <= 1e-9,
            _ => false,
        }
    };
    let spec = Spec::labels(tie);
    let pred = any_layout::<_, Array1<usize>>(&model);
    if let Some(info) = driver::run(obs, c, &pred, &spec) {
        for (i, x) in info.rows.iter().enumerate() {
            let lab = info.single[i][0];
            obs.ensure(lab >= 0.0 && (lab as usize) < k, "output:label-range", || {
                format!("mixture with {k} components labels {x:?} as {lab}")
            });
        }
    }
}
