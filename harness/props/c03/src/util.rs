//! Small helpers shared by the adapters.

use crate::case::Case;
use vengine::Obs;

/// Run a fit. A fit error or a panic inside the fit is not this property's business (C04 / C09-C18
/// judge fitting): the case is counted as not judged.
pub fn fit_or_skip<T, E: std::fmt::Display>(obs: &mut Obs, f: impl FnOnce() -> Result<T, E>) -> Option<T> {
    match vengine::guard(f) {
        Ok(Ok(m)) => Some(m),
        Ok(Err(_)) => {
            obs.skip("skipped_fit_returned_error");
            None
        }
        Err(_) => {
            obs.skip("skipped_fit_panicked");
            None
        }
    }
}

pub fn usable(c: &Case, obs: &mut Obs) -> bool {
    if c.well_formed() {
        true
    } else {
        obs.skip("skipped_malformed_case");
        false
    }
}

pub fn dot(a: &[f64], b: &[f64]) -> f64 {
    a.iter().zip(b).map(|(x, y)| x * y).sum()
}

pub fn abs_dot(a: &[f64], b: &[f64]) -> f64 {
    a.iter().zip(b).map(|(x, y)| (x * y).abs()).sum()
}

pub fn all_finite<'a>(it: impl IntoIterator<Item = &'a f64>) -> bool {
    it.into_iter().all(|v| v.is_finite())
}

/// independent-reference comparison for values recomputed from public parameters with naive code
pub fn ref_close(a: f64, b: f64, scale: f64) -> bool {
    a == b || (a - b).abs() <= 1e-10 * (1.0 + a.abs() + b.abs() + scale)
}
