//! Small helpers shared by the adapters.

use crate::case::Case;
use vengine::Obs;

/// Run a fit. A fit error or a panic inside the fit is not this property's business (C04 / C09-C18
/// judge fitting): the case is counted as not judged.
pub fn fit_or_skip<T, E: std::fmt::Display>(obs: &mut Obs, f: impl FnOnce() -> Result<T, E>) -> Option<T> {
    match vengine::guard(f) {
        Ok(Ok(m)) => Some(m),
        Ok(Err(_)) => {
            obs.skip("skipped_fit_returned_error");
            None
        }
        Err(_) => {
            obs.skip("skipped_fit_panicked");
            None
        }
    }
}

/// wall-clock bound for a single fit run on a helper thread (a normal fit here takes milliseconds)
pub const FIT_DEADLINE_S: u64 = 20;

/// The same for the fits driven by argmin's L-BFGS + More-Thuente line search (Tweedie GLM, logistic
/// regression): that line search has no iteration bound of its own and was observed to spin forever on a
/// Poisson GLM (thorough tier, seed 1). The fit runs on a helper thread; if it does not come back within
/// `FIT_DEADLINE_S` the case is counted as not judged and the thread is abandoned (it dies with the
/// worker process). A deadline can only turn a case into "not judged", never into a failure.
pub fn fit_with_deadline<T, E>(obs: &mut Obs, f: impl FnOnce() -> Result<T, E> + Send + 'static) -> Option<T>
where
    T: Send + 'static,
    E: std::fmt::Display + Send + 'static,
{
    let (tx, rx) = std::sync::mpsc::channel();
    let spawned = std::thread::Builder::new().stack_size(16 << 20).spawn(move || {
        let r = vengine::guard(f).map(|r| r.map_err(|e| e.to_string()));
        let _ = tx.send(r);
    });
    if spawned.is_err() {
        obs.skip("skipped_fit_panicked");
        return None;
    }
    match rx.recv_timeout(std::time::Duration::from_secs(FIT_DEADLINE_S)) {
        Ok(Ok(Ok(m))) => Some(m),
        Ok(Ok(Err(_))) => {
            obs.skip("skipped_fit_returned_error");
            None
        }
        Ok(Err(_)) => {
            obs.skip("skipped_fit_panicked");
            None
        }
        Err(_) => {
            obs.skip("skipped_fit_did_not_terminate");
            None
        }
    }
}

pub fn usable(c: &Case, obs: &mut Obs) -> bool {
    if c.well_formed() {
        true
    } else {
        obs.skip("skipped_malformed_case");
        false
    }
}

pub fn dot(a: &[f64], b: &[f64]) -> f64 {
    a.iter().zip(b).map(|(x, y)| x * y).sum()
}

pub fn abs_dot(a: &[f64], b: &[f64]) -> f64 {
    a.iter().zip(b).map(|(x, y)| (x * y).abs()).sum()
}

pub fn all_finite<'a>(it: impl IntoIterator<Item = &'a f64>) -> bool {
    it.into_iter().all(|v| v.is_finite())
}

/// independent-reference comparison for values recomputed from public parameters with naive code
pub fn ref_close(a: f64, b: f64, scale: f64) -> bool {
    a == b || (a - b).abs() <= 1e-10 * (1.0 + a.abs() + b.abs() + scale)
}
