//! The generic oracle: one fitted model, one generated query batch, every relation the property states.
//!
//! Reference value of a row = what predicting that row alone (a 1 x p standard-layout array) yields.
//! Against it are compared: the batch, a permutation of the batch, a composition with repeated rows,
//! every memory layout (owned: Fortran order, strided slice of a wider array, reversed rows; views:
//! standard, transposed, row-strided, column-strided, reversed), and on each array the five calling
//! forms among themselves.

use crate::case::{self, Case, Origin};
use crate::forms::{Forms, Out, Pred};
use ndarray::Array2;
use vengine::Obs;

/// relative tolerance for quantities whose arithmetic legitimately depends on batch shape / layout
/// (matrix products through `matrixmultiply`, unrolled vs generic dot): |a-b| <= REL * (1 + |a| + |b| + scale)
pub const REL_TOL: f64 = 1e-11;
/// the same for outputs that were rounded to f32 (`Pr`): two f32 ulps at 1
pub const REL_TOL_F32: f64 = 2.5e-7;

pub struct Spec<'a> {
    /// outputs are labels (compared exactly; a disagreement is accepted only if `tie` says the
    /// model's own margin between the two labels is below tolerance for that row)
    pub discrete: bool,
    /// batch / permutation / composition in standard layout must be bit-identical to the single-row result
    pub exact_same_layout: bool,
    /// other memory layouts must be bit-identical to the single-row result
    pub exact_cross_layout: bool,
    /// relative tolerance of the non-exact comparisons (REL_TOL for f64 outputs, REL_TOL_F32 for `Pr`)
    pub rel: f64,
    /// magnitude of the terms entering the sums for a row (0 when the outputs themselves bound it)
    pub scale: Box<dyn Fn(&[f64]) -> f64 + 'a>,
    /// (row, label a, label b) -> both labels are defensible for this row (score tie within tolerance)
    pub tie: Option<Box<dyn Fn(&[f64], f64, f64) -> bool + 'a>>,
}

impl<'a> Spec<'a> {
    /// row-wise models without any layout dependent arithmetic: everything bit-exact, labels strict
    pub fn strict(discrete: bool) -> Spec<'a> {
        Spec { discrete, exact_same_layout: true, exact_cross_layout: true, rel: REL_TOL, scale: Box::new(|_| 0.0), tie: None }
    }
    /// numeric output through a matrix-vector product: exact within one layout, tolerance across layouts
    pub fn matvec(scale: impl Fn(&[f64]) -> f64 + 'a) -> Spec<'a> {
        Spec { discrete: false, exact_same_layout: true, exact_cross_layout: false, rel: REL_TOL, scale: Box::new(scale), tie: None }
    }
    /// numeric output through a matrix-matrix product: tolerance everywhere
    pub fn matmat(scale: impl Fn(&[f64]) -> f64 + 'a) -> Spec<'a> {
        Spec { discrete: false, exact_same_layout: false, exact_cross_layout: false, rel: REL_TOL, scale: Box::new(scale), tie: None }
    }
    pub fn with_rel(mut self, rel: f64) -> Spec<'a> {
        self.rel = rel;
        self
    }
    /// labels decided by an arg-max / threshold over computed scores
    pub fn labels(tie: impl Fn(&[f64], f64, f64) -> bool + 'a) -> Spec<'a> {
        Spec {
            discrete: true,
            exact_same_layout: false,
            exact_cross_layout: false,
            rel: REL_TOL,
            scale: Box::new(|_| 0.0),
            tie: Some(Box::new(tie)),
        }
    }
}

pub struct RunInfo {
    pub q: Array2<f64>,
    pub rows: Vec<Vec<f64>>,
    /// `predict(&q)` on the standard-layout batch
    pub batch: Out,
    /// per row: the prediction for that row alone
    pub single: Vec<Vec<f64>>,
}

enum Verdict {
    Same,
    Tie,
    Differ(String),
}

fn compare(spec: &Spec, x: &[f64], want: &[f64], got: &[f64], exact: bool) -> Verdict {
    if want.len() != got.len() {
        return Verdict::Differ(format!("{} output columns vs {}", got.len(), want.len()));
    }
    let mut tie = false;
    for (j, (a, b)) in want.iter().zip(got).enumerate() {
        if a.to_bits() == b.to_bits() {
            continue;
        }
        if spec.discrete {
            if a == b {
                continue;
            }
            match &spec.tie {
                Some(t) if t(x, *a, *b) => tie = true,
                Some(_) => return Verdict::Differ(format!("label {b} instead of {a} (column {j}) for row {x:?}, and the model's margin between them is not a tie")),
                None => return Verdict::Differ(format!("label {b} instead of {a} (column {j}) for row {x:?}")),
            }
        } else if exact {
            return Verdict::Differ(format!("{b:e} instead of {a:e} (column {j}, not bit-identical) for row {x:?}"));
        } else {
            let tol = spec.rel * (1.0 + a.abs() + b.abs() + (spec.scale)(x));
            if !((a - b).abs() <= tol) {
                return Verdict::Differ(format!("{b:e} instead of {a:e} (column {j}, |diff| {:e} > tol {tol:e}) for row {x:?}", (a - b).abs()));
            }
        }
    }
    if tie {
        Verdict::Tie
    } else {
        Verdict::Same
    }
}

/// the five forms on one array: same length, same values, records handed back unchanged
fn check_forms(obs: &mut Obs, spec: &Spec, what: &str, f: &Forms, rows: &[Vec<f64>]) -> bool {
    let m = rows.len();
    let mut ok = true;
    for (name, out) in f.named() {
        if !obs.ensure(out.nrows() == m, "forms:length", || {
            format!("{what}: {name} returned {} outputs for {m} input rows", out.nrows())
        }) {
            ok = false;
            continue;
        }
        for i in 0..m {
            // same array, same arithmetic: bit-identical (labels: unless the model itself is tied)
            match compare(spec, &rows[i], &f.by_ref.rows.get(i).cloned().unwrap_or_default(), &out.rows[i], true) {
                Verdict::Same => {}
                Verdict::Tie => obs.class("tie_accepted"),
                Verdict::Differ(d) => {
                    ok = false;
                    let sig = if name.contains("buffer") { "inplace:depends-on-buffer-content" } else { "forms:differ" };
                    obs.fail(sig, format!("{what}: {name} disagrees with predict(&records) at row {i}: {d}"));
                }
            }
        }
    }
    ok &= obs.ensure(f.by_val_records_same, "forms:records-changed", || {
        format!("{what}: predict(records) returned a dataset whose records differ from the input (shape/strides/bits)")
    });
    ok &= obs.ensure(f.ds_val_records_same, "forms:records-changed", || {
        format!("{what}: predict(dataset) returned a dataset whose records differ from the input (shape/strides/bits)")
    });
    ok
}

fn check_against_reference(
    obs: &mut Obs,
    spec: &Spec,
    sig: &str,
    what: &str,
    out: &Out,
    rows: &[Vec<f64>],
    single: &[Vec<f64>],
    which: &[usize],
    exact: bool,
) {
    if !obs.ensure(out.nrows() == which.len(), &format!("{sig}:length"), || {
        format!("{what}: {} outputs for {} input rows", out.nrows(), which.len())
    }) {
        return;
    }
    for (k, &i) in which.iter().enumerate() {
        let (Some(x), Some(want)) = (rows.get(i), single.get(i)) else { continue };
        match compare(spec, x, want, &out.rows[k], exact) {
            Verdict::Same => {}
            Verdict::Tie => obs.class("tie_accepted"),
            Verdict::Differ(d) => obs.fail(
                format!("{sig}:value"),
                format!("{what}: position {k} (query row {i}) differs from predicting that row alone: {d}"),
            ),
        }
    }
}

fn check_empty(obs: &mut Obs, pred: &dyn Pred, p: usize, c_junk: u8) {
    obs.class("batch_empty");
    let q = Array2::<f64>::zeros((0, p));
    let empty_ok = |obs: &mut Obs, what: &str, f: &Forms| {
        for (name, out) in f.named() {
            obs.ensure(out.nrows() == 0, "empty:nonempty-output", || {
                format!("{what}: {name} returned {} outputs for an empty batch", out.nrows())
            });
        }
        obs.ensure(f.by_val_records_same && f.ds_val_records_same, "forms:records-changed", || {
            format!("{what}: records of the returned dataset differ from the (empty) input")
        });
    };
    if let Some(f) = obs.call("predict(empty batch)", || pred.forms_owned(&q, c_junk)) {
        empty_ok(obs, "empty standard batch", &f);
    }
    for (name, arr) in case::owned_layouts(&q) {
        if let Some(f) = obs.call("predict(empty batch)", || pred.forms_owned(&arr, c_junk)) {
            empty_ok(obs, name, &f);
        }
    }
    let backing = case::view_backing(&q);
    for (name, v) in case::view_layouts(&backing) {
        if let Some(Some(f)) = obs.call("predict(empty batch)", || pred.forms_view(v, c_junk)) {
            empty_ok(obs, name, &f);
        }
    }
}

/// Runs every generic relation. Returns the batch and the reference values for model specific extras
/// (None for the empty batch, when the case was skipped, or when the base prediction panicked).
pub fn run(obs: &mut Obs, c: &Case, pred: &dyn Pred, spec: &Spec) -> Option<RunInfo> {
    run_rows(obs, c, pred, spec, case::query(c))
}

/// The same with an explicit query batch (used by the strata that construct extreme query rows).
pub fn run_rows(obs: &mut Obs, c: &Case, pred: &dyn Pred, spec: &Spec, qr: case::Query) -> Option<RunInfo> {
    let p = c.p();
    let c_junk = c.junk;
    let rows = qr.rows;
    let m = rows.len();
    if m == 0 {
        check_empty(obs, pred, p, c.junk);
        return None;
    }
    obs.class(if m == 1 { "batch_single_row" } else { "batch_multi_row" });
    obs.class_if(qr.origin.contains(&Origin::Train), "query_has_training_row");
    obs.class_if(qr.origin.contains(&Origin::Fresh), "query_has_fresh_row");
    obs.class_if(qr.origin.contains(&Origin::Dup), "query_has_duplicate_row");
    obs.nontrivial_if(m >= 2);
    let q = case::to_array(&rows, p);
    let all: Vec<usize> = (0..m).collect();

    // ---- reference: each row alone
    let mut single: Vec<Vec<f64>> = Vec::with_capacity(m);
    for (i, r) in rows.iter().enumerate() {
        let x1 = case::to_array(std::slice::from_ref(r), p);
        let out = obs.call("predict(single row)", || pred.one(&x1))?;
        if !obs.ensure(out.nrows() == 1, "single:length", || {
            format!("predicting query row {i} alone returned {} outputs", out.nrows())
        }) {
            return None;
        }
        single.push(out.rows[0].clone());
    }
    if !single.iter().flatten().all(|v| v.is_finite()) {
        // degenerate fitted model (non-finite parameters): nothing to compare
        obs.skip("skipped_nonfinite_single_row_prediction");
        return None;
    }

    // ---- repeatability: the same call on the same model and the same array must give the same bits again (the
    // prediction depends on the sample and the model only — not on call history, hash order or scratch state)
    for round in 0..2 {
        for (i, r) in rows.iter().enumerate() {
            let x1 = case::to_array(std::slice::from_ref(r), p);
            let out = obs.call("predict(single row, repeated)", || pred.one(&x1))?;
            let same = out.nrows() == 1 && out.rows[0].len() == single[i].len() && out.rows[0].iter().zip(&single[i]).all(|(a, b)| a.to_bits() == b.to_bits());
            if !obs.ensure(same, "repeat:value", || {
                format!("predicting query row {i} alone a second time (repetition {}) returned {:?}, the first call returned {:?} for the row {:?}", round + 1, out.rows.first(), single[i], r)
            }) {
                return None;
            }
        }
    }

    // ---- the five forms on the standard batch, and batch versus single rows
    let base = obs.call("predict(standard batch)", || pred.forms_owned(&q, c_junk))?;
    obs.class("form_owned_x5");
    if !check_forms(obs, spec, "standard batch", &base, &rows) {
        return None;
    }
    check_against_reference(obs, spec, "batch-vs-single", "standard batch", &base.by_ref, &rows, &single, &all, spec.exact_same_layout);

    // ---- permutation
    let perm = case::permutation(c, m);
    let identity = perm.iter().enumerate().all(|(k, &i)| k == i);
    obs.class(if identity { "perm_identity" } else { "perm_nontrivial" });
    if !identity {
        let pq = case::select_rows(&rows, &perm, p);
        if let Some(out) = obs.call("predict(permuted batch)", || pred.one(&pq)) {
            check_against_reference(obs, spec, "permutation", "permuted batch", &out, &rows, &single, &perm, spec.exact_same_layout);
        }
    }

    // ---- in-place prediction of a second batch of the same length into the buffer holding the first result
    {
        let second_idx: Vec<usize> = if identity { (0..m).rev().collect() } else { perm.clone() };
        let second = case::select_rows(&rows, &second_idx, p);
        let srows: Vec<Vec<f64>> = second_idx.iter().map(|&i| rows[i].clone()).collect();
        if let (Some(clean), Some(reused)) = (
            obs.call("predict(second batch)", || pred.one(&second)),
            obs.call("predict_inplace(second batch into used buffer)", || pred.reuse(&q, &second)),
        ) {
            obs.class("inplace_buffer_reused");
            if obs.ensure(reused.nrows() == clean.nrows(), "inplace:reuse-length", || {
                format!("re-used buffer holds {} outputs, a fresh prediction {}", reused.nrows(), clean.nrows())
            }) {
                for k in 0..clean.nrows() {
                    match compare(spec, &srows[k], &clean.rows[k], &reused.rows[k], true) {
                        Verdict::Same => {}
                        Verdict::Tie => obs.class("tie_accepted"),
                        Verdict::Differ(d) => obs.fail(
                            "inplace:depends-on-buffer-content",
                            format!("predict_inplace of a second batch into the buffer holding the first batch's result differs from a fresh prediction at position {k}: {d}"),
                        ),
                    }
                }
            }
        }
    }

    // ---- poisoned neighbour: one non-last row replaced by garbage must not change any OTHER row
    if m >= 2 {
        obs.class("poisoned_neighbour");
        let pos = vengine::gen::idx(c.poison.0, m - 1);
        let (label, bad) = case::poison_row(&rows[pos], c.poison.1);
        obs.class(label);
        let alone = case::to_array(std::slice::from_ref(&bad), p);
        let panics_alone = vengine::guard(|| pred.one(&alone)).is_err();
        let mut prows = rows.clone();
        prows[pos] = bad;
        let pq = case::to_array(&prows, p);
        let out = if panics_alone {
            // the poisoned row cannot be predicted at all: a panic of the batch is that row's doing
            obs.class("poisoned_row_panics_alone");
            vengine::guard(|| pred.one(&pq)).ok()
        } else {
            obs.call("predict(batch with a poisoned row)", || pred.one(&pq))
        };
        if let Some(out) = out {
            obs.class("poisoned_others_compared");
            if obs.ensure(out.nrows() == m, "poisoned-neighbour:length", || {
                format!("{} outputs for {m} input rows when row {pos} is {:?}", out.nrows(), prows[pos])
            }) {
                for i in (0..m).filter(|&i| i != pos) {
                    match compare(spec, &rows[i], &single[i], &out.rows[i], spec.exact_same_layout) {
                        Verdict::Same => {}
                        Verdict::Tie => obs.class("tie_accepted"),
                        Verdict::Differ(d) => obs.fail(
                            "poisoned-neighbour:value",
                            format!("row {pos} of the batch replaced by {:?}: the prediction of row {i} changed: {d}", prows[pos]),
                        ),
                    }
                }
            }
        }
    }

    // ---- composition with repetition / omission
    let dup = case::dup_indices(c, m);
    if !dup.is_empty() {
        let mut seen = vec![false; m];
        let mut repeated = false;
        for &d in &dup {
            repeated |= seen[d];
            seen[d] = true;
        }
        obs.class_if(repeated, "composition_with_repeated_rows");
        obs.class_if(seen.iter().any(|s| !s), "composition_omits_rows");
        let dq = case::select_rows(&rows, &dup, p);
        if let Some(out) = obs.call("predict(recomposed batch)", || pred.one(&dq)) {
            check_against_reference(obs, spec, "composition", "recomposed batch", &out, &rows, &single, &dup, spec.exact_same_layout);
        }
    }

    // ---- memory layouts, owned
    for (name, arr) in case::owned_layouts(&q) {
        if let Some(f) = obs.call("predict(owned layout)", || pred.forms_owned(&arr, c_junk)) {
            obs.class(name);
            if check_forms(obs, spec, name, &f, &rows) {
                check_against_reference(obs, spec, "layout", name, &f.by_ref, &rows, &single, &all, spec.exact_cross_layout);
            }
        }
    }
    // ---- memory layouts, borrowed views (five forms each)
    let backing = case::view_backing(&q);
    for (name, v) in case::view_layouts(&backing) {
        match obs.call("predict(view layout)", || pred.forms_view(v, c_junk)) {
            Some(Some(f)) => {
                obs.class(name);
                obs.class("form_view_x5");
                if check_forms(obs, spec, name, &f, &rows) {
                    check_against_reference(obs, spec, "layout", name, &f.by_ref, &rows, &single, &all, spec.exact_cross_layout);
                }
            }
            Some(None) => obs.class("owned_records_only"),
            None => {}
        }
    }

    // ---- big batch across plausible internal block sizes: the distinct rows tiled (pseudo-randomly) to n rows
    if let Some((label, n)) = case::big_size(c.big.0, c.big.1) {
        obs.class("big_batch");
        obs.class(label);
        obs.class_if(n > 1024 && n % 1024 != 0, "big_batch_over_1024_not_multiple");
        let (tile, shuffled) = case::big_indices(c.seed, n, m);
        let big = case::select_rows(&rows, &tile, p);
        if let Some(out) = obs.call("predict(big batch)", || pred.one(&big)) {
            check_against_reference(obs, spec, "big-batch", "big tiled batch", &out, &rows, &single, &tile, spec.exact_same_layout);
        }
        // the same multiset in another order, in Fortran layout
        let std_layout = case::select_rows(&rows, &shuffled, p);
        let mut big2 = Array2::zeros(ndarray::ShapeBuilder::f((n, p)));
        big2.assign(&std_layout);
        if let Some(out) = obs.call("predict(big batch)", || pred.one(&big2)) {
            check_against_reference(obs, spec, "big-batch", "big permuted batch (Fortran layout)", &out, &rows, &single, &shuffled, spec.exact_cross_layout);
        }
    }

    Some(RunInfo { q, rows, batch: base.by_ref, single })
}

/// Single-sample (one-dimensional) entry points: the feature vector handed over as an owned `Array1`,
/// a contiguous view, a strided view (every second element of a junk-filled buffer) and a reversed-stride
/// view must each give, bit for bit, what the one-row batch gives (`info.single`). `label` names the entry
/// point in messages; the closures convert the model's answer to f64 like `ToOut` does.
pub fn check_single_sample(
    obs: &mut Obs,
    info: &RunInfo,
    label: &str,
    by_view: &dyn Fn(ndarray::ArrayView1<'_, f64>) -> f64,
    by_owned: &dyn Fn(ndarray::Array1<f64>) -> f64,
) {
    use ndarray::{s, Array1};
    for (i, x) in info.rows.iter().enumerate() {
        let Some(want) = info.single.get(i).and_then(|r| r.first()).copied() else { continue };
        let p = x.len();
        let owned = Array1::from(x.clone());
        let mut wide = Array1::from_elem(2 * p + 1, 7777.25);
        let mut rev = Array1::zeros(p);
        for (j, v) in x.iter().enumerate() {
            wide[2 * j + 1] = *v;
            rev[p - 1 - j] = *v;
        }
        let forms: [(&str, Option<f64>); 4] = [
            ("owned Array1", obs.call("predict(single sample, Ix1)", || by_owned(owned.clone()))),
            ("contiguous ArrayView1", obs.call("predict(single sample, Ix1)", || by_view(owned.view()))),
            ("strided ArrayView1", obs.call("predict(single sample, Ix1)", || by_view(wide.slice(s![1..2 * p + 1;2])))),
            ("reversed ArrayView1", obs.call("predict(single sample, Ix1)", || by_view(rev.slice(s![..;-1])))),
        ];
        obs.class("single_sample_form_checked");
        for (name, got) in forms {
            let Some(got) = got else { continue };
            obs.ensure(got.to_bits() == want.to_bits(), "single-sample:value", || {
                format!("{label} on {name} {x:?} returns {got:e}, the one-row batch returns {want:e}")
            });
        }
    }
}
