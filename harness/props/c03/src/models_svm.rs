//! Adapters: support vector machines — classification (bool), probability (Pr), regression, one-class.

use crate::case::{self, Case};
use crate::driver::{self, Spec};
use crate::forms::any_layout;
use crate::util::{fit_or_skip, usable};
use linfa::dataset::Pr;
use linfa::prelude::*;
use linfa_svm::Svm;
use ndarray::{Array1, Array2, ArrayView1};
use vengine::Obs;

fn kernel_class(obs: &mut Obs, gaussian: bool) {
    obs.class(if gaussian { "svm_gaussian_kernel" } else { "svm_linear_kernel" });
}

fn model_ok<T>(m: &Svm<f64, T>) -> bool {
    m.rho.is_finite() && m.alpha.iter().all(|a| a.is_finite())
}

pub fn check_svm_bool(c: &Case, obs: &mut Obs) {
    if !usable(c, obs) {
        return;
    }
    let gaussian = c.opt(0, 2) == 1;
    let nu = c.opt(1, 3) == 2;
    kernel_class(obs, gaussian);
    obs.class(if nu { "svm_nu" } else { "svm_c" });
    let ds = Dataset::new(case::train_x(c), case::bool_labels(c));
    let mut params = Svm::<f64, bool>::params().eps(1e-5);
    params = if gaussian { params.gaussian_kernel(3.0) } else { params.linear_kernel() };
    params = if nu { params.nu_weight(0.4) } else { params.pos_neg_weights(2.0, 1.0) };
    let Some(model) = fit_or_skip(obs, || params.fit(&ds)) else { return };
    if !model_ok(&model) {
        obs.skip("skipped_nonfinite_parameters");
        return;
    }
    let spec = Spec::strict(true);
    let pred = any_layout::<_, Array1<bool>>(&model);
    if let Some(info) = driver::run(obs, c, &pred, &spec) {
        single_sample_bool(obs, &info, &model);
        for (i, x) in info.rows.iter().enumerate() {
            let val = model.weighted_sum(&ArrayView1::from(&x[..])) - model.rho;
            let got = info.single[i][0] == 1.0;
            obs.class_if(got, "svm_predicts_true");
            obs.class_if(!got, "svm_predicts_false");
            obs.ensure(got == (val >= 0.0), "reference:decision-sign", || {
                format!("SVM labels {x:?} as {got}; weighted_sum - rho = {val:e}")
            });
        }
    }
}

pub fn check_svm_pr(c: &Case, obs: &mut Obs) {
    svm_pr(c, obs, false)
}

/// linear kernel, query rows scaled by 1e3 .. 1e6 (and a few by 1e30) in both directions: the decision
/// value, hence A*f+B of the built-in Platt calibration, saturates both ways
pub fn check_svm_pr_extreme(c: &Case, obs: &mut Obs) {
    svm_pr(c, obs, true)
}

fn svm_pr(c: &Case, obs: &mut Obs, extreme: bool) {
    if !usable(c, obs) {
        return;
    }
    let gaussian = c.opt(0, 2) == 1 && !extreme;
    kernel_class(obs, gaussian);
    let ds = Dataset::new(case::train_x(c), case::bool_labels(c));
    let mut params = Svm::<f64, Pr>::params().eps(1e-5).pos_neg_weights(1.0, 1.0);
    params = if gaussian { params.gaussian_kernel(3.0) } else { params.linear_kernel() };
    let Some(model) = fit_or_skip(obs, || params.fit(&ds)) else { return };
    if !model_ok(&model) {
        obs.skip("skipped_nonfinite_parameters");
        return;
    }
    let spec = Spec::strict(false);
    let pred = any_layout::<_, Array1<Pr>>(&model);
    let query = if extreme {
        let mut q = case::query(c);
        for (r, &(kind, i)) in q.rows.iter_mut().zip(&c.picks) {
            let scale = [1e3, 1e4, 1e5, 1e6, 1e30][vengine::gen::idx(i, 5)];
            let scale = if kind % 2 == 0 { scale } else { -scale };
            for v in r.iter_mut() {
                *v *= scale;
            }
        }
        q
    } else {
        case::query(c)
    };
    if let Some(info) = driver::run_rows(obs, c, &pred, &spec, query) {
        driver::check_single_sample(
            obs,
            &info,
            "Svm<Pr>::predict(sample)",
            &|v| { let p: Pr = model.predict(v); *p as f64 },
            &|v| { let p: Pr = model.predict(v); *p as f64 },
        );
        obs.class_if(info.single.iter().any(|r| r[0] == 0.0), "svm_pr_saturated_at_0");
        obs.class_if(info.single.iter().any(|r| r[0] == 1.0), "svm_pr_saturated_at_1");
        // probability in [0,1], monotone (one direction for the whole batch) in the decision value
        let dec: Vec<f64> = info.rows.iter().map(|x| model.weighted_sum(&ArrayView1::from(&x[..])) - model.rho).collect();
        let pr: Vec<f64> = info.single.iter().map(|r| r[0]).collect();
        obs.ensure(pr.iter().all(|p| (0.0..=1.0).contains(p)), "output:probability-range", || format!("probabilities {pr:?}"));
        let (mut up, mut down) = (true, true);
        let slack = 4.0 * f32::EPSILON as f64;
        for i in 0..dec.len() {
            for j in 0..dec.len() {
                if dec[i] < dec[j] {
                    up &= pr[i] <= pr[j] + slack;
                    down &= pr[i] >= pr[j] - slack;
                }
            }
        }
        obs.ensure(up || down, "platt:monotone", || {
            format!("calibrated SVM probabilities {pr:?} are not monotone in the decision values {dec:?}")
        });
    }
}

pub fn check_svm_reg(c: &Case, obs: &mut Obs) {
    if !usable(c, obs) {
        return;
    }
    let gaussian = c.opt(0, 2) == 1;
    let nu = c.opt(1, 3) == 2;
    kernel_class(obs, gaussian);
    obs.class(if nu { "svm_nu" } else { "svm_c" });
    let ds = Dataset::new(case::train_x(c), case::reg_y(c, 0));
    let mut params = Svm::<f64, f64>::params().eps(1e-5);
    params = if gaussian { params.gaussian_kernel(3.0) } else { params.linear_kernel() };
    params = if nu { params.nu_svr(0.5, Some(2.0)) } else { params.c_svr(2.0, Some(0.1)) };
    let Some(model) = fit_or_skip(obs, || params.fit(&ds)) else { return };
    if !model_ok(&model) {
        obs.skip("skipped_nonfinite_parameters");
        return;
    }
    let spec = Spec::strict(false);
    let pred = any_layout::<_, Array1<f64>>(&model);
    if let Some(info) = driver::run(obs, c, &pred, &spec) {
        driver::check_single_sample(
            obs,
            &info,
            "Svm<f64>::predict(sample)",
            &|v| { let y: f64 = model.predict(v); y },
            &|v| { let y: f64 = model.predict(v); y },
        );
        for (i, x) in info.rows.iter().enumerate() {
            let val = model.weighted_sum(&ArrayView1::from(&x[..])) - model.rho;
            obs.ensure(val.to_bits() == info.single[i][0].to_bits(), "reference:decision-value", || {
                format!("SVR predicts {:e} for {x:?}; weighted_sum - rho = {val:e}", info.single[i][0])
            });
        }
    }
}

pub fn check_svm_oneclass(c: &Case, obs: &mut Obs) {
    if !usable(c, obs) {
        return;
    }
    let gaussian = c.opt(0, 3) != 0;
    kernel_class(obs, gaussian);
    let nu = [0.2, 0.5][c.opt(1, 2) as usize];
    let ds = Dataset::new(case::train_x(c), Array1::<()>::from_elem(c.n(), ()));
    let mut params = Svm::<f64, Pr>::params().eps(1e-5).nu_weight(nu);
    params = if gaussian { params.gaussian_kernel(3.0) } else { params.linear_kernel() };
    let Some(model) = fit_or_skip(obs, || params.fit(&ds)) else { return };
    if !model_ok(&model) {
        obs.skip("skipped_nonfinite_parameters");
        return;
    }
    let spec = Spec::strict(true);
    let pred = any_layout::<_, Array1<bool>>(&model);
    if let Some(info) = driver::run(obs, c, &pred, &spec) {
        single_sample_bool(obs, &info, &model);
        for (i, x) in info.rows.iter().enumerate() {
            let val = model.weighted_sum(&ArrayView1::from(&x[..])) - model.rho;
            let got = info.single[i][0] == 1.0;
            obs.class_if(got, "svm_predicts_true");
            obs.class_if(!got, "svm_predicts_false");
            obs.ensure(got == (val >= 0.0), "reference:decision-sign", || {
                format!("one-class SVM labels {x:?} as {got}; weighted_sum - rho = {val:e}")
            });
        }
    }
}

fn single_sample_bool(obs: &mut Obs, info: &driver::RunInfo, model: &Svm<f64, bool>) {
    driver::check_single_sample(
        obs,
        info,
        "Svm<bool>::predict(sample)",
        &|v| { let b: bool = model.predict(v); if b { 1.0 } else { 0.0 } },
        &|v| { let b: bool = model.predict(v); if b { 1.0 } else { 0.0 } },
    );
}

// ------------------------------------------------------------------------------------------------
// exact-boundary stratum for the classifiers

/// Point-symmetric, integer-valued training set (points p_i labelled true, -p_i labelled false): with a
/// linear kernel the solver returns rho == 0.0 exactly for most such sets, so the origin, every vector
/// orthogonal to w and every pair (q, -q) straddle / sit on the decision boundary. In a third of the cases
/// (and always for the Gaussian kernel and the one-class model) the public field `rho` is set to the
/// weighted sum of the first query row, which puts that row on the boundary exactly whatever the kernel.
/// Queries: origin, orthogonal vectors, training points, their mirrors and multiples, integer fresh rows and
/// their mirrors. All forms (batch, layouts, buffers, single-sample Ix1 entry point) must agree bit for bit;
/// no tolerance is involved because the Ix1 and Ix2 paths call the same `weighted_sum`.
pub fn check_svm_boundary(c: &Case, obs: &mut Obs) {
    if !usable(c, obs) {
        return;
    }
    let p = c.p();
    let k = (c.n() / 2).clamp(2, 10);
    let mut pts: Vec<Vec<f64>> = c.train.iter().take(k).map(|r| r.iter().map(|v| (v * 2.0).round().clamp(-6.0, 6.0)).collect()).collect();
    for (i, r) in pts.iter_mut().enumerate() {
        if r.iter().all(|v| *v == 0.0) {
            r[i % p] = 1.0 + (i % 3) as f64;
        }
    }
    let mut rows_x: Vec<Vec<f64>> = pts.clone();
    rows_x.extend(pts.iter().map(|r| r.iter().map(|v| -v).collect::<Vec<f64>>()));
    let x: Array2<f64> = case::to_array(&rows_x, p);
    let y = Array1::from((0..2 * k).map(|i| i < k).collect::<Vec<bool>>());
    let one_class = c.opt(1, 4) == 3;
    let gaussian = c.opt(0, 3) == 2;
    kernel_class(obs, gaussian);
    let fitted: Option<Svm<f64, bool>> = if one_class {
        obs.class("boundary_one_class");
        let ds = Dataset::new(x, Array1::<()>::from_elem(2 * k, ()));
        let mut params = Svm::<f64, Pr>::params().eps(1e-5).nu_weight(0.5);
        params = if gaussian { params.gaussian_kernel(3.0) } else { params.linear_kernel() };
        fit_or_skip(obs, || params.fit(&ds))
    } else {
        obs.class("boundary_c_svc");
        let ds = Dataset::new(x, y);
        let cw = [1.0, 0.25, 8.0][c.opt(2, 3) as usize];
        let mut params = Svm::<f64, bool>::params().eps(1e-5).pos_neg_weights(cw, cw);
        params = if gaussian { params.gaussian_kernel(3.0) } else { params.linear_kernel() };
        fit_or_skip(obs, || params.fit(&ds))
    };
    let Some(mut model) = fitted else { return };
    if !model_ok(&model) {
        obs.skip("skipped_nonfinite_parameters");
        return;
    }
    obs.class_if(model.rho == 0.0, "boundary_rho_exactly_zero_from_fit");
    // w_j = weighted_sum(e_j) (exact for the linear kernel: all other terms are w_k * 0)
    let unit = |j: usize| -> Vec<f64> { (0..p).map(|l| if l == j { 1.0 } else { 0.0 }).collect() };
    let w: Vec<f64> = (0..p).map(|j| model.weighted_sum(&ArrayView1::from(&unit(j)[..]))).collect();
    let mut pool: Vec<Vec<f64>> = vec![vec![0.0; p]];
    if p >= 2 {
        // (w1, -w0, 0, ..): fl(w0*w1) - fl(w1*w0) == 0 exactly
        let mut o = vec![0.0; p];
        o[0] = w[1];
        o[1] = -w[0];
        pool.push(o.clone());
        pool.push(o.iter().map(|v| -2.0 * v).collect());
    }
    for r in pts.iter().take(4) {
        pool.push(r.clone());
        pool.push(r.iter().map(|v| -v).collect());
        pool.push(r.iter().map(|v| 3.0 * v).collect());
    }
    for r in c.fresh.iter().take(3) {
        let q: Vec<f64> = r.iter().map(|v| (v * 2.0).round()).collect();
        pool.push(q.iter().map(|v| -v).collect());
        pool.push(q);
    }
    let mut rows: Vec<Vec<f64>> = vec![];
    let mut origin = vec![];
    for &(kind, i) in &c.picks {
        if kind % 3 == 2 && !rows.is_empty() {
            let r = rows[vengine::gen::idx(i, rows.len())].clone();
            rows.push(r);
            origin.push(case::Origin::Dup);
        } else {
            rows.push(pool[vengine::gen::idx(i, pool.len())].clone());
            origin.push(if kind % 3 == 0 { case::Origin::Train } else { case::Origin::Fresh });
        }
    }
    let assigned = (gaussian || one_class || c.opt(1, 3) == 0) && !rows.is_empty();
    if assigned {
        obs.class("boundary_by_rho_assignment");
        let ws = model.weighted_sum(&ArrayView1::from(&rows[0][..]));
        if ws.is_finite() {
            model.rho = ws;
        }
    }
    let on_boundary = rows.iter().filter(|r| model.weighted_sum(&ArrayView1::from(&r[..])) - model.rho == 0.0).count();
    obs.class_if(on_boundary >= 1, "decision_value_exactly_zero");
    obs.class_if(on_boundary >= 1 && !assigned, "decision_value_exactly_zero_with_fitted_rho");
    obs.class_if(on_boundary >= 1 && on_boundary < rows.len(), "boundary_and_interior_rows_mixed");
    let spec = Spec::strict(true);
    let pred = any_layout::<_, Array1<bool>>(&model);
    if let Some(info) = driver::run_rows(obs, c, &pred, &spec, case::Query { rows, origin }) {
        single_sample_bool(obs, &info, &model);
        for (i, x) in info.rows.iter().enumerate() {
            let val = model.weighted_sum(&ArrayView1::from(&x[..])) - model.rho;
            let got = info.single[i][0] == 1.0;
            obs.class_if(got, "svm_predicts_true");
            obs.class_if(!got, "svm_predicts_false");
            obs.ensure(got == (val >= 0.0), "reference:decision-sign", || {
                format!("SVM labels {x:?} as {got}; weighted_sum - rho = {val:e}")
            });
        }
    }
}
