//! Adapters: support vector machines — classification (bool), probability (Pr), regression, one-class.

use crate::case::{self, Case};
use crate::driver::{self, Spec};
use crate::forms::any_layout;
use crate::util::{fit_or_skip, usable};
use linfa::dataset::Pr;
use linfa::prelude::*;
use linfa_svm::Svm;
use ndarray::{Array1, ArrayView1};
use vengine::Obs;

fn kernel_class(obs: &mut Obs, gaussian: bool) {
    obs.class(if gaussian { "svm_gaussian_kernel" } else { "svm_linear_kernel" });
}

fn model_ok<T>(m: &Svm<f64, T>) -> bool {
    m.rho.is_finite() && m.alpha.iter().all(|a| a.is_finite())
}

pub fn check_svm_bool(c: &Case, obs: &mut Obs) {
    if !usable(c, obs) {
        return;
    }
    let gaussian = c.opt(0, 2) == 1;
    let nu = c.opt(1, 3) == 2;
    kernel_class(obs, gaussian);
    obs.class(if nu { "svm_nu" } else { "svm_c" });
    let ds = Dataset::new(case::train_x(c), case::bool_labels(c));
    let mut params = Svm::<f64, bool>::params().eps(1e-5);
    params = if gaussian { params.gaussian_kernel(3.0) } else { params.linear_kernel() };
    params = if nu { params.nu_weight(0.4) } else { params.pos_neg_weights(2.0, 1.0) };
    let Some(model) = fit_or_skip(obs, || params.fit(&ds)) else { return };
    if !model_ok(&model) {
        obs.skip("skipped_nonfinite_parameters");
        return;
    }
    let spec = Spec::strict(true);
    let pred = any_layout::<_, Array1<bool>>(&model);
    if let Some(info) = driver::run(obs, c, &pred, &spec) {
        for (i, x) in info.rows.iter().enumerate() {
            let val = model.weighted_sum(&ArrayView1::from(&x[..])) - model.rho;
            let got = info.single[i][0] == 1.0;
            obs.class_if(got, "svm_predicts_true");
            obs.class_if(!got, "svm_predicts_false");
            obs.ensure(got == (val >= 0.0), "reference:decision-sign", || {
                format!("SVM labels {x:?} as {got}; weighted_sum - rho = {val:e}")
            });
        }
    }
}

pub fn check_svm_pr(c: &Case, obs: &mut Obs) {
    svm_pr(c, obs, false)
}

/// linear kernel, query rows scaled by 1e3 .. 1e6 (and a few by 1e30) in both directions: the decision
/// value, hence A*f+B of the built-in Platt calibration, saturates both ways
pub fn check_svm_pr_extreme(c: &Case, obs: &mut Obs) {
    svm_pr(c, obs, true)
}

fn svm_pr(c: &Case, obs: &mut Obs, extreme: bool) {
    if !usable(c, obs) {
        return;
    }
    let gaussian = c.opt(0, 2) == 1 && !extreme;
    kernel_class(obs, gaussian);
    let ds = Dataset::new(case::train_x(c), case::bool_labels(c));
    let mut params = Svm::<f64, Pr>::params().eps(1e-5).pos_neg_weights(1.0, 1.0);
    params = if gaussian { params.gaussian_kernel(3.0) } else { params.linear_kernel() };
    let Some(model) = fit_or_skip(obs, || params.fit(&ds)) else { return };
    if !model_ok(&model) {
        obs.skip("skipped_nonfinite_parameters");
        return;
    }
    let spec = Spec::strict(false);
    let pred = any_layout::<_, Array1<Pr>>(&model);
    let query = if extreme {
        let mut q = case::query(c);
        for (r, &(kind, i)) in q.rows.iter_mut().zip(&c.picks) {
            let scale = [1e3, 1e4, 1e5, 1e6, 1e30][vengine::gen::idx(i, 5)];
            let scale = if kind % 2 == 0 { scale } else { -scale };
            for v in r.iter_mut() {
                *v *= scale;
            }
        }
        q
    } else {
        case::query(c)
    };
    if let Some(info) = driver::run_rows(obs, c, &pred, &spec, query) {
        obs.class_if(info.single.iter().any(|r| r[0] == 0.0), "svm_pr_saturated_at_0");
        obs.class_if(info.single.iter().any(|r| r[0] == 1.0), "svm_pr_saturated_at_1");
        // probability in [0,1], monotone (one direction for the whole batch) in the decision value
        let dec: Vec<f64> = info.rows.iter().map(|x| model.weighted_sum(&ArrayView1::from(&x[..])) - model.rho).collect();
        let pr: Vec<f64> = info.single.iter().map(|r| r[0]).collect();
        obs.ensure(pr.iter().all(|p| (0.0..=1.0).contains(p)), "output:probability-range", || format!("probabilities {pr:?}"));
        let (mut up, mut down) = (true, true);
        let slack = 4.0 * f32::EPSILON as f64;
        for i in 0..dec.len() {
            for j in 0..dec.len() {
                if dec[i] < dec[j] {
                    up &= pr[i] <= pr[j] + slack;
                    down &= pr[i] >= pr[j] - slack;
                }
            }
        }
        obs.ensure(up || down, "platt:monotone", || {
            format!("calibrated SVM probabilities {pr:?} are not monotone in the decision values {dec:?}")
        });
    }
}

pub fn check_svm_reg(c: &Case, obs: &mut Obs) {
    if !usable(c, obs) {
        return;
    }
    let gaussian = c.opt(0, 2) == 1;
    let nu = c.opt(1, 3) == 2;
    kernel_class(obs, gaussian);
    obs.class(if nu { "svm_nu" } else { "svm_c" });
    let ds = Dataset::new(case::train_x(c), case::reg_y(c, 0));
    let mut params = Svm::<f64, f64>::params().eps(1e-5);
    params = if gaussian { params.gaussian_kernel(3.0) } else { params.linear_kernel() };
    params = if nu { params.nu_svr(0.5, Some(2.0)) } else { params.c_svr(2.0, Some(0.1)) };
    let Some(model) = fit_or_skip(obs, || params.fit(&ds)) else { return };
    if !model_ok(&model) {
        obs.skip("skipped_nonfinite_parameters");
        return;
    }
    let spec = Spec::strict(false);
    let pred = any_layout::<_, Array1<f64>>(&model);
    if let Some(info) = driver::run(obs, c, &pred, &spec) {
        for (i, x) in info.rows.iter().enumerate() {
            let val = model.weighted_sum(&ArrayView1::from(&x[..])) - model.rho;
            obs.ensure(val.to_bits() == info.single[i][0].to_bits(), "reference:decision-value", || {
                format!("SVR predicts {:e} for {x:?}; weighted_sum - rho = {val:e}", info.single[i][0])
            });
        }
    }
}

pub fn check_svm_oneclass(c: &Case, obs: &mut Obs) {
    if !usable(c, obs) {
        return;
    }
    let gaussian = c.opt(0, 3) != 0;
    kernel_class(obs, gaussian);
    let nu = [0.2, 0.5][c.opt(1, 2) as usize];
    let ds = Dataset::new(case::train_x(c), Array1::<()>::from_elem(c.n(), ()));
    let mut params = Svm::<f64, Pr>::params().eps(1e-5).nu_weight(nu);
    params = if gaussian { params.gaussian_kernel(3.0) } else { params.linear_kernel() };
    let Some(model) = fit_or_skip(obs, || params.fit(&ds)) else { return };
    if !model_ok(&model) {
        obs.skip("skipped_nonfinite_parameters");
        return;
    }
    let spec = Spec::strict(true);
    let pred = any_layout::<_, Array1<bool>>(&model);
    if let Some(info) = driver::run(obs, c, &pred, &spec) {
        for (i, x) in info.rows.iter().enumerate() {
            let val = model.weighted_sum(&ArrayView1::from(&x[..])) - model.rho;
            let got = info.single[i][0] == 1.0;
            obs.class_if(got, "svm_predicts_true");
            obs.class_if(!got, "svm_predicts_false");
            obs.ensure(got == (val >= 0.0), "reference:decision-sign", || {
                format!("one-class SVM labels {x:?} as {got}; weighted_sum - rho = {val:e}")
            });
        }
    }
}
