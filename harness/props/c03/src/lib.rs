//! C03 — stub (to be written; see /verif/harness/AUTHORING.md and DESIGN.md §3 C03)
use vengine::Property;

pub fn property() -> Property {
    Property { id: "C03", rule: "", assumptions: vec![], subs: vec![] }
}
