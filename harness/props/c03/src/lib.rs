//! C03 — prediction is a per-sample function, identical through every calling form.
//!
//! One sub-check per predictor type. Each case fits a small model on generated, well-posed data
//! (seeded), builds a query batch (training rows, fresh rows, duplicates; 0, 1 or 2..=12 rows, thorough up to 40) and
//! hands both to the generic oracle in `driver`, which compares
//!   * the batch, a permutation of it and a recomposition with repeated / omitted rows against the
//!     prediction of each row alone,
//!   * eight further memory layouts of the same batch (owned: Fortran order, strided slice of a wider
//!     array, reversed rows; views: standard, transposed, row-strided, column-strided, reversed),
//!   * on every one of those arrays the five calling forms among themselves, including that the
//!     dataset forms hand the records back unchanged,
//! bit-exactly where the model does no layout dependent arithmetic and with a stated tolerance
//! where it multiplies matrices. The adapters add what is specific to a type: an independent
//! recomputation from the public parameters where those exist, and the wrapper rules of the statement.

pub mod case;
pub mod driver;
pub mod forms;
pub mod models_classif;
pub mod models_cluster;
pub mod models_linear;
pub mod models_reduce;
pub mod models_svm;
pub mod models_wrap;
pub mod util;

use case::{case_strategy, Case, Dom, DOM_COUNTS, DOM_ISO, DOM_P2, DOM_STD, DOM_SVM};
use vengine::{prop_sub, Obs, Property, SubCheck, Tier};

const QUICK: u32 = 10000;
const THOROUGH: u32 = 100000;

fn sub(name: &'static str, dom: Dom, check: fn(&Case, &mut Obs)) -> Box<dyn SubCheck> {
    prop_sub(name, QUICK, THOROUGH, move |t: Tier| case_strategy(t, dom), check)
        .chunks(4)
        .require(&["batch_multi_row", "batch_single_row", "batch_empty", "perm_nontrivial", "layout_owned_strided", "poisoned_neighbour", "poison_nan", "big_batch", "big_batch_over_1024_not_multiple"])
}

pub fn property() -> Property {
    Property {
        id: "C03",
        rule: "one sub-check per predictor type (22 types incl. the three composing wrappers) plus two strata with extreme Platt arguments; a case = generated training \
               matrix (n 12..=40, p 1..=4, SVM n<=30, isotonic p=1, multinomial NB counts), direction vectors and noise from \
               which targets/labels/blobs are derived, model options, RNG seed, and a query batch of m in {0,1,2..=12} rows (thorough: ..=40) \
               drawn from training rows, fresh rows (scaled beyond the training range) and duplicates, plus permutation keys \
               and a recomposition index list. Reference = prediction of each row alone; compared with the batch, its \
               permutation, a recomposition with repeats, 3 owned and 5 borrowed memory layouts, five calling forms on each. \
               Non-trivial = m >= 2 (every such case is evaluated under a non-identity permutation whenever the keys give one \
               and under 8 non-standard layouts); distinct = distinct canonical JSON of the case",
        assumptions: vec![
            format!("REL_TOL = {:e}: values whose arithmetic legitimately depends on batch shape or layout (matrix-matrix products via matrixmultiply: GMM, multinomial logistic, PCA, PLS, multi-task elastic net; matrix-vector products across layouts: OLS, GLM, elastic net, logistic, FTRL, multinomial NB) are compared with |a-b| <= REL_TOL*(1+|a|+|b|+scale), scale = sum of |x_j*w_j| + |intercept| from the public parameters where available", driver::REL_TOL),
            format!("REL_TOL_F32 = {:e} (two f32 ulps) replaces REL_TOL for Pr outputs (FTRL, Platt) whose f64 score is rounded to f32", driver::REL_TOL_F32),
            "bit-exact comparisons: k-means, decision tree, isotonic, all four SVM kinds (row loops with sequential sums) in every layout; matrix-vector models batch-vs-single-row / permutation / recomposition within standard layout; the five calling forms on one array for every model".into(),
            "labels must agree exactly unless the model's own margin for that row is a tie: GMM |responsibility difference| <= 1e-9 (from predict_proba), logistic |sigmoid(score)-threshold| and multinomial logit gaps <= 1e-9 relative (recomputed from public params), naive Bayes joint log-likelihood gaps <= 1e-9 relative (recomputed from the training data; exact ties are broken by HashMap order inside linfa), MultiClassModel member probabilities within 2.5e-7".into(),
            format!("fits driven by argmin's unbounded More-Thuente line search (Tweedie GLM, logistic regressions) run on a helper thread with a {} s wall-clock deadline; a fit that does not return (observed: Poisson GLM, a consequence of its inconsistent deviance/gradient) is counted as not judged (class skipped_fit_did_not_terminate) — the deadline can never produce a failure", util::FIT_DEADLINE_S),
            "a fit that returns Err or panics is counted as not judged (fitting is the subject of C04/C09-C18); a fitted model with non-finite parameters or non-finite single-row predictions likewise".into(),
            "independent references use naive f64 code with tolerance 1e-10*(1+|a|+|b|+scale); FTRL/Platt probabilities (f32) are compared with absolute 1e-6 / 3e-6".into(),
            "Platt A and B are recovered by calling the public platt_newton_method on the same inputs fit_with uses; monotonicity allows 4 f32 ulps because e/(1+e) evaluated in f32 is not exactly monotone".into(),
            "every calling-form comparison includes predict_inplace into a buffer of default_target's shape pre-filled with a generated junk value, predict_inplace twice into one buffer, and predict_inplace of a second batch of equal length into the buffer holding the first result; all bit-identical to the clean result".into(),
            "poisoned neighbour: in every batch of m >= 2 rows one generated non-last row is replaced by a row holding NaN / +inf / -inf / +1e300 / -1e300 in one or all features; every OTHER row must keep the prediction it has alone (same exactness / tolerance as batch-vs-single); the poisoned row itself is not judged; if predicting the poisoned row alone panics, a panic of the poisoned batch is accepted (class poisoned_row_panics_alone), otherwise the batch must not panic".into(),
            "single-sample entry points (Svm<bool> incl. one-class, Svm<Pr>, Svm<f64> regression: Predict on a 1-D array; KMeans: Predict / PredictInplace on a 1-D array) are called with an owned Array1, a contiguous, a strided and a reversed ArrayView1 of every query row and must equal the one-row batch bit for bit (they call the same weighted_sum / closest_centroid, no tolerance)".into(),
            "stratum svm_boundary: point-symmetric integer training sets (p_i true, -p_i false) for C-SVC / one-class, linear and Gaussian kernel; queries at the origin, orthogonal to w, at training points, mirrored pairs; decision value exactly 0 is reached either because the fit returns rho == 0.0 or by assigning the public field rho := weighted_sum(first query row); classes decision_value_exactly_zero and boundary_rho_exactly_zero_from_fit are required".into(),
            "big batch: one case in 40 per predictor family (quick about 250, thorough about 2500) additionally predicts a batch of n rows, n drawn from 257..=300, 1000..=1100, 1025..=1500, 2049..=2100, 4097..=4200 or B-1/B/B+1/2B-1/2B/2B+1 for B in {256,512,1024,2048,4096}, built by tiling the case's query rows in a seed-derived pseudo-random (non-periodic) order, once in standard layout and once shuffled in Fortran layout; every position must reproduce the prediction of that row alone (same exactness / tolerance as batch-vs-single resp. cross-layout)".into(),
            "strata platt_extreme / svm_pr_extreme: A*f+B is driven onto ±{0,1e-3,1,10,50,88,89,100,700,1e4,1e30} (platt_predict directly with generated A of both signs and B; a fitted Platt around a mock inner model; Svm<Pr> with a linear kernel and queries scaled by ±1e3..1e6, 1e30): finite, in [0,1], within 3e-6 of the f64 sigmoid, monotone, no panic".into(),
            "outside those two strata queries stay finite and within a few standard deviations of the training data; NaN/inf inputs and feature-count mismatches (documented assertion panics) are not generated".into(),
            "FastICA (owned Array2 only, not in the statement's list) is not covered; sparse-kernel SVMs are not covered".into(),
            "trusted base: ndarray slicing/striding semantics, linfa's DatasetBase::new, proptest".into(),
        ],
        subs: vec![
            sub("gmm", DOM_P2, models_cluster::check_gmm),
            sub("svm_pr", DOM_SVM, models_svm::check_svm_pr),
            sub("svm_pr_extreme", DOM_SVM, models_svm::check_svm_pr_extreme),
            prop_sub("svm_boundary", QUICK, THOROUGH, move |t: Tier| case_strategy(t, DOM_SVM), models_svm::check_svm_boundary)
                .chunks(4)
                .require(&["batch_multi_row", "batch_empty", "decision_value_exactly_zero", "decision_value_exactly_zero_with_fitted_rho", "boundary_rho_exactly_zero_from_fit", "single_sample_form_checked", "poisoned_neighbour", "big_batch"]),
            sub("platt_extreme", DOM_SVM, models_wrap::check_platt_extreme),
            sub("multiclass", DOM_SVM, models_wrap::check_multiclass),
            sub("multilogistic", DOM_STD, models_classif::check_multilogistic),
            sub("tweedie", DOM_STD, models_linear::check_tweedie),
            sub("logistic", DOM_STD, models_classif::check_logistic),
            sub("svm_bool", DOM_SVM, models_svm::check_svm_bool),
            sub("svm_reg", DOM_SVM, models_svm::check_svm_reg),
            sub("svm_oneclass", DOM_SVM, models_svm::check_svm_oneclass),
            sub("multitarget", DOM_SVM, models_wrap::check_multitarget),
            sub("platt", DOM_SVM, models_wrap::check_platt),
            sub("kmeans", DOM_STD, models_cluster::check_kmeans),
            sub("pls", DOM_P2, models_reduce::check_pls),
            sub("pca", DOM_STD, models_reduce::check_pca),
            sub("mt_elasticnet", DOM_STD, models_linear::check_mt_elasticnet),
            sub("elasticnet", DOM_STD, models_linear::check_elasticnet),
            sub("ols", DOM_STD, models_linear::check_ols),
            sub("isotonic", DOM_ISO, models_linear::check_isotonic),
            sub("tree", DOM_STD, models_classif::check_tree),
            sub("gaussian_nb", DOM_STD, models_classif::check_gaussian_nb),
            sub("multinomial_nb", DOM_COUNTS, models_classif::check_multinomial_nb),
            sub("ftrl", DOM_STD, models_classif::check_ftrl),
        ],
    }
}
