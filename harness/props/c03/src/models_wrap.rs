//! Adapters: the composing wrappers — `MultiTargetModel`, `MultiClassModel`, `Platt`.
//!
//! The wrappers are parameterised by the records type, so the adapter keeps the fitted parts and
//! instantiates the wrapper for owned arrays and (where every part supports it) for views.

use crate::case::{self, Case};
use crate::driver::{self, Spec, REL_TOL_F32};
use crate::forms::{owned_forms, owned_only, owned_reuse, view_forms, Forms, Out, Pred, ToOut};
use crate::util::{abs_dot, all_finite, dot, fit_or_skip, usable};
use linfa::composing::platt_scaling::{platt_newton_method, Platt};
use linfa::composing::{MultiClassModel, MultiTargetModel};
use linfa::dataset::Pr;
use linfa::prelude::*;
use linfa::traits::PredictInplace;
use linfa_elasticnet::ElasticNet;
use linfa_linear::{FittedLinearRegression, LinearRegression};
use linfa_svm::Svm;
use ndarray::{Array1, Array2, ArrayBase, ArrayView2, Data, Ix2, OwnedRepr, ViewRepr};
use vengine::Obs;

// ------------------------------------------------------------------------------------------------
// MultiTargetModel

#[derive(Clone)]
enum Reg {
    Ols(FittedLinearRegression<f64>),
    Enet(ElasticNet<f64>),
    Svr(Svm<f64, f64>),
}

impl Reg {
    fn boxed<D: Data<Elem = f64>>(&self) -> Box<dyn PredictInplace<ArrayBase<D, Ix2>, Array1<f64>>> {
        match self {
            Reg::Ols(m) => Box::new(m.clone()),
            Reg::Enet(m) => Box::new(m.clone()),
            Reg::Svr(m) => Box::new(m.clone()),
        }
    }
    fn own(&self, x: &Array2<f64>) -> Array1<f64> {
        match self {
            Reg::Ols(m) => m.predict(x),
            Reg::Enet(m) => m.predict(x),
            Reg::Svr(m) => m.predict(x),
        }
    }
    fn scale(&self, x: &[f64]) -> f64 {
        match self {
            Reg::Ols(m) => abs_dot(x, &m.params().to_vec()) + m.intercept().abs(),
            Reg::Enet(m) => abs_dot(x, &m.hyperplane().to_vec()) + m.intercept().abs(),
            Reg::Svr(_) => 0.0,
        }
    }
}

struct MultiTargetPred {
    parts: Vec<Reg>,
    /// build through `FromIterator` (homogeneous parts) instead of `new`
    collect: bool,
}

impl MultiTargetPred {
    fn build<D: Data<Elem = f64>>(&self) -> MultiTargetModel<ArrayBase<D, Ix2>, f64> {
        if self.collect {
            self.parts
                .iter()
                .filter_map(|p| match p {
                    Reg::Ols(m) => Some(m.clone()),
                    _ => None,
                })
                .collect()
        } else {
            MultiTargetModel::new(self.parts.iter().map(|p| p.boxed::<D>()).collect())
        }
    }
}

impl Pred for MultiTargetPred {
    fn forms_owned(&self, x: &Array2<f64>, junk: u8) -> Forms {
        let m = self.build::<OwnedRepr<f64>>();
        owned_forms::<_, Array2<f64>>(&m, x, junk)
    }
    fn forms_view(&self, x: ArrayView2<'_, f64>, junk: u8) -> Option<Forms> {
        let m = self.build::<ViewRepr<&f64>>();
        Some(view_forms::<_, Array2<f64>>(&m, x, junk))
    }
    fn reuse(&self, x1: &Array2<f64>, x2: &Array2<f64>) -> Out {
        let m = self.build::<OwnedRepr<f64>>();
        owned_reuse::<_, Array2<f64>>(&m, x1, x2)
    }
    fn one(&self, x: &Array2<f64>) -> Out {
        let m = self.build::<OwnedRepr<f64>>();
        let out: Array2<f64> = m.predict(x);
        out.to_out()
    }
}

pub fn check_multitarget(c: &Case, obs: &mut Obs) {
    if !usable(c, obs) {
        return;
    }
    let k = 2 + c.opt(0, 2) as usize;
    let collect = c.opt(1, 3) == 0;
    obs.class(if collect { "multitarget_from_iterator" } else { "multitarget_new_mixed" });
    obs.class(if k == 2 { "multitarget_2_models" } else { "multitarget_3_models" });
    let x = case::train_x(c);
    let mut parts = vec![];
    for j in 0..k {
        let ds = Dataset::new(x.clone(), case::reg_y(c, j));
        let kind = if collect { 0 } else { (j + c.opt(2, 3) as usize) % 3 };
        let part = match kind {
            0 => fit_or_skip(obs, || LinearRegression::new().fit(&ds)).map(Reg::Ols),
            1 => fit_or_skip(obs, || ElasticNet::params().penalty(0.1).l1_ratio(0.5).fit(&ds)).map(Reg::Enet),
            _ => fit_or_skip(obs, || Svm::<f64, f64>::params().eps(1e-5).c_svr(2.0, Some(0.1)).gaussian_kernel(3.0).fit(&ds))
                .map(Reg::Svr),
        };
        let Some(part) = part else { return };
        parts.push(part);
    }
    let finite = parts.iter().all(|p| match p {
        Reg::Ols(m) => all_finite(m.params().iter().chain([&m.intercept()])),
        Reg::Enet(m) => all_finite(m.hyperplane().iter().chain([&m.intercept()])),
        Reg::Svr(m) => m.rho.is_finite() && all_finite(m.alpha.iter()),
    });
    if !finite {
        obs.skip("skipped_nonfinite_parameters");
        return;
    }
    let pred = MultiTargetPred { parts: parts.clone(), collect };
    let spec = Spec::matvec(|x| parts.iter().map(|p| p.scale(x)).fold(0.0, f64::max));
    if let Some(info) = driver::run(obs, c, &pred, &spec) {
        // column j of the wrapper is model j's own prediction on the same array (same arithmetic: bits)
        obs.ensure(info.batch.cols == k, "multitarget:width", || {
            format!("wrapper of {k} models returned {} columns", info.batch.cols)
        });
        for (j, part) in parts.iter().enumerate() {
            let Some(own) = obs.call("member predict", || part.own(&info.q)) else { continue };
            for i in 0..info.rows.len() {
                let got = info.batch.rows.get(i).and_then(|r| r.get(j)).copied();
                let want = own.get(i).copied();
                obs.ensure(
                    matches!((got, want), (Some(g), Some(w)) if g.to_bits() == w.to_bits()),
                    "multitarget:column",
                    || format!("row {i}, column {j}: wrapper returned {got:?}, model {j} alone predicts {want:?}"),
                );
            }
        }
    }
}

// ------------------------------------------------------------------------------------------------
// MultiClassModel

/// a mock probability model: sigmoid of a linear function, optionally quantised to quarters so
/// that exact ties between members occur
#[derive(Clone)]
struct MockPr {
    w: Vec<f64>,
    b: f64,
    quantise: bool,
}

impl MockPr {
    fn prob(&self, x: impl Iterator<Item = f64>) -> f32 {
        let z: f64 = x.zip(&self.w).map(|(a, b)| a * b).sum::<f64>() + self.b;
        let p = 1.0 / (1.0 + (-z).exp());
        let p = if self.quantise { (p * 4.0).round() / 4.0 } else { p };
        (p as f32).clamp(0.0, 1.0)
    }
}

impl<D: Data<Elem = f64>> PredictInplace<ArrayBase<D, Ix2>, Array1<Pr>> for MockPr {
    fn predict_inplace(&self, x: &ArrayBase<D, Ix2>, y: &mut Array1<Pr>) {
        for (row, out) in x.rows().into_iter().zip(y.iter_mut()) {
            *out = Pr::new(self.prob(row.iter().copied()));
        }
    }
    fn default_target(&self, x: &ArrayBase<D, Ix2>) -> Array1<Pr> {
        Array1::default(x.nrows())
    }
}

#[derive(Clone)]
enum Member {
    Svm(Svm<f64, Pr>),
    Mock(MockPr),
    Platt(Platt<f64, FittedLinearRegression<f64>>),
}

impl Member {
    fn boxed<D: Data<Elem = f64>>(&self) -> Option<Box<dyn PredictInplace<ArrayBase<D, Ix2>, Array1<Pr>>>> {
        match self {
            Member::Svm(m) => Some(Box::new(m.clone())),
            Member::Mock(m) => Some(Box::new(m.clone())),
            Member::Platt(_) => None,
        }
    }
    fn boxed_owned(&self) -> Box<dyn PredictInplace<Array2<f64>, Array1<Pr>>> {
        match self {
            Member::Svm(m) => Box::new(m.clone()),
            Member::Mock(m) => Box::new(m.clone()),
            Member::Platt(m) => Box::new(m.clone()),
        }
    }
    fn own(&self, x: &Array2<f64>) -> Array1<Pr> {
        match self {
            Member::Svm(m) => m.predict(x),
            Member::Mock(m) => m.predict(x),
            Member::Platt(m) => m.predict(x),
        }
    }
}

struct MultiClassPred {
    members: Vec<(usize, Member)>,
    collect_mocks: bool,
}

impl MultiClassPred {
    fn build_owned(&self) -> MultiClassModel<Array2<f64>, usize> {
        if self.collect_mocks {
            self.members
                .iter()
                .filter_map(|(l, m)| match m {
                    Member::Mock(m) => Some((*l, m.clone())),
                    _ => None,
                })
                .collect()
        } else {
            MultiClassModel::new(self.members.iter().map(|(l, m)| (*l, m.boxed_owned())).collect())
        }
    }
    fn build_view<'v>(&self) -> Option<MultiClassModel<ArrayView2<'v, f64>, usize>> {
        let mut v = vec![];
        for (l, m) in &self.members {
            v.push((*l, m.boxed::<ViewRepr<&'v f64>>()?));
        }
        Some(MultiClassModel::new(v))
    }
}

impl Pred for MultiClassPred {
    fn forms_owned(&self, x: &Array2<f64>, junk: u8) -> Forms {
        let m = self.build_owned();
        owned_forms::<_, Array1<usize>>(&m, x, junk)
    }
    fn forms_view(&self, x: ArrayView2<'_, f64>, junk: u8) -> Option<Forms> {
        let m = self.build_view()?;
        Some(view_forms::<_, Array1<usize>>(&m, x, junk))
    }
    fn reuse(&self, x1: &Array2<f64>, x2: &Array2<f64>) -> Out {
        let m = self.build_owned();
        owned_reuse::<_, Array1<usize>>(&m, x1, x2)
    }
    fn one(&self, x: &Array2<f64>) -> Out {
        let m = self.build_owned();
        let out: Array1<usize> = m.predict(x);
        out.to_out()
    }
}

pub fn check_multiclass(c: &Case, obs: &mut Obs) {
    if !usable(c, obs) {
        return;
    }
    let k = 2 + c.opt(0, 2) as usize;
    let variant = c.opt(1, 4);
    let labels_of = |j: usize| [7usize, 11, 13][j % 3];
    let x = case::train_x(c);
    let lab = case::rank_labels(c, k);
    let mut members: Vec<(usize, Member)> = vec![];
    for j in 0..k {
        let one_vs_rest = Array1::from(lab.iter().map(|l| *l == j).collect::<Vec<_>>());
        let kind = match variant {
            0 => 0,           // calibrated SVMs
            1 => 1,           // mocks (with exact ties), built through FromIterator
            2 => 2,           // Platt around OLS (owned records only)
            _ => (j % 2) as u8, // mixed SVM / mock through `new`
        };
        let member = match kind {
            0 => {
                let ds = Dataset::new(x.clone(), one_vs_rest);
                fit_or_skip(obs, || Svm::<f64, Pr>::params().eps(1e-5).gaussian_kernel(3.0).fit(&ds)).map(Member::Svm)
            }
            1 => Some(Member::Mock(MockPr {
                w: c.w[j % 3].clone(),
                b: 0.25 * j as f64,
                quantise: c.opt(2, 2) == 1,
            })),
            _ => {
                let y = one_vs_rest.mapv(|b| if b { 1.0 } else { -1.0 });
                let ds_reg = Dataset::new(x.clone(), y);
                let ds_bool = Dataset::new(x.clone(), one_vs_rest);
                fit_or_skip(obs, || LinearRegression::new().fit(&ds_reg))
                    .and_then(|inner| fit_or_skip(obs, || Platt::params().fit_with(inner, &ds_bool)))
                    .map(Member::Platt)
            }
        };
        let Some(member) = member else { return };
        members.push((labels_of(j), member));
    }
    obs.class(match variant {
        0 => "multiclass_calibrated_svms",
        1 => "multiclass_mock_members",
        2 => "multiclass_platt_members",
        _ => "multiclass_mixed_members",
    });
    let pred = MultiClassPred { members: members.clone(), collect_mocks: variant == 1 };
    let p = c.p();
    let probs = |x: &[f64]| -> Option<Vec<f64>> {
        let row = case::to_array(std::slice::from_ref(&x.to_vec()), p);
        let mut v = vec![];
        for (_, m) in &members {
            let pr = vengine::guard(|| m.own(&row)).ok()?;
            v.push(**pr.get(0)? as f64);
        }
        Some(v)
    };
    let index_of = |l: f64| members.iter().position(|(lab, _)| *lab as f64 == l);
    // two labels are both defensible when their members' probabilities agree up to f32 rounding
    let tie = |x: &[f64], a: f64, b: f64| match (probs(x), index_of(a), index_of(b)) {
        (Some(p), Some(ia), Some(ib)) => (p[ia] - p[ib]).abs() <= REL_TOL_F32,
        _ => false,
    };
    let spec = Spec::labels(tie);
    if let Some(info) = driver::run(obs, c, &pred, &spec) {
        for (i, x) in info.rows.iter().enumerate() {
            let Some(pr) = probs(x) else { continue };
            let best = pr.iter().cloned().fold(f64::NEG_INFINITY, f64::max);
            let got = info.single[i][0];
            let n_best = pr.iter().filter(|v| **v == best).count();
            obs.class_if(n_best >= 2, "multiclass_exact_tie_between_members");
            let ok = index_of(got).map(|j| pr[j] >= best - REL_TOL_F32).unwrap_or(false);
            obs.ensure(ok, "multiclass:not-argmax", || {
                format!(
                    "wrapper labels {x:?} as {got}; members {:?} report probabilities {pr:?}",
                    members.iter().map(|m| m.0).collect::<Vec<_>>()
                )
            });
        }
    }
}

// ------------------------------------------------------------------------------------------------
// Platt

/// a mock decision function (owned records only, like any model that returns `Array1<F>`)
#[derive(Clone, Debug)]
struct MockDecision {
    w: Vec<f64>,
    b: f64,
}

impl PredictInplace<Array2<f64>, Array1<f64>> for MockDecision {
    fn predict_inplace(&self, x: &Array2<f64>, y: &mut Array1<f64>) {
        for (row, out) in x.rows().into_iter().zip(y.iter_mut()) {
            *out = row.iter().zip(&self.w).map(|(a, b)| a * b).sum::<f64>() + self.b;
        }
    }
    fn default_target(&self, x: &Array2<f64>) -> Array1<f64> {
        Array1::zeros(x.nrows())
    }
}

fn platt_common<O>(c: &Case, obs: &mut Obs, inner: O, exact_inner_cross_layout: bool)
where
    O: PredictInplace<Array2<f64>, Array1<f64>> + Clone,
{
    platt_with(c, obs, inner, exact_inner_cross_layout, case::bool_labels(c), None)
}

/// `rows`: given the fitted (A, B), the query batch to use instead of the case's own one
fn platt_with<O>(
    c: &Case,
    obs: &mut Obs,
    inner: O,
    exact_inner_cross_layout: bool,
    labels: Array1<bool>,
    rows: Option<&dyn Fn(f64, f64) -> Option<case::Query>>,
) where
    O: PredictInplace<Array2<f64>, Array1<f64>> + Clone,
{
    let x = case::train_x(c);
    let ds = Dataset::new(x.clone(), labels.clone());
    // A and B: the same public Newton routine on the same inputs as `fit_with`
    let train_dec: Array1<f64> = match vengine::guard(|| inner.predict(&x)) {
        Ok(d) => d,
        Err(_) => {
            obs.skip("skipped_fit_panicked");
            return;
        }
    };
    let Some(valid) = fit_or_skip(obs, || Platt::<f64, O>::params().check()) else { return };
    let Some((a, b)) = fit_or_skip(obs, || platt_newton_method(train_dec.view(), labels.view(), &valid)) else { return };
    let Some(model) = fit_or_skip(obs, || Platt::params().fit_with(inner.clone(), &ds)) else { return };
    if !(a.is_finite() && b.is_finite()) {
        obs.skip("skipped_nonfinite_parameters");
        return;
    }
    obs.class(if a < 0.0 { "platt_increasing_in_decision" } else if a > 0.0 { "platt_decreasing_in_decision" } else { "platt_flat" });
    // same layout: the inner decision values are those of the single rows, the sigmoid is per element;
    // across layouts the inner value may move by an ulp, which can move the f32 probability by an ulp
    let mut spec = Spec::matvec(|_| 0.0).with_rel(REL_TOL_F32);
    spec.exact_cross_layout = exact_inner_cross_layout;
    let pred = owned_only::<_, Array1<Pr>>(&model);
    let query = match rows {
        None => case::query(c),
        Some(f) => match f(a, b) {
            Some(q) => q,
            None => {
                obs.skip("skipped_flat_calibration");
                return;
            }
        },
    };
    if let Some(info) = driver::run_rows(obs, c, &pred, &spec, query) {
        let Some(dec) = obs.call("inner predict", || inner.predict(&info.q)) else { return };
        let dec: Vec<f64> = dec.to_vec();
        let pr: Vec<f64> = info.batch.rows.iter().map(|r| r[0]).collect();
        if dec.len() != pr.len() || !all_finite(dec.iter()) {
            return;
        }
        for i in 0..pr.len() {
            let z = a * dec[i] + b;
            let want = if z >= 0.0 { (-z).exp() / (1.0 + (-z).exp()) } else { 1.0 / (1.0 + z.exp()) };
            obs.class_if(pr[i] == 0.0 || pr[i] == 1.0, "platt_saturated_probability");
            obs.class_if(z <= -88.8, "platt_argument_below_minus_88");
            obs.class_if(z >= 88.8, "platt_argument_above_88");
            obs.ensure((0.0..=1.0).contains(&pr[i]), "platt:range", || format!("probability {} for decision value {}", pr[i], dec[i]));
            // f32 evaluation of the sigmoid: argument rounded to f32 (relative 6e-8), result to f32
            obs.ensure((pr[i] - want).abs() <= 3e-6, "platt:sigmoid", || {
                format!("row {i}: probability {} but 1/(1+exp(A f + B)) = {want} with A = {a}, B = {b}, f = {}", pr[i], dec[i])
            });
        }
        let slack = 4.0 * f32::EPSILON as f64;
        for i in 0..pr.len() {
            for j in 0..pr.len() {
                if dec[i] < dec[j] {
                    let ok = if a < 0.0 {
                        pr[i] <= pr[j] + slack
                    } else if a > 0.0 {
                        pr[i] >= pr[j] - slack
                    } else {
                        (pr[i] - pr[j]).abs() <= slack
                    };
                    obs.ensure(ok, "platt:monotone", || {
                        format!("decision values {} < {} map to probabilities {} and {} with A = {a}", dec[i], dec[j], pr[i], pr[j])
                    });
                }
            }
        }
    }
}

pub fn check_platt(c: &Case, obs: &mut Obs) {
    if !usable(c, obs) {
        return;
    }
    let x = case::train_x(c);
    let y = case::bool_labels(c).mapv(|b| if b { 1.0 } else { -1.0 });
    let ds = Dataset::new(x, y);
    match c.opt(0, 3) {
        0 => {
            obs.class("platt_inner_ols");
            let Some(inner) = fit_or_skip(obs, || LinearRegression::new().fit(&ds)) else { return };
            platt_common(c, obs, inner, false);
        }
        1 => {
            obs.class("platt_inner_svr");
            let Some(inner) =
                fit_or_skip(obs, || Svm::<f64, f64>::params().eps(1e-5).c_svr(1.0, Some(0.1)).gaussian_kernel(3.0).fit(&ds))
            else {
                return;
            };
            platt_common(c, obs, inner, true);
        }
        _ => {
            obs.class("platt_inner_mock_decision");
            // a decision function of large magnitude along the label direction: saturates the sigmoid
            let scale = [1.0, 8.0, 40.0][c.opt(1, 3) as usize];
            // opposite orientation in half of the cases (A > 0: probability decreasing in the decision value)
            let scale = if c.opt(2, 2) == 1 { -scale } else { scale };
            let inner = MockDecision { w: c.w[0].iter().map(|v| v * scale).collect(), b: dot(&c.w[1], &c.w[2]) * 0.1 };
            platt_common(c, obs, inner, true);
        }
    }
}

// ------------------------------------------------------------------------------------------------
// Platt with extreme decision values

/// targets for A*f + B (both signs are used)
const Z_GRID: [f64; 11] = [0.0, 1e-3, 1.0, 10.0, 50.0, 88.0, 89.0, 100.0, 700.0, 1e4, 1e30];

fn stable_sigmoid_of_minus(z: f64) -> f64 {
    // 1 / (1 + exp(z)) without overflow
    if z >= 0.0 {
        (-z).exp() / (1.0 + (-z).exp())
    } else {
        1.0 / (1.0 + z.exp())
    }
}

/// (1) `platt_predict` called directly with generated (A, B) of both signs and decision values that put
/// A*f+B on the grid; (2) a fitted `Platt` around a mock inner model whose decision value is feature 0
/// (orientation generated, so A takes both signs), queried with rows constructed so that A*f+B hits the
/// same grid, through the whole generic oracle (batch, layouts, calling forms, buffers).
pub fn check_platt_extreme(c: &Case, obs: &mut Obs) {
    if !usable(c, obs) {
        return;
    }
    // ---- (1) the sigmoid itself
    let a_mag = [0.01, 1.0, 37.5, 1e-6, 1e4][c.opt(1, 5) as usize] * (1.0 + c.w[1][0].abs());
    let a = if c.opt(2, 2) == 0 { -a_mag } else { a_mag };
    let b = 3.0 * c.w[2][0];
    obs.class(if a < 0.0 { "direct_negative_a" } else { "direct_positive_a" });
    let mut pts: Vec<(f64, f64)> = vec![]; // (f, probability)
    for (gi, g) in Z_GRID.iter().enumerate() {
        for sign in [-1.0, 1.0] {
            for jitter in [0.0, c.noise[gi % c.n()] * 1e-3] {
                let z = sign * g * (1.0 + jitter);
                let f = (z - b) / a;
                if !f.is_finite() {
                    continue;
                }
                let Some(p) = obs.call("platt_predict", || linfa::composing::platt_scaling::platt_predict(f, a, b)) else { continue };
                let p = *p as f64;
                let zz = a * f + b;
                obs.class_if(zz <= -88.8, "platt_argument_below_minus_88");
                obs.class_if(zz >= 88.8, "platt_argument_above_88");
                obs.ensure(p.is_finite() && (0.0..=1.0).contains(&p), "platt:range", || {
                    format!("platt_predict({f:e}, {a:e}, {b:e}) = {p}")
                });
                let want = stable_sigmoid_of_minus(zz);
                obs.ensure((p - want).abs() <= 3e-6, "platt:sigmoid", || {
                    format!("platt_predict({f:e}, {a:e}, {b:e}) = {p}, 1/(1+exp(A f + B)) = {want}")
                });
                pts.push((f, p));
            }
        }
    }
    let slack = 4.0 * f32::EPSILON as f64;
    for i in 0..pts.len() {
        for j in 0..pts.len() {
            if pts[i].0 < pts[j].0 {
                let ok = if a < 0.0 { pts[i].1 <= pts[j].1 + slack } else { pts[i].1 >= pts[j].1 - slack };
                obs.ensure(ok, "platt:monotone", || {
                    format!("platt_predict with A = {a:e}, B = {b:e}: f {:e} < {:e} but probabilities {} and {}", pts[i].0, pts[j].0, pts[i].1, pts[j].1)
                });
            }
        }
    }

    // ---- (2) a fitted Platt model queried at extreme decision values
    let orient = if c.opt(0, 2) == 0 { 1.0 } else { -1.0 };
    let p = c.p();
    let mut w = vec![0.0; p];
    w[0] = orient;
    let inner = MockDecision { w, b: 0.0 };
    // labels follow feature 0 (plus noise): the calibration slope is clearly non-zero, its sign follows `orient`
    let n = c.n();
    let mut order: Vec<usize> = (0..n).collect();
    let key: Vec<f64> = (0..n).map(|i| c.train[i][0] + 0.5 * c.noise[i]).collect();
    order.sort_by(|&i, &j| key[i].partial_cmp(&key[j]).unwrap_or(std::cmp::Ordering::Equal).then(i.cmp(&j)));
    let mut lab = vec![false; n];
    for (rank, &i) in order.iter().enumerate() {
        lab[i] = rank * 2 >= n;
    }
    let rows = |a: f64, b: f64| -> Option<case::Query> {
        if a == 0.0 || !a.is_finite() || !b.is_finite() {
            return None;
        }
        let mut rows: Vec<Vec<f64>> = vec![];
        let mut origin = vec![];
        for &(kind, i) in &c.picks {
            if kind % 3 == 2 && !rows.is_empty() {
                let r = rows[vengine::gen::idx(i, rows.len())].clone();
                rows.push(r);
                origin.push(case::Origin::Dup);
                continue;
            }
            let g = Z_GRID[vengine::gen::idx(i, Z_GRID.len())];
            let z = if kind % 2 == 0 { g } else { -g };
            let f = (z - b) / a;
            if !f.is_finite() {
                continue;
            }
            let mut r = c.fresh[vengine::gen::idx(i, c.fresh.len())].clone();
            r[0] = f * orient; // inner decision value = orient * x0 = f
            rows.push(r);
            origin.push(case::Origin::Fresh);
        }
        Some(case::Query { rows, origin })
    };
    platt_with(c, obs, inner, true, Array1::from(lab), Some(&rows));
}
