fn main() {
    vengine::main(c03::property())
}
