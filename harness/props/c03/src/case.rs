//! The generated case (plain data) shared by every predictor kind, the derived training data
//! (targets, labels, blobs) and the derived query batches / memory layouts.

use ndarray::{s, Array1, Array2, ArrayView2, ShapeBuilder};
use proptest::prelude::*;
use serde::{Deserialize, Serialize};
use vengine::gen::{gauss, idx, perm_from_keys};
use vengine::Tier;

/// One generated case. Everything a predictor kind needs is derived from these fields.
#[derive(Debug, Clone, Serialize, Deserialize)]
pub struct Case {
    /// training records, n x p
    pub train: Vec<Vec<f64>>,
    /// three direction vectors (length p): targets / labels / blob centres are derived from them
    pub w: Vec<Vec<f64>>,
    /// per-sample noise, length n
    pub noise: Vec<f64>,
    /// fresh query rows (not in the training set), 6 x p
    pub fresh: Vec<Vec<f64>>,
    /// the query batch, one entry per row: (0 = a training row | 1 = a fresh row | 2 = duplicate of an
    /// earlier query row, index mapped monotonically into the respective pool)
    pub picks: Vec<(u8, u16)>,
    /// sort keys decoding the permutation of the batch
    pub perm: Vec<u16>,
    /// a further batch composed of query rows with repetition (indices into the batch)
    pub dup: Vec<u16>,
    /// model options (kernel, link, penalty, number of classes ...), interpreted per predictor kind
    pub opt: [u8; 3],
    /// seed of every RNG handed to linfa
    pub seed: u64,
    /// selects the junk value a re-used target buffer is pre-filled with
    #[serde(default)]
    pub junk: u8,
    /// poisoned-neighbour relation: (position key of the replaced non-last row, variant/feature selector)
    #[serde(default)]
    pub poison: (u16, u8),
    /// big-batch stratum: (size group 1..=6, 0 = no big batch in this case; position inside the group)
    #[serde(default)]
    pub big: (u8, u16),
}

#[derive(Clone, Copy, Debug, PartialEq)]
pub enum Flavor {
    /// approximately standard normal features
    Gauss,
    /// small non-negative integer counts (multinomial naive Bayes)
    Counts,
}

#[derive(Clone, Copy, Debug)]
pub struct Dom {
    pub n: (usize, usize),
    pub p: (usize, usize),
    pub flavor: Flavor,
}

pub const DOM_STD: Dom = Dom { n: (12, 40), p: (1, 4), flavor: Flavor::Gauss };
pub const DOM_SVM: Dom = Dom { n: (12, 30), p: (1, 4), flavor: Flavor::Gauss };
pub const DOM_ISO: Dom = Dom { n: (12, 40), p: (1, 1), flavor: Flavor::Gauss };
pub const DOM_P2: Dom = Dom { n: (12, 40), p: (2, 4), flavor: Flavor::Gauss };
pub const DOM_COUNTS: Dom = Dom { n: (12, 40), p: (2, 4), flavor: Flavor::Counts };

fn elem(f: Flavor) -> BoxedStrategy<f64> {
    match f {
        Flavor::Gauss => gauss().boxed(),
        Flavor::Counts => (0i32..=6).prop_map(|v| v as f64).boxed(),
    }
}

/// one case in 40 carries a big batch (quick: 250 per predictor family, thorough: 2500)
fn big_strategy(_tier: Tier) -> impl Strategy<Value = (u8, u16)> {
    prop_oneof![
        39 => Just((0u8, 0u16)),
        1 => (1u8..=6, any::<u16>()),
    ]
}

fn matrix(n: usize, p: usize, f: Flavor) -> impl Strategy<Value = Vec<Vec<f64>>> {
    proptest::collection::vec(proptest::collection::vec(elem(f), p), n)
}

pub fn case_strategy(tier: Tier, dom: Dom) -> impl Strategy<Value = Case> {
    let max_m = tier.pick(12usize, 40usize);
    let m = prop_oneof![
        1 => Just(0usize),
        2 => Just(1usize),
        13 => 2usize..=max_m,
    ];
    (dom.n.0..=dom.n.1, dom.p.0..=dom.p.1, m).prop_flat_map(move |(n, p, m)| {
        (
            matrix(n, p, dom.flavor),
            matrix(3, p, Flavor::Gauss),
            proptest::collection::vec(gauss(), n),
            matrix(6, p, dom.flavor),
            proptest::collection::vec((0u8..3, any::<u16>()), m),
            proptest::collection::vec(any::<u16>(), m),
            proptest::collection::vec(any::<u16>(), 0..=(2 * m).min(24)),
            any::<[u8; 3]>(),
            (any::<u64>(), any::<u8>(), (any::<u16>(), any::<u8>()), big_strategy(tier)),
        )
            .prop_map(|(train, w, noise, fresh, picks, perm, dup, opt, (seed, junk, poison, big))| Case {
                train,
                w,
                noise,
                fresh,
                picks,
                perm,
                dup,
                opt,
                seed,
                junk,
                poison,
                big,
            })
    })
}

// ------------------------------------------------------------------------------------------------
// shape helpers (never panic on a hand-edited replay file: everything is clamped)

impl Case {
    pub fn n(&self) -> usize {
        self.train.len()
    }
    pub fn p(&self) -> usize {
        self.train.first().map(|r| r.len()).unwrap_or(0)
    }
    /// structural sanity of a (possibly hand-edited) case
    pub fn well_formed(&self) -> bool {
        let (n, p) = (self.n(), self.p());
        n >= 2
            && p >= 1
            && self.train.iter().all(|r| r.len() == p)
            && self.w.len() == 3
            && self.w.iter().all(|r| r.len() == p)
            && self.noise.len() == n
            && !self.fresh.is_empty()
            && self.fresh.iter().all(|r| r.len() == p)
            && self.perm.len() == self.picks.len()
            && self
                .train
                .iter()
                .chain(self.w.iter())
                .chain(self.fresh.iter())
                .flatten()
                .chain(self.noise.iter())
                .all(|v| v.is_finite())
    }
    pub fn opt(&self, i: usize, modulo: u8) -> u8 {
        self.opt.get(i).copied().unwrap_or(0) % modulo.max(1)
    }
}

pub fn to_array(rows: &[Vec<f64>], p: usize) -> Array2<f64> {
    let mut a = Array2::zeros((rows.len(), p));
    for (i, r) in rows.iter().enumerate() {
        for (j, v) in r.iter().enumerate().take(p) {
            a[(i, j)] = *v;
        }
    }
    a
}

fn dot(a: &[f64], b: &[f64]) -> f64 {
    a.iter().zip(b).map(|(x, y)| x * y).sum()
}

// ------------------------------------------------------------------------------------------------
// training data derived from the case

/// plain training matrix
pub fn train_x(c: &Case) -> Array2<f64> {
    to_array(&c.train, c.p())
}

/// training matrix with k blobs: row i is shifted by 2.5 * w[i mod k]
pub fn blob_x(c: &Case, k: usize) -> Array2<f64> {
    let mut a = train_x(c);
    let k = k.clamp(1, 3);
    for i in 0..a.nrows() {
        for j in 0..a.ncols() {
            a[(i, j)] += 2.5 * c.w[i % k][j];
        }
    }
    a
}

/// linear score of sample i along direction j plus noise
pub fn score(c: &Case, i: usize, j: usize, noise_scale: f64) -> f64 {
    dot(&c.train[i], &c.w[j % 3]) + noise_scale * c.noise[i]
}

/// regression target along direction j
pub fn reg_y(c: &Case, j: usize) -> Array1<f64> {
    Array1::from_shape_fn(c.n(), |i| score(c, i, j, 0.3) + 0.5 * (j as f64 + 1.0))
}

/// multi-target regression targets (n x q)
pub fn reg_y2(c: &Case, q: usize) -> Array2<f64> {
    let mut y = Array2::zeros((c.n(), q));
    for j in 0..q {
        let col = reg_y(c, j);
        // decorrelate the noise between the columns a little
        for i in 0..c.n() {
            y[(i, j)] = col[i] + 0.2 * c.noise[(i + j) % c.n()];
        }
    }
    y
}

/// strictly positive target (for GLMs with a log link): exp of a damped linear score
pub fn pos_y(c: &Case) -> Array1<f64> {
    Array1::from_shape_fn(c.n(), |i| (0.3 * dot(&c.train[i], &c.w[0]) + 0.1 * c.noise[i]).clamp(-6.0, 6.0).exp())
}

/// class labels 0..k by rank of the noisy score: every class receives at least floor(n/k) samples,
/// whatever the values are (constructed, not filtered)
pub fn rank_labels(c: &Case, k: usize) -> Vec<usize> {
    let n = c.n();
    let k = k.clamp(1, n.max(1));
    let mut order: Vec<usize> = (0..n).collect();
    let sc: Vec<f64> = (0..n).map(|i| score(c, i, 0, 0.7)).collect();
    order.sort_by(|&a, &b| sc[a].partial_cmp(&sc[b]).unwrap_or(std::cmp::Ordering::Equal).then(a.cmp(&b)));
    let mut lab = vec![0usize; n];
    for (rank, &i) in order.iter().enumerate() {
        lab[i] = (rank * k / n).min(k - 1);
    }
    lab
}

pub fn bool_labels(c: &Case) -> Array1<bool> {
    Array1::from(rank_labels(c, 2).into_iter().map(|l| l == 1).collect::<Vec<_>>())
}

// ------------------------------------------------------------------------------------------------
// query batch and its derived compositions

#[derive(Clone, Copy, Debug, PartialEq)]
pub enum Origin {
    Train,
    Fresh,
    Dup,
}

pub struct Query {
    pub rows: Vec<Vec<f64>>,
    pub origin: Vec<Origin>,
}

pub fn query(c: &Case) -> Query {
    let mut rows: Vec<Vec<f64>> = vec![];
    let mut origin = vec![];
    // fresh rows reach a bit beyond the training range (isotonic clamps, far side of splits);
    // count data stay integer counts
    let fresh_scale = if is_counts(c) { 1.0 } else { 1.5 };
    for &(kind, i) in &c.picks {
        match kind % 3 {
            1 => {
                let r = &c.fresh[idx(i, c.fresh.len())];
                rows.push(r.iter().map(|v| v * fresh_scale).collect());
                origin.push(Origin::Fresh);
            }
            2 if !rows.is_empty() => {
                let r = rows[idx(i, rows.len())].clone();
                rows.push(r);
                origin.push(Origin::Dup);
            }
            _ => {
                rows.push(c.train[idx(i, c.n())].clone());
                origin.push(Origin::Train);
            }
        }
    }
    Query { rows, origin }
}

fn is_counts(c: &Case) -> bool {
    c.train.iter().flatten().all(|v| v.fract() == 0.0 && *v >= 0.0)
}

pub fn permutation(c: &Case, m: usize) -> Vec<usize> {
    perm_from_keys(&c.perm, m)
}

pub fn dup_indices(c: &Case, m: usize) -> Vec<usize> {
    if m == 0 {
        return vec![];
    }
    c.dup.iter().map(|&d| idx(d, m)).collect()
}

pub fn select_rows(rows: &[Vec<f64>], which: &[usize], p: usize) -> Array2<f64> {
    let sel: Vec<Vec<f64>> = which.iter().filter_map(|&i| rows.get(i).cloned()).collect();
    to_array(&sel, p)
}

// ------------------------------------------------------------------------------------------------
// memory layouts: every variant has the same logical content as `q`

const JUNK: f64 = 7777.25;

/// owned arrays whose logical content equals `q` but whose memory layout differs
pub fn owned_layouts(q: &Array2<f64>) -> Vec<(&'static str, Array2<f64>)> {
    let (m, p) = q.dim();
    let mut v: Vec<(&'static str, Array2<f64>)> = vec![];
    // Fortran (column-major) order
    let mut f = Array2::zeros((m, p).f());
    f.assign(q);
    v.push(("layout_owned_fortran", f));
    // every second row / inner columns of a wider array filled with junk
    let mut wide = Array2::from_shape_fn((2 * m + 1, p + 2), |(i, j)| JUNK + (i * 31 + j) as f64);
    for i in 0..m {
        for j in 0..p {
            wide[(2 * i + 1, j + 1)] = q[(i, j)];
        }
    }
    let strided = wide.slice_move(s![1..2 * m + 1;2, 1..p + 1]);
    v.push(("layout_owned_strided", strided));
    // reversed rows (negative row stride)
    let mut rev = Array2::zeros((m, p));
    for i in 0..m {
        for j in 0..p {
            rev[(m - 1 - i, j)] = q[(i, j)];
        }
    }
    let rev = rev.slice_move(s![..;-1, ..]);
    v.push(("layout_owned_reversed", rev));
    v
}

/// backing arrays for the view layouts; the views are created by `view_layouts`
pub struct ViewBacking {
    pub plain: Array2<f64>,
    pub transposed: Array2<f64>,
    pub wide_rows: Array2<f64>,
    pub wide_cols: Array2<f64>,
    pub reversed: Array2<f64>,
    pub m: usize,
    pub p: usize,
}

pub fn view_backing(q: &Array2<f64>) -> ViewBacking {
    let (m, p) = q.dim();
    let mut transposed = Array2::zeros((p, m));
    let mut wide_rows = Array2::from_shape_fn((3 * m + 2, p + 1), |(i, j)| -JUNK - (i * 17 + j) as f64);
    let mut wide_cols = Array2::from_shape_fn((m, 2 * p + 1), |(i, j)| JUNK * 2.0 + (i * 13 + j) as f64);
    let mut reversed = Array2::zeros((m, p));
    for i in 0..m {
        for j in 0..p {
            transposed[(j, i)] = q[(i, j)];
            wide_rows[(3 * i + 2, j)] = q[(i, j)];
            wide_cols[(i, 2 * j + 1)] = q[(i, j)];
            reversed[(m - 1 - i, j)] = q[(i, j)];
        }
    }
    ViewBacking { plain: q.clone(), transposed, wide_rows, wide_cols, reversed, m, p }
}

pub fn view_layouts(b: &ViewBacking) -> Vec<(&'static str, ArrayView2<'_, f64>)> {
    let (m, p) = (b.m, b.p);
    vec![
        ("layout_view_standard", b.plain.view()),
        ("layout_view_transposed", b.transposed.t()),
        ("layout_view_row_strided", b.wide_rows.slice(s![2..3 * m + 2;3, ..p])),
        ("layout_view_col_strided", b.wide_cols.slice(s![.., 1..2 * p + 1;2])),
        ("layout_view_reversed", b.reversed.slice(s![..;-1, ..])),
    ]
}

/// The poisoned row for the poisoned-neighbour relation: a copy of `row` in which one feature (or every
/// feature) is NaN, +inf, -inf, +1e300 or -1e300. Returns (class label, row).
pub fn poison_row(row: &[f64], selector: u8) -> (&'static str, Vec<f64>) {
    let p = row.len().max(1);
    let (label, v): (&'static str, f64) = match selector % 5 {
        0 => ("poison_nan", f64::NAN),
        1 => ("poison_pos_inf", f64::INFINITY),
        2 => ("poison_neg_inf", f64::NEG_INFINITY),
        3 => ("poison_pos_1e300", 1e300),
        _ => ("poison_neg_1e300", -1e300),
    };
    let mut r = row.to_vec();
    let whole = (selector / 5) % 3 == 0;
    let j = ((selector / 15) as usize) % p;
    for (k, x) in r.iter_mut().enumerate() {
        if whole || k == j {
            *x = v;
        }
    }
    (label, r)
}

/// Batch sizes around plausible internal block sizes. Group 1..=5: the ranges 257..=300, 1000..=1100,
/// 1025..=1500, 2049..=2100, 4097..=4200; group 6: B-1, B, B+1, 2B-1, 2B, 2B+1 for B in 256, 512, 1024, 2048, 4096.
pub fn big_size(group: u8, key: u16) -> Option<(&'static str, usize)> {
    let range = |lo: usize, hi: usize| lo + idx(key, hi - lo + 1);
    match group {
        1 => Some(("big_batch_257_300", range(257, 300))),
        2 => Some(("big_batch_1000_1100", range(1000, 1100))),
        3 => Some(("big_batch_1025_1500", range(1025, 1500))),
        4 => Some(("big_batch_2049_2100", range(2049, 2100))),
        5 => Some(("big_batch_4097_4200", range(4097, 4200))),
        6 => {
            let mut v = vec![];
            for b in [256usize, 512, 1024, 2048, 4096] {
                v.extend([b - 1, b, b + 1, 2 * b - 1, 2 * b, 2 * b + 1]);
            }
            v.sort_unstable();
            v.dedup();
            Some(("big_batch_block_multiple_pm1", v[idx(key, v.len())]))
        }
        _ => None,
    }
}

/// `n` indices into `0..m`, pseudo-random (not periodic, so that a shifted block cannot line up with
/// the tiling), derived from the case seed; and a shuffled copy of the same multiset.
pub fn big_indices(seed: u64, n: usize, m: usize) -> (Vec<usize>, Vec<usize>) {
    let mut rng = vengine::gen::SplitMix(seed ^ 0x6269_675f_6261_7463);
    let a: Vec<usize> = (0..n).map(|_| rng.below(m)).collect();
    let mut b = a.clone();
    for i in (1..b.len()).rev() {
        let j = rng.below(i + 1);
        b.swap(i, j);
    }
    (a, b)
}
