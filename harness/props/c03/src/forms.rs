//! The calling forms of a fitted model, uniformly for every predictor type.
//!
//! `Out` normalises every output type (`Array1<f64|usize|bool|Pr>`, `Array2<f64>`) to rows of f64 so
//! the driver can compare them. `owned_forms` / `view_forms` call the five forms of the property
//! (`predict_inplace` into `default_target`, `predict(&records)`, `predict(records)`,
//! `predict(&dataset)`, `predict(dataset)`) through linfa's blanket impls.

use linfa::dataset::{AsTargets, DatasetBase, Pr};
use linfa::traits::{Predict, PredictInplace};
use ndarray::{Array1, Array2, ArrayBase, ArrayView2, Data, Ix2};
use std::marker::PhantomData;

#[derive(Clone, Debug, PartialEq)]
pub struct Out {
    pub cols: usize,
    pub rows: Vec<Vec<f64>>,
}

impl Out {
    pub fn nrows(&self) -> usize {
        self.rows.len()
    }
    pub fn all_finite(&self) -> bool {
        self.rows.iter().flatten().all(|v| v.is_finite())
    }
}

pub trait ToOut {
    fn to_out(&self) -> Out;
}

impl ToOut for Array1<f64> {
    fn to_out(&self) -> Out {
        Out { cols: 1, rows: self.iter().map(|v| vec![*v]).collect() }
    }
}
impl ToOut for Array1<usize> {
    fn to_out(&self) -> Out {
        Out { cols: 1, rows: self.iter().map(|v| vec![*v as f64]).collect() }
    }
}
impl ToOut for Array1<bool> {
    fn to_out(&self) -> Out {
        Out { cols: 1, rows: self.iter().map(|v| vec![if *v { 1.0 } else { 0.0 }]).collect() }
    }
}
impl ToOut for Array1<Pr> {
    fn to_out(&self) -> Out {
        Out { cols: 1, rows: self.iter().map(|v| vec![**v as f64]).collect() }
    }
}
impl ToOut for Array2<f64> {
    fn to_out(&self) -> Out {
        Out { cols: self.ncols(), rows: self.rows().into_iter().map(|r| r.to_vec()).collect() }
    }
}

/// Overwrite a target buffer element-wise with a (generated) junk value of its own type: what a
/// caller re-using a buffer hands to `predict_inplace`.
pub trait Junk {
    fn fill_junk(&mut self, k: u8);
}
const JUNK_F64: [f64; 4] = [7.25, -3.5, 1.0e6, 0.5];
impl Junk for Array1<f64> {
    fn fill_junk(&mut self, k: u8) {
        self.fill(JUNK_F64[(k % 4) as usize]);
    }
}
impl Junk for Array2<f64> {
    fn fill_junk(&mut self, k: u8) {
        self.fill(JUNK_F64[(k % 4) as usize]);
    }
}
impl Junk for Array1<usize> {
    fn fill_junk(&mut self, k: u8) {
        self.fill(3 + (k % 9) as usize);
    }
}
impl Junk for Array1<bool> {
    fn fill_junk(&mut self, k: u8) {
        self.fill(k % 2 == 0);
    }
}
impl Junk for Array1<Pr> {
    fn fill_junk(&mut self, k: u8) {
        self.fill(Pr::new([0.25, 1.0, 0.0, 0.75][(k % 4) as usize]));
    }
}

/// Results of the calling forms on one and the same records array.
pub struct Forms {
    pub inplace: Out,
    /// `predict_inplace` into a buffer of the default shape pre-filled with junk
    pub inplace_junk: Out,
    /// `predict_inplace` a second time into the buffer that already holds the result
    pub inplace_twice: Out,
    pub by_ref: Out,
    pub by_val: Out,
    pub ds_ref: Out,
    pub ds_val: Out,
    /// `predict(records)` handed the records back with identical shape, strides and bits
    pub by_val_records_same: bool,
    /// `predict(dataset)` handed the records back with identical shape, strides and bits
    pub ds_val_records_same: bool,
}

impl Forms {
    pub fn named(&self) -> [(&'static str, &Out); 7] {
        [
            ("predict_inplace(default_target)", &self.inplace),
            ("predict_inplace(buffer pre-filled with junk)", &self.inplace_junk),
            ("predict_inplace(twice into the same buffer)", &self.inplace_twice),
            ("predict(&records)", &self.by_ref),
            ("predict(records)", &self.by_val),
            ("predict(&dataset)", &self.ds_ref),
            ("predict(dataset)", &self.ds_val),
        ]
    }
}

fn same_array<S1: Data<Elem = f64>, S2: Data<Elem = f64>>(a: &ArrayBase<S1, Ix2>, b: &ArrayBase<S2, Ix2>) -> bool {
    a.shape() == b.shape()
        && a.strides() == b.strides()
        && a.iter().zip(b.iter()).all(|(x, y)| x.to_bits() == y.to_bits())
}

/// the five forms on an owned array (any memory layout)
pub fn owned_forms<M, T>(m: &M, x: &Array2<f64>, junk: u8) -> Forms
where
    M: PredictInplace<Array2<f64>, T>,
    T: ToOut + AsTargets + Junk,
{
    let rows = x.nrows();
    let mut t = m.default_target(x);
    m.predict_inplace(x, &mut t);
    let inplace = t.to_out();
    m.predict_inplace(x, &mut t);
    let inplace_twice = t.to_out();
    let mut t = m.default_target(x);
    t.fill_junk(junk);
    m.predict_inplace(x, &mut t);
    let inplace_junk = t.to_out();
    let by_ref = <M as Predict<&Array2<f64>, T>>::predict(m, x).to_out();
    let d = <M as Predict<Array2<f64>, DatasetBase<Array2<f64>, T>>>::predict(m, x.clone());
    let by_val_records_same = same_array(&d.records, x);
    let by_val = d.targets.to_out();
    let ds = DatasetBase::new(x.clone(), Array1::<usize>::zeros(rows));
    let ds_ref = <M as Predict<&DatasetBase<Array2<f64>, Array1<usize>>, T>>::predict(m, &ds).to_out();
    let d2 = <M as Predict<DatasetBase<Array2<f64>, Array1<usize>>, DatasetBase<Array2<f64>, T>>>::predict(m, ds);
    let ds_val_records_same = same_array(&d2.records, x);
    let ds_val = d2.targets.to_out();
    Forms { inplace, inplace_junk, inplace_twice, by_ref, by_val, ds_ref, ds_val, by_val_records_same, ds_val_records_same }
}

/// the five forms on a borrowed view (any memory layout)
pub fn view_forms<'v, M, T>(m: &M, x: ArrayView2<'v, f64>, junk: u8) -> Forms
where
    M: PredictInplace<ArrayView2<'v, f64>, T>,
    T: ToOut + AsTargets + Junk,
{
    let rows = x.nrows();
    let mut t = m.default_target(&x);
    m.predict_inplace(&x, &mut t);
    let inplace = t.to_out();
    m.predict_inplace(&x, &mut t);
    let inplace_twice = t.to_out();
    let mut t = m.default_target(&x);
    t.fill_junk(junk);
    m.predict_inplace(&x, &mut t);
    let inplace_junk = t.to_out();
    let by_ref = <M as Predict<&ArrayView2<'v, f64>, T>>::predict(m, &x).to_out();
    let d = <M as Predict<ArrayView2<'v, f64>, DatasetBase<ArrayView2<'v, f64>, T>>>::predict(m, x);
    let by_val_records_same = same_array(&d.records, &x);
    let by_val = d.targets.to_out();
    let ds = DatasetBase::new(x, Array1::<usize>::zeros(rows));
    let ds_ref = <M as Predict<&DatasetBase<ArrayView2<'v, f64>, Array1<usize>>, T>>::predict(m, &ds).to_out();
    let d2 =
        <M as Predict<DatasetBase<ArrayView2<'v, f64>, Array1<usize>>, DatasetBase<ArrayView2<'v, f64>, T>>>::predict(m, ds);
    let ds_val_records_same = same_array(&d2.records, &x);
    let ds_val = d2.targets.to_out();
    Forms { inplace, inplace_junk, inplace_twice, by_ref, by_val, ds_ref, ds_val, by_val_records_same, ds_val_records_same }
}

/// `predict_inplace(x2)` into the buffer that holds the result of `predict_inplace(x1)` (same length)
pub fn owned_reuse<M, T>(m: &M, x1: &Array2<f64>, x2: &Array2<f64>) -> Out
where
    M: PredictInplace<Array2<f64>, T>,
    T: ToOut,
{
    let mut t = m.default_target(x1);
    m.predict_inplace(x1, &mut t);
    m.predict_inplace(x2, &mut t);
    t.to_out()
}

/// What the driver needs from a fitted model.
pub trait Pred {
    /// all calling forms on an owned array of arbitrary memory layout
    fn forms_owned(&self, x: &Array2<f64>, junk: u8) -> Forms;
    /// all calling forms on a borrowed view; `None` when the model accepts owned arrays only
    fn forms_view(&self, x: ArrayView2<'_, f64>, junk: u8) -> Option<Forms>;
    /// in-place prediction of `x2` into the buffer holding the in-place prediction of `x1`
    fn reuse(&self, x1: &Array2<f64>, x2: &Array2<f64>) -> Out;
    /// `predict(&x)` alone
    fn one(&self, x: &Array2<f64>) -> Out;
}

/// Shape 1: models implementing `PredictInplace<ArrayBase<D, Ix2>, T>` for every storage `D`.
pub struct AnyLayout<'m, M, T>(pub &'m M, pub PhantomData<T>);

pub fn any_layout<M, T>(m: &M) -> AnyLayout<'_, M, T> {
    AnyLayout(m, PhantomData)
}

impl<'m, M, T> Pred for AnyLayout<'m, M, T>
where
    T: ToOut + AsTargets + Junk,
    M: PredictInplace<Array2<f64>, T> + for<'v> PredictInplace<ArrayView2<'v, f64>, T>,
{
    fn forms_owned(&self, x: &Array2<f64>, junk: u8) -> Forms {
        owned_forms::<M, T>(self.0, x, junk)
    }
    fn forms_view(&self, x: ArrayView2<'_, f64>, junk: u8) -> Option<Forms> {
        Some(view_forms::<M, T>(self.0, x, junk))
    }
    fn reuse(&self, x1: &Array2<f64>, x2: &Array2<f64>) -> Out {
        owned_reuse::<M, T>(self.0, x1, x2)
    }
    fn one(&self, x: &Array2<f64>) -> Out {
        <M as Predict<&Array2<f64>, T>>::predict(self.0, x).to_out()
    }
}

/// Shape 2: models usable with owned `Array2` records only (Platt around an owned-only inner model,
/// wrappers instantiated for `Array2`).
pub struct OwnedOnly<'m, M, T>(pub &'m M, pub PhantomData<T>);

pub fn owned_only<M, T>(m: &M) -> OwnedOnly<'_, M, T> {
    OwnedOnly(m, PhantomData)
}

impl<'m, M, T> Pred for OwnedOnly<'m, M, T>
where
    T: ToOut + AsTargets + Junk,
    M: PredictInplace<Array2<f64>, T>,
{
    fn forms_owned(&self, x: &Array2<f64>, junk: u8) -> Forms {
        owned_forms::<M, T>(self.0, x, junk)
    }
    fn forms_view(&self, _x: ArrayView2<'_, f64>, _junk: u8) -> Option<Forms> {
        None
    }
    fn reuse(&self, x1: &Array2<f64>, x2: &Array2<f64>) -> Out {
        owned_reuse::<M, T>(self.0, x1, x2)
    }
    fn one(&self, x: &Array2<f64>) -> Out {
        <M as Predict<&Array2<f64>, T>>::predict(self.0, x).to_out()
    }
}
