//! The calling forms of a fitted model, uniformly for every predictor type.
//!
//! `Out` normalises every output type (`Array1<f64|usize|bool|Pr>`, `Array2<f64>`) to rows of f64 so
//! the driver can compare them. `owned_forms` / `view_forms` call the five forms of the property
//! (`predict_inplace` into `default_target`, `predict(&records)`, `predict(records)`,
//! `predict(&dataset)`, `predict(dataset)`) through linfa's blanket impls.

use linfa::dataset::{AsTargets, DatasetBase, Pr};
use linfa::traits::{Predict, PredictInplace};
use ndarray::{Array1, Array2, ArrayBase, ArrayView2, Data, Ix2};
use std::marker::PhantomData;

#[derive(Clone, Debug, PartialEq)]
pub struct Out {
    pub cols: usize,
    pub rows: Vec<Vec<f64>>,
}

impl Out {
    pub fn nrows(&self) -> usize {
        self.rows.len()
    }
    pub fn all_finite(&self) -> bool {
        self.rows.iter().flatten().all(|v| v.is_finite())
    }
}

pub trait ToOut {
    fn to_out(&self) -> Out;
}

impl ToOut for Array1<f64> {
    fn to_out(&self) -> Out {
        Out { cols: 1, rows: self.iter().map(|v| vec![*v]).collect() }
    }
}
impl ToOut for Array1<usize> {
    fn to_out(&self) -> Out {
        Out { cols: 1, rows: self.iter().map(|v| vec![*v as f64]).collect() }
    }
}
impl ToOut for Array1<bool> {
    fn to_out(&self) -> Out {
        Out { cols: 1, rows: self.iter().map(|v| vec![if *v { 1.0 } else { 0.0 }]).collect() }
    }
}
impl ToOut for Array1<Pr> {
    fn to_out(&self) -> Out {
        Out { cols: 1, rows: self.iter().map(|v| vec![**v as f64]).collect() }
    }
}
impl ToOut for Array2<f64> {
    fn to_out(&self) -> Out {
        Out { cols: self.ncols(), rows: self.rows().into_iter().map(|r| r.to_vec()).collect() }
    }
}

/// Results of the five calling forms on one and the same records array.
pub struct Forms {
    pub inplace: Out,
    pub by_ref: Out,
    pub by_val: Out,
    pub ds_ref: Out,
    pub ds_val: Out,
    /// `predict(records)` handed the records back with identical shape, strides and bits
    pub by_val_records_same: bool,
    /// `predict(dataset)` handed the records back with identical shape, strides and bits
    pub ds_val_records_same: bool,
}

impl Forms {
    pub fn named(&self) -> [(&'static str, &Out); 5] {
        [
            ("predict_inplace(default_target)", &self.inplace),
            ("predict(&records)", &self.by_ref),
            ("predict(records)", &self.by_val),
            ("predict(&dataset)", &self.ds_ref),
            ("predict(dataset)", &self.ds_val),
        ]
    }
}

fn same_array<S1: Data<Elem = f64>, S2: Data<Elem = f64>>(a: &ArrayBase<S1, Ix2>, b: &ArrayBase<S2, Ix2>) -> bool {
    a.shape() == b.shape()
        && a.strides() == b.strides()
        && a.iter().zip(b.iter()).all(|(x, y)| x.to_bits() == y.to_bits())
}

/// the five forms on an owned array (any memory layout)
pub fn owned_forms<M, T>(m: &M, x: &Array2<f64>) -> Forms
where
    M: PredictInplace<Array2<f64>, T>,
    T: ToOut + AsTargets,
{
    let rows = x.nrows();
    let mut t = m.default_target(x);
    m.predict_inplace(x, &mut t);
    let inplace = t.to_out();
    let by_ref = <M as Predict<&Array2<f64>, T>>::predict(m, x).to_out();
    let d = <M as Predict<Array2<f64>, DatasetBase<Array2<f64>, T>>>::predict(m, x.clone());
    let by_val_records_same = same_array(&d.records, x);
    let by_val = d.targets.to_out();
    let ds = DatasetBase::new(x.clone(), Array1::<usize>::zeros(rows));
    let ds_ref = <M as Predict<&DatasetBase<Array2<f64>, Array1<usize>>, T>>::predict(m, &ds).to_out();
    let d2 = <M as Predict<DatasetBase<Array2<f64>, Array1<usize>>, DatasetBase<Array2<f64>, T>>>::predict(m, ds);
    let ds_val_records_same = same_array(&d2.records, x);
    let ds_val = d2.targets.to_out();
    Forms { inplace, by_ref, by_val, ds_ref, ds_val, by_val_records_same, ds_val_records_same }
}

/// the five forms on a borrowed view (any memory layout)
pub fn view_forms<'v, M, T>(m: &M, x: ArrayView2<'v, f64>) -> Forms
where
    M: PredictInplace<ArrayView2<'v, f64>, T>,
    T: ToOut + AsTargets,
{
    let rows = x.nrows();
    let mut t = m.default_target(&x);
    m.predict_inplace(&x, &mut t);
    let inplace = t.to_out();
    let by_ref = <M as Predict<&ArrayView2<'v, f64>, T>>::predict(m, &x).to_out();
    let d = <M as Predict<ArrayView2<'v, f64>, DatasetBase<ArrayView2<'v, f64>, T>>>::predict(m, x);
    let by_val_records_same = same_array(&d.records, &x);
    let by_val = d.targets.to_out();
    let ds = DatasetBase::new(x, Array1::<usize>::zeros(rows));
    let ds_ref = <M as Predict<&DatasetBase<ArrayView2<'v, f64>, Array1<usize>>, T>>::predict(m, &ds).to_out();
    let d2 =
        <M as Predict<DatasetBase<ArrayView2<'v, f64>, Array1<usize>>, DatasetBase<ArrayView2<'v, f64>, T>>>::predict(m, ds);
    let ds_val_records_same = same_array(&d2.records, &x);
    let ds_val = d2.targets.to_out();
    Forms { inplace, by_ref, by_val, ds_ref, ds_val, by_val_records_same, ds_val_records_same }
}

/// What the driver needs from a fitted model.
pub trait Pred {
    /// all five forms on an owned array of arbitrary memory layout
    fn forms_owned(&self, x: &Array2<f64>) -> Forms;
    /// all five forms on a borrowed view; `None` when the model accepts owned arrays only
    fn forms_view(&self, x: ArrayView2<'_, f64>) -> Option<Forms>;
    /// `predict(&x)` alone
    fn one(&self, x: &Array2<f64>) -> Out;
}

/// Shape 1: models implementing `PredictInplace<ArrayBase<D, Ix2>, T>` for every storage `D`.
pub struct AnyLayout<'m, M, T>(pub &'m M, pub PhantomData<T>);

pub fn any_layout<M, T>(m: &M) -> AnyLayout<'_, M, T> {
    AnyLayout(m, PhantomData)
}

impl<'m, M, T> Pred for AnyLayout<'m, M, T>
where
    T: ToOut + AsTargets,
    M: PredictInplace<Array2<f64>, T> + for<'v> PredictInplace<ArrayView2<'v, f64>, T>,
{
    fn forms_owned(&self, x: &Array2<f64>) -> Forms {
        owned_forms::<M, T>(self.0, x)
    }
    fn forms_view(&self, x: ArrayView2<'_, f64>) -> Option<Forms> {
        Some(view_forms::<M, T>(self.0, x))
    }
    fn one(&self, x: &Array2<f64>) -> Out {
        <M as Predict<&Array2<f64>, T>>::predict(self.0, x).to_out()
    }
}

/// Shape 2: models usable with owned `Array2` records only (Platt around an owned-only inner model,
/// wrappers instantiated for `Array2`).
pub struct OwnedOnly<'m, M, T>(pub &'m M, pub PhantomData<T>);

pub fn owned_only<M, T>(m: &M) -> OwnedOnly<'_, M, T> {
    OwnedOnly(m, PhantomData)
}

impl<'m, M, T> Pred for OwnedOnly<'m, M, T>
where
    T: ToOut + AsTargets,
    M: PredictInplace<Array2<f64>, T>,
{
    fn forms_owned(&self, x: &Array2<f64>) -> Forms {
        owned_forms::<M, T>(self.0, x)
    }
    fn forms_view(&self, _x: ArrayView2<'_, f64>) -> Option<Forms> {
        None
    }
    fn one(&self, x: &Array2<f64>) -> Out {
        <M as Predict<&Array2<f64>, T>>::predict(self.0, x).to_out()
    }
}
