//! Adapters: logistic regression (binary / multinomial), decision tree, Gaussian and multinomial
//! naive Bayes, FTRL.

use crate::case::{self, Case};
use crate::driver::{self, Spec, REL_TOL_F32};
use crate::forms::any_layout;
use crate::util::{abs_dot, all_finite, dot, fit_or_skip, fit_with_deadline, usable};
use linfa::dataset::Pr;
use linfa::prelude::*;
use linfa_bayes::{GaussianNb, MultinomialNb};
use linfa_ftrl::Ftrl;
use linfa_logistic::{LogisticRegression, MultiLogisticRegression};
use linfa_trees::{DecisionTree, SplitQuality, TreeNode};
use ndarray::Array1;
use rand_xoshiro::rand_core::SeedableRng;
use rand_xoshiro::Xoshiro256Plus;
use vengine::Obs;

/// score ties narrower than this (relative to the score magnitudes) may be broken either way
const TIE_REL: f64 = 1e-9;

fn sigmoid(z: f64) -> f64 {
    if z >= 0.0 {
        1.0 / (1.0 + (-z).exp())
    } else {
        let e = z.exp();
        e / (1.0 + e)
    }
}

pub fn check_logistic(c: &Case, obs: &mut Obs) {
    if !usable(c, obs) {
        return;
    }
    // labels 3 / 8 (not 0 / 1) so that a label mix-up is visible
    let y = Array1::from(case::rank_labels(c, 2).into_iter().map(|l| if l == 1 { 8usize } else { 3usize }).collect::<Vec<_>>());
    let alpha = [1.0, 0.1][c.opt(0, 2) as usize];
    let intercept = c.opt(1, 3) != 0;
    let threshold = [0.5, 0.3, 0.7][c.opt(2, 3) as usize];
    obs.class(if threshold == 0.5 { "logistic_threshold_default" } else { "logistic_threshold_custom" });
    let ds = Dataset::new(case::train_x(c), y);
    let Some(model) = fit_with_deadline(obs, move || {
        LogisticRegression::default().alpha(alpha).with_intercept(intercept).max_iterations(60).fit(&ds)
    }) else {
        return;
    };
    let model = model.set_threshold(threshold);
    let w = model.params().to_vec();
    let b = model.intercept();
    if !all_finite(w.iter().chain([&b])) {
        obs.skip("skipped_nonfinite_parameters");
        return;
    }
    let (pos, neg) = (model.labels().pos.class as f64, model.labels().neg.class as f64);
    let near_threshold = |x: &[f64]| (sigmoid(dot(x, &w) + b) - threshold).abs() <= TIE_REL * (1.0 + abs_dot(x, &w) + b.abs());
    let spec = Spec::labels(|x, _a, _b| near_threshold(x));
    let pred = any_layout::<_, Array1<usize>>(&model);
    if let Some(info) = driver::run(obs, c, &pred, &spec) {
        for (i, x) in info.rows.iter().enumerate() {
            let want = if sigmoid(dot(x, &w) + b) >= threshold { pos } else { neg };
            let got = info.single[i][0];
            obs.class_if(got == pos, "logistic_predicts_positive");
            obs.class_if(got == neg, "logistic_predicts_negative");
            obs.ensure(got == want || near_threshold(x), "reference:label", || {
                format!("logistic regression labels {x:?} as {got}; sigmoid(params·x + intercept) against threshold {threshold} gives {want}")
            });
        }
    }
}

pub fn check_multilogistic(c: &Case, obs: &mut Obs) {
    if !usable(c, obs) {
        return;
    }
    let k = 3 + c.opt(0, 2) as usize;
    obs.class(if k == 3 { "multilogistic_3_classes" } else { "multilogistic_4_classes" });
    // labels 10, 20, ... so that class index and label differ
    let y = Array1::from(case::rank_labels(c, k).into_iter().map(|l| 10 * (l + 1)).collect::<Vec<_>>());
    let alpha = [1.0, 0.1][c.opt(1, 2) as usize];
    let ds = Dataset::new(case::train_x(c), y);
    let Some(model) = fit_with_deadline(obs, move || MultiLogisticRegression::default().alpha(alpha).max_iterations(60).fit(&ds)) else {
        return;
    };
    let w = model.params().clone(); // p x k
    let b = model.intercept().to_vec();
    let classes: Vec<f64> = model.classes().iter().map(|c| *c as f64).collect();
    if !all_finite(w.iter().chain(b.iter())) || w.ncols() != classes.len() || b.len() != classes.len() || w.nrows() != c.p() {
        obs.skip("skipped_nonfinite_parameters");
        return;
    }
    let logits = |x: &[f64]| -> Vec<(f64, f64)> {
        (0..classes.len())
            .map(|j| {
                let col: Vec<f64> = (0..x.len()).map(|i| w[(i, j)]).collect();
                (dot(x, &col) + b[j], abs_dot(x, &col) + b[j].abs())
            })
            .collect()
    };
    let tie = |x: &[f64], la: f64, lb: f64| {
        let l = logits(x);
        let (Some(ia), Some(ib)) = (classes.iter().position(|c| *c == la), classes.iter().position(|c| *c == lb)) else {
            return false;
        };
        (l[ia].0 - l[ib].0).abs() <= TIE_REL * (1.0 + l[ia].1 + l[ib].1)
    };
    let spec = Spec::labels(tie);
    let pred = any_layout::<_, Array1<usize>>(&model);
    if let Some(info) = driver::run(obs, c, &pred, &spec) {
        for (i, x) in info.rows.iter().enumerate() {
            let l = logits(x);
            let best = l.iter().map(|v| v.0).fold(f64::NEG_INFINITY, f64::max);
            let got = info.single[i][0];
            let ok = classes
                .iter()
                .position(|c| *c == got)
                .map(|j| l[j].0 >= best - TIE_REL * (1.0 + l[j].1 + best.abs()))
                .unwrap_or(false);
            obs.ensure(ok, "reference:label", || {
                format!("multinomial logistic regression labels {x:?} as {got}; classes {classes:?} have logits {:?}", l.iter().map(|v| v.0).collect::<Vec<_>>())
            });
        }
    }
}

fn tree_walk(node: &TreeNode<f64, usize>, x: &[f64], fuel: usize) -> Option<usize> {
    if node.is_leaf() {
        return node.prediction();
    }
    if fuel == 0 {
        return None;
    }
    let (f, split, _) = node.split();
    let ch = node.children();
    let next = if *x.get(f)? < split { ch.first()? } else { ch.get(1)? };
    tree_walk(next.as_ref()?.as_ref(), x, fuel - 1)
}

pub fn check_tree(c: &Case, obs: &mut Obs) {
    if !usable(c, obs) {
        return;
    }
    let k = 2 + c.opt(0, 2) as usize;
    let depth = [None, Some(2), Some(4)][c.opt(1, 3) as usize];
    let quality = if c.opt(2, 2) == 0 { SplitQuality::Gini } else { SplitQuality::Entropy };
    let y = Array1::from(case::rank_labels(c, k).into_iter().map(|l| l + 5).collect::<Vec<_>>());
    let ds = Dataset::new(case::train_x(c), y);
    let Some(model) =
        fit_or_skip(obs, || DecisionTree::<f64, usize>::params().max_depth(depth).split_quality(quality).fit(&ds))
    else {
        return;
    };
    let used: std::collections::BTreeSet<usize> = model.features().into_iter().collect();
    obs.class_if(used.iter().any(|f| *f > 0), "tree_splits_on_later_feature");
    obs.class_if(model.num_leaves() >= 3, "tree_3plus_leaves");
    obs.class_if(model.num_leaves() == 1, "tree_single_leaf");
    let spec = Spec::strict(true);
    let pred = any_layout::<_, Array1<usize>>(&model);
    if let Some(info) = driver::run(obs, c, &pred, &spec) {
        for (i, x) in info.rows.iter().enumerate() {
            let want = tree_walk(model.root_node(), x, 64);
            let got = info.single[i][0];
            obs.ensure(want.map(|w| w as f64 == got).unwrap_or(true), "reference:tree-walk", || {
                format!("the tree labels {x:?} as {got}; following its public nodes gives {want:?}")
            });
        }
    }
}

/// class-conditional statistics recomputed from the training data (labels are 0..k)
fn gnb_scores(train: &[Vec<f64>], lab: &[usize], k: usize, smoothing: f64, x: &[f64]) -> Vec<f64> {
    let n = train.len() as f64;
    let p = x.len();
    let var = |rows: &[&Vec<f64>], j: usize| -> (f64, f64) {
        let m = rows.iter().map(|r| r[j]).sum::<f64>() / rows.len() as f64;
        (m, rows.iter().map(|r| (r[j] - m) * (r[j] - m)).sum::<f64>() / rows.len() as f64)
    };
    let all: Vec<&Vec<f64>> = train.iter().collect();
    let eps = smoothing * (0..p).map(|j| var(&all, j).1).fold(0.0, f64::max);
    (0..k)
        .map(|cl| {
            let rows: Vec<&Vec<f64>> = train.iter().zip(lab).filter(|(_, l)| **l == cl).map(|(r, _)| r).collect();
            if rows.is_empty() {
                return f64::NEG_INFINITY;
            }
            let mut s = (rows.len() as f64 / n).ln();
            for j in 0..p {
                let (m, v) = var(&rows, j);
                let v = v + eps;
                s += -0.5 * (2.0 * std::f64::consts::PI * v).ln() - 0.5 * (x[j] - m) * (x[j] - m) / v;
            }
            s
        })
        .collect()
}

fn mnb_scores(train: &[Vec<f64>], lab: &[usize], k: usize, alpha: f64, x: &[f64]) -> Vec<f64> {
    let n = train.len() as f64;
    let p = x.len();
    (0..k)
        .map(|cl| {
            let rows: Vec<&Vec<f64>> = train.iter().zip(lab).filter(|(_, l)| **l == cl).map(|(r, _)| r).collect();
            if rows.is_empty() {
                return f64::NEG_INFINITY;
            }
            let cnt: Vec<f64> = (0..p).map(|j| rows.iter().map(|r| r[j]).sum::<f64>() + alpha).collect();
            let tot: f64 = cnt.iter().sum();
            (rows.len() as f64 / n).ln() + (0..p).map(|j| x[j] * (cnt[j].ln() - tot.ln())).sum::<f64>()
        })
        .collect()
}

fn score_tie(s: &[f64], a: f64, b: f64) -> bool {
    match (s.get(a as usize), s.get(b as usize)) {
        (Some(x), Some(y)) => x == y || (x - y).abs() <= TIE_REL * (1.0 + x.abs() + y.abs()),
        _ => false,
    }
}

fn is_argmax(s: &[f64], got: f64) -> bool {
    let best = s.iter().cloned().fold(f64::NEG_INFINITY, f64::max);
    s.get(got as usize).map(|v| *v >= best - TIE_REL * (1.0 + v.abs() + best.abs())).unwrap_or(false)
}

/// Training set of the naive-Bayes sub-checks: as generated, or (option 2 = 3 mod 4) the generated rows repeated once
/// per class so that every class has identical statistics and prior (exact posterior ties on every query).
fn tied_classes(c: &Case, k: usize, lab: Vec<usize>, obs: &mut Obs) -> (Vec<Vec<f64>>, Vec<usize>) {
    if c.opt(2, 4) != 3 {
        return (c.train.clone(), lab);
    }
    obs.class("nb_all_classes_identical_exact_ties");
    let mut train = vec![];
    let mut labels = vec![];
    for class in 0..k {
        for r in &c.train {
            train.push(r.clone());
            labels.push(class);
        }
    }
    (train, labels)
}

pub fn check_gaussian_nb(c: &Case, obs: &mut Obs) {
    if !usable(c, obs) {
        return;
    }
    let k = 2 + c.opt(0, 2) as usize;
    let smoothing = [1e-9, 1e-3][c.opt(1, 2) as usize];
    let lab = case::rank_labels(c, k);
    // one case in four: every class gets the SAME rows (the training set repeated once per class), so that all class
    // statistics and priors coincide and every query is an exact posterior tie between all classes
    let (train, lab) = tied_classes(c, k, lab, obs);
    let ds = Dataset::new(case::to_array(&train, c.p()), Array1::from(lab.clone()));
    let Some(model) = fit_or_skip(obs, || GaussianNb::<f64, usize>::params().var_smoothing(smoothing).fit(&ds)) else {
        return;
    };
    obs.class(if k == 2 { "gnb_2_classes" } else { "gnb_3_classes" });
    let scores = |x: &[f64]| gnb_scores(&train, &lab, k, smoothing, x);
    // a class without spread in some feature (variance + smoothing = 0) makes the likelihood NaN:
    // not a well-posed training set (only reachable through shrinking)
    if !scores(&train[0]).iter().all(|v| v.is_finite()) {
        obs.skip("skipped_degenerate_training_data");
        return;
    }
    let spec = Spec::labels(|x, a, b| score_tie(&scores(x), a, b));
    let pred = any_layout::<_, Array1<usize>>(&model);
    if let Some(info) = driver::run(obs, c, &pred, &spec) {
        for (i, x) in info.rows.iter().enumerate() {
            let s = scores(x);
            if !s.iter().all(|v| v.is_finite()) {
                obs.class("nb_degenerate_class_statistics");
                continue;
            }
            let got = info.single[i][0];
            obs.ensure(is_argmax(&s, got), "reference:not-max-posterior", || {
                format!("Gaussian naive Bayes labels {x:?} as {got}; recomputed joint log-likelihoods {s:?}")
            });
        }
    }
}

pub fn check_multinomial_nb(c: &Case, obs: &mut Obs) {
    if !usable(c, obs) {
        return;
    }
    if c.train.iter().chain(c.fresh.iter()).flatten().any(|v| *v < 0.0) {
        obs.skip("skipped_malformed_case");
        return;
    }
    let k = 2 + c.opt(0, 2) as usize;
    let alpha = [1.0, 0.5][c.opt(1, 2) as usize];
    let lab = case::rank_labels(c, k);
    let (train, lab) = tied_classes(c, k, lab, obs);
    let ds = Dataset::new(case::to_array(&train, c.p()), Array1::from(lab.clone()));
    let Some(model) = fit_or_skip(obs, || MultinomialNb::<f64, usize>::params().alpha(alpha).fit(&ds)) else {
        return;
    };
    obs.class(if k == 2 { "mnb_2_classes" } else { "mnb_3_classes" });
    let scores = |x: &[f64]| mnb_scores(&train, &lab, k, alpha, x);
    let spec = Spec::labels(|x, a, b| score_tie(&scores(x), a, b));
    let pred = any_layout::<_, Array1<usize>>(&model);
    if let Some(info) = driver::run(obs, c, &pred, &spec) {
        for (i, x) in info.rows.iter().enumerate() {
            let s = scores(x);
            if !s.iter().all(|v| v.is_finite()) {
                obs.class("nb_degenerate_class_statistics");
                continue;
            }
            let got = info.single[i][0];
            let mut sorted = s.clone();
            sorted.sort_by(|a, b| b.partial_cmp(a).unwrap_or(std::cmp::Ordering::Equal));
            obs.class_if(sorted.len() >= 2 && sorted[0] == sorted[1], "mnb_exact_posterior_tie");
            obs.ensure(is_argmax(&s, got), "reference:not-max-posterior", || {
                format!("multinomial naive Bayes labels {x:?} as {got}; recomputed joint log-likelihoods {s:?}")
            });
        }
    }
}

pub fn check_ftrl(c: &Case, obs: &mut Obs) {
    if !usable(c, obs) {
        return;
    }
    let ds = Dataset::new(case::train_x(c), case::bool_labels(c));
    let rng = Xoshiro256Plus::seed_from_u64(c.seed);
    let l1 = [0.0, 0.05, 0.5][c.opt(0, 3) as usize];
    let passes = 1 + c.opt(1, 3) as usize;
    let params = Ftrl::<f64>::params_with_rng(rng).alpha(0.5).beta(1.0).l1_ratio(l1).l2_ratio(0.1);
    let Some(model) = fit_or_skip(obs, || {
        let mut m = params.fit_with(None, &ds)?;
        for _ in 1..passes {
            m = params.fit_with(Some(m), &ds)?;
        }
        Ok::<_, linfa_ftrl::FtrlError>(m)
    }) else {
        return;
    };
    let w = model.get_weights().to_vec();
    if !all_finite(w.iter()) {
        obs.skip("skipped_nonfinite_parameters");
        return;
    }
    obs.class_if(w.iter().any(|v| *v == 0.0), "ftrl_sparse_weights");
    obs.class_if(w.iter().all(|v| *v != 0.0), "ftrl_dense_weights");
    // probabilities are rounded to f32 after an f64 matrix-vector product
    let spec = Spec::matvec(|_| 0.0).with_rel(REL_TOL_F32);
    let pred = any_layout::<_, Array1<Pr>>(&model);
    if let Some(info) = driver::run(obs, c, &pred, &spec) {
        for (i, x) in info.rows.iter().enumerate() {
            let want = sigmoid(dot(x, &w).clamp(-35.0, 35.0));
            let got = info.single[i][0];
            obs.ensure((0.0..=1.0).contains(&got), "output:probability-range", || format!("FTRL returned probability {got}"));
            obs.ensure((got - want).abs() <= 1e-6, "reference:value", || {
                format!("FTRL predicts {got} for {x:?}; sigmoid(weights·x) = {want}")
            });
        }
    }
}
