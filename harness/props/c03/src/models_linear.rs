//! Adapters: ordinary least squares, isotonic regression, Tweedie GLM, elastic net (single / multi-task).

use crate::case::{self, Case};
use crate::driver::{self, Spec};
use crate::forms::any_layout;
use crate::util::{abs_dot, all_finite, dot, fit_or_skip, fit_with_deadline, ref_close, usable};
use linfa::prelude::*;
use linfa_elasticnet::{ElasticNet, MultiTaskElasticNet};
use linfa_linear::{IsotonicRegression, LinearRegression, Link, TweedieRegressor};
use ndarray::{Array1, Array2};
use vengine::Obs;

pub fn check_ols(c: &Case, obs: &mut Obs) {
    if !usable(c, obs) {
        return;
    }
    let intercept = c.opt(0, 2) == 0;
    obs.class(if intercept { "ols_with_intercept" } else { "ols_without_intercept" });
    let ds = Dataset::new(case::train_x(c), case::reg_y(c, 0));
    let Some(model) = fit_or_skip(obs, || LinearRegression::new().with_intercept(intercept).fit(&ds)) else { return };
    let w = model.params().to_vec();
    let b = model.intercept();
    if !all_finite(w.iter().chain([&b])) {
        obs.skip("skipped_nonfinite_parameters");
        return;
    }
    let spec = Spec::matvec(|x| abs_dot(x, &w) + b.abs());
    let pred = any_layout::<_, Array1<f64>>(&model);
    if let Some(info) = driver::run(obs, c, &pred, &spec) {
        for (i, x) in info.rows.iter().enumerate() {
            let want = dot(x, &w) + b;
            obs.ensure(ref_close(info.single[i][0], want, abs_dot(x, &w) + b.abs()), "reference:value", || {
                format!("OLS predicts {:e} for {x:?}; params·x + intercept = {want:e}", info.single[i][0])
            });
        }
    }
}

pub fn check_isotonic(c: &Case, obs: &mut Obs) {
    if !usable(c, obs) {
        return;
    }
    if c.p() != 1 {
        obs.skip("skipped_malformed_case");
        return;
    }
    // monotone trend plus noise, increasing or decreasing
    let sign = if c.opt(0, 2) == 0 { 1.0 } else { -1.0 };
    obs.class(if sign > 0.0 { "isotonic_increasing" } else { "isotonic_decreasing" });
    let y = Array1::from_shape_fn(c.n(), |i| sign * c.train[i][0] + 0.5 * c.noise[i]);
    let ds = Dataset::new(case::train_x(c), y);
    let Some(model) = fit_or_skip(obs, || IsotonicRegression::new().fit(&ds)) else { return };
    let lo = c.train.iter().map(|r| r[0]).fold(f64::INFINITY, f64::min);
    let hi = c.train.iter().map(|r| r[0]).fold(f64::NEG_INFINITY, f64::max);
    let q = case::query(c);
    obs.class_if(q.rows.iter().any(|r| r[0] < lo), "isotonic_query_below_range");
    obs.class_if(q.rows.iter().any(|r| r[0] > hi), "isotonic_query_above_range");
    obs.class_if(q.rows.iter().any(|r| r[0] > lo && r[0] < hi), "isotonic_query_interpolated");
    let spec = Spec::strict(false);
    let pred = any_layout::<_, Array1<f64>>(&model);
    driver::run(obs, c, &pred, &spec);
}

pub fn check_tweedie(c: &Case, obs: &mut Obs) {
    if !usable(c, obs) {
        return;
    }
    // valid (power, link) pairs
    let (power, link, cls, y): (f64, Link, &'static str, Array1<f64>) = match c.opt(0, 7) {
        0 => (0.0, Link::Identity, "tweedie_normal_identity", case::reg_y(c, 0)),
        1 => (0.0, Link::Log, "tweedie_normal_log", case::pos_y(c)),
        2 => (1.0, Link::Log, "tweedie_poisson_log", case::pos_y(c)),
        3 => (1.5, Link::Log, "tweedie_compound_log", case::pos_y(c)),
        4 => (2.0, Link::Log, "tweedie_gamma_log", case::pos_y(c)),
        5 => (3.0, Link::Log, "tweedie_invgauss_log", case::pos_y(c)),
        _ => (0.0, Link::Logit, "tweedie_normal_logit", case::pos_y(c).mapv(|v| v / (1.0 + v))),
    };
    obs.class(cls);
    let intercept = c.opt(1, 3) != 0;
    let alpha = [0.0, 0.1, 1.0][c.opt(2, 3) as usize];
    let ds = Dataset::new(case::train_x(c), y);
    let Some(model) = fit_with_deadline(obs, move || {
        TweedieRegressor::params().power(power).link(link).alpha(alpha).fit_intercept(intercept).max_iter(60).fit(&ds)
    }) else {
        return;
    };
    let w = model.coef.to_vec();
    let b = model.intercept;
    if !all_finite(w.iter().chain([&b])) {
        obs.skip("skipped_nonfinite_parameters");
        return;
    }
    // d/d(eta) of exp / sigmoid amplifies a perturbation of eta by at most |output|: relative tolerance covers it
    let spec = Spec::matvec(|x| abs_dot(x, &w) + b.abs());
    let pred = any_layout::<_, Array1<f64>>(&model);
    if let Some(info) = driver::run(obs, c, &pred, &spec) {
        for (i, x) in info.rows.iter().enumerate() {
            let eta = dot(x, &w) + b;
            let want = match link {
                Link::Identity => eta,
                Link::Log => eta.exp(),
                Link::Logit => 1.0 / (1.0 + (-eta).exp()),
            };
            let got = info.single[i][0];
            let s = (abs_dot(x, &w) + b.abs()) * (1.0 + want.abs());
            obs.ensure(ref_close(got, want, s), "reference:value", || {
                format!("GLM predicts {got:e} for {x:?}; inverse link of coef·x + intercept = {want:e}")
            });
        }
    }
}

pub fn check_elasticnet(c: &Case, obs: &mut Obs) {
    if !usable(c, obs) {
        return;
    }
    let l1 = [0.0, 0.5, 1.0][c.opt(0, 3) as usize];
    let penalty = [0.01, 0.3][c.opt(1, 2) as usize];
    let intercept = c.opt(2, 3) != 0;
    obs.class(match c.opt(0, 3) {
        0 => "enet_ridge",
        1 => "enet_mixed",
        _ => "enet_lasso",
    });
    let ds = Dataset::new(case::train_x(c), case::reg_y(c, 0));
    let Some(model) =
        fit_or_skip(obs, || ElasticNet::params().l1_ratio(l1).penalty(penalty).with_intercept(intercept).fit(&ds))
    else {
        return;
    };
    let w = model.hyperplane().to_vec();
    let b = model.intercept();
    if !all_finite(w.iter().chain([&b])) {
        obs.skip("skipped_nonfinite_parameters");
        return;
    }
    obs.class_if(w.iter().any(|v| *v == 0.0), "enet_sparse_solution");
    let spec = Spec::matvec(|x| abs_dot(x, &w) + b.abs());
    let pred = any_layout::<_, Array1<f64>>(&model);
    if let Some(info) = driver::run(obs, c, &pred, &spec) {
        for (i, x) in info.rows.iter().enumerate() {
            let want = dot(x, &w) + b;
            obs.ensure(ref_close(info.single[i][0], want, abs_dot(x, &w) + b.abs()), "reference:value", || {
                format!("elastic net predicts {:e} for {x:?}; hyperplane·x + intercept = {want:e}", info.single[i][0])
            });
        }
    }
}

pub fn check_mt_elasticnet(c: &Case, obs: &mut Obs) {
    if !usable(c, obs) {
        return;
    }
    let q = 2 + c.opt(0, 2) as usize;
    let l1 = [0.0, 0.5, 1.0][c.opt(1, 3) as usize];
    let intercept = c.opt(2, 3) != 0;
    obs.class(if q == 2 { "mtenet_2_tasks" } else { "mtenet_3_tasks" });
    let ds = Dataset::new(case::train_x(c), case::reg_y2(c, q));
    let Some(model) =
        fit_or_skip(obs, || MultiTaskElasticNet::params().l1_ratio(l1).penalty(0.05).with_intercept(intercept).fit(&ds))
    else {
        return;
    };
    let w = model.hyperplane().clone(); // p x q
    let b = model.intercept().to_vec();
    if !all_finite(w.iter().chain(b.iter())) || w.dim() != (c.p(), q) || b.len() != q {
        obs.skip("skipped_nonfinite_parameters");
        return;
    }
    let wmax = w.iter().fold(0.0f64, |a, v| a.max(v.abs()));
    let bmax = b.iter().fold(0.0f64, |a, v| a.max(v.abs()));
    let spec = Spec::matmat(|x| x.iter().map(|v| v.abs()).sum::<f64>() * wmax + bmax);
    let pred = any_layout::<_, Array2<f64>>(&model);
    if let Some(info) = driver::run(obs, c, &pred, &spec) {
        for (i, x) in info.rows.iter().enumerate() {
            obs.ensure(info.single[i].len() == q, "output:width", || {
                format!("multi-task elastic net with {q} tasks returned {} columns", info.single[i].len())
            });
            for j in 0..q.min(info.single[i].len()) {
                let col: Vec<f64> = (0..c.p()).map(|k| w[(k, j)]).collect();
                let want = dot(x, &col) + b[j];
                obs.ensure(ref_close(info.single[i][j], want, abs_dot(x, &col) + b[j].abs()), "reference:value", || {
                    format!("multi-task elastic net predicts {:e} (task {j}) for {x:?}; reference {want:e}", info.single[i][j])
                });
            }
        }
    }
}
