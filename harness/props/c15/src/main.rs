fn main() {
    vengine::main(c15::property())
}
