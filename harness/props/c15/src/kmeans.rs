//! Mini-batch k-means: every `fit_with` applies the documented recurrence to the previous state.
//!
//! Reference for one batch: assign every row to the nearest of the *pre-batch* centroids; then, in
//! row order, `count_c += 1; centroid_c += (x - centroid_c) / count_c`. The state (centroids,
//! cumulative counts) is public, so every step is checked from the state linfa reported before it.

use linfa::traits::{FitWith, Predict};
use linfa::{DatasetBase, ParamGuard};
use linfa_clustering::{IncrKMeansError, KMeans, KMeansInit};
use linfa_nn::distance::{Distance, L1Dist, L2Dist, LInfDist};
use ndarray::Array2;
use proptest::prelude::*;
use rand_xoshiro::rand_core::SeedableRng;
use rand_xoshiro::Xoshiro256Plus;
use serde::{Deserialize, Serialize};
use serde_json::json;
use vengine::gen::{gauss, small_int_f64};
use vengine::{Obs, Tier};

use crate::layout::{self, Laid, Layout};

/// centroids: |Δ| <= TOL_CENTROID * (largest magnitude among batch rows and centroids)
pub const TOL_CENTROID: f64 = 1e-12;
/// two centroids count as equally near when their reduced distances differ by <= TOL_TIE * (1 + scale^q),
/// q = 2 for L2 (reduced distance = squared distance), q = 1 for L1 / LInf (reduced distance = distance)
pub const TOL_TIE: f64 = 1e-12;
/// inertia: relative 1e-10 plus TOL_TIE * scale^2
pub const TOL_INERTIA: f64 = 1e-10;
/// the converged flag is not judged when |dist - tolerance| <= TOL_FLAG * max(dist, tolerance)
pub const TOL_FLAG: f64 = 1e-9;
/// seeded initialisation: all possible initial centroid tuples are enumerated up to this many
pub const ENUM_CAP: usize = 3000;

/// on both sides of 1, so that centroid shifts land between tol and tol^2
pub const TOLERANCES: [f64; 5] = [1e-6, 1e-2, 0.5, 2.0, 10.0];

#[derive(Debug, Clone, Copy, PartialEq, Eq, Serialize, Deserialize, Default)]
pub enum Metric {
    L1,
    #[default]
    L2,
    LInf,
}

/// The harness' own definition of the three metrics (never calls linfa-nn).
impl Metric {
    /// reduced distance between two points: what assignment and inertia are defined on
    fn rdist(self, a: &[f64], b: &[f64]) -> f64 {
        match self {
            Metric::L1 => a.iter().zip(b).map(|(x, y)| (x - y).abs()).sum(),
            Metric::L2 => a.iter().zip(b).map(|(x, y)| (x - y) * (x - y)).sum(),
            Metric::LInf => a.iter().zip(b).map(|(x, y)| (x - y).abs()).fold(0.0, f64::max),
        }
    }
    /// true distance between two centroid matrices (all entries): what the tolerance is compared with
    fn matrix_dist(self, a: &[Vec<f64>], b: &[Vec<f64>]) -> f64 {
        let d = a.iter().flatten().zip(b.iter().flatten()).map(|(x, y)| (x - y).abs());
        match self {
            Metric::L1 => d.sum(),
            Metric::L2 => d.map(|v| v * v).sum::<f64>().sqrt(),
            Metric::LInf => d.fold(0.0, f64::max),
        }
    }
    /// magnitude of a reduced distance for data of magnitude `scale`
    fn rscale(self, scale: f64) -> f64 {
        match self {
            Metric::L2 => 1.0 + scale * scale,
            _ => 1.0 + scale,
        }
    }
}

/// linfa-nn distance types usable as the `dist_fn` hyper-parameter
pub trait Met: Distance<f64> + Clone + std::fmt::Debug + serde::de::DeserializeOwned + 'static {
    fn make() -> Self;
}
impl Met for L1Dist {
    fn make() -> Self {
        L1Dist
    }
}
impl Met for L2Dist {
    fn make() -> Self {
        L2Dist
    }
}
impl Met for LInfDist {
    fn make() -> Self {
        LInfDist
    }
}

#[derive(Debug, Clone, Serialize, Deserialize)]
pub enum Init {
    Precomputed(Vec<Vec<f64>>),
    Random,
    PlusPlus,
    Para,
}

#[derive(Debug, Clone, Serialize, Deserialize)]
pub struct KmCase {
    pub p: usize,
    pub k: usize,
    pub init: Init,
    pub seed: u64,
    pub n_runs: usize,
    pub tolerance: f64,
    pub batches: Vec<Vec<Vec<f64>>>,
    /// the distance function hyper-parameter (`KMeans::params_with(k, rng, dist)`)
    #[serde(default)]
    pub metric: Metric,
    /// memory layouts of the batches' record matrices (cycled; empty = row-major)
    #[serde(default)]
    pub batch_layouts: Vec<Layout>,
}

#[derive(Debug, Clone, PartialEq)]
struct State {
    centroids: Vec<Vec<f64>>,
    counts: Vec<f64>,
}

fn observe<D: Met>(m: &KMeans<f64, D>) -> State {
    State {
        centroids: m.centroids().rows().into_iter().map(|r| r.to_vec()).collect(),
        counts: m.cluster_count().to_vec(),
    }
}

fn scale_of(batch: &[Vec<f64>], cents: &[Vec<f64>]) -> f64 {
    batch.iter().chain(cents.iter()).flatten().fold(0.0f64, |m, v| m.max(v.abs()))
}

struct Replay {
    state: State,
    inertia: f64,
    /// cluster of each row
    members: Vec<usize>,
    /// a row had two (nearly) equally near centroids and `choice` did not settle it
    unresolved_tie: bool,
    /// `choice` named a centroid that is not (nearly) nearest
    bad_choice: Option<(usize, usize, Vec<f64>)>,
    had_tie: bool,
}

/// One mini-batch step from `pre`. `choice[i]` (if given) is the cluster linfa's own nearest-centroid
/// routine names for row i on the pre-batch centroids; it is only used to settle ties.
fn replay(metric: Metric, pre: &State, batch: &[Vec<f64>], choice: Option<&[usize]>) -> Replay {
    let k = pre.centroids.len();
    let scale = scale_of(batch, &pre.centroids);
    let tie_tol = TOL_TIE * metric.rscale(scale);
    let mut members = Vec::with_capacity(batch.len());
    let mut inertia = 0.0;
    let mut unresolved_tie = false;
    let mut had_tie = false;
    let mut bad_choice = None;
    for (i, row) in batch.iter().enumerate() {
        let d: Vec<f64> = pre.centroids.iter().map(|c| metric.rdist(c, row)).collect();
        let best = d.iter().cloned().fold(f64::INFINITY, f64::min);
        let tied: Vec<usize> = (0..k).filter(|c| d[*c] <= best + tie_tol).collect();
        let mut pick = tied.first().cloned().unwrap_or(0);
        if tied.len() > 1 {
            had_tie = true;
        }
        match choice.and_then(|c| c.get(i)).cloned() {
            Some(ch) => {
                if tied.contains(&ch) {
                    pick = ch;
                } else if bad_choice.is_none() {
                    bad_choice = Some((i, ch, d.clone()));
                }
            }
            None => {
                if tied.len() > 1 {
                    unresolved_tie = true;
                }
            }
        }
        inertia += d.get(pick).cloned().unwrap_or(0.0);
        members.push(pick);
    }
    inertia /= batch.len() as f64;
    let mut st = pre.clone();
    for (row, &c) in batch.iter().zip(&members) {
        st.counts[c] += 1.0;
        let cnt = st.counts[c];
        for j in 0..row.len() {
            let shift = (row[j] - st.centroids[c][j]) / cnt;
            st.centroids[c][j] += shift;
        }
    }
    Replay { state: st, inertia, members, unresolved_tie, bad_choice, had_tie }
}

fn states_match(got: &State, want: &State, scale: f64) -> Result<(), String> {
    if got.counts != want.counts {
        return Err(format!("cumulative counts {:?}, recurrence gives {:?}", got.counts, want.counts));
    }
    let tol = TOL_CENTROID * scale + 1e-300;
    for (c, (g, w)) in got.centroids.iter().zip(&want.centroids).enumerate() {
        for (j, (a, b)) in g.iter().zip(w).enumerate() {
            if !((a - b).abs() <= tol) {
                return Err(format!("centroid {c} coordinate {j} is {a}, recurrence gives {b} (tolerance {tol:e})"));
            }
        }
    }
    Ok(())
}

fn inertia_ok(metric: Metric, got: f64, want: f64, scale: f64) -> bool {
    (got - want).abs() <= TOL_INERTIA * want.abs() + TOL_TIE * metric.rscale(scale)
}

/// `Some(flag)` if the recurrence decides the converged flag, `None` on the boundary.
fn expected_flag(metric: Metric, pre: &State, post: &State, tolerance: f64) -> Option<bool> {
    let dist = metric.matrix_dist(&pre.centroids, &post.centroids);
    if (dist - tolerance).abs() <= TOL_FLAG * dist.max(tolerance) {
        None
    } else {
        Some(dist < tolerance)
    }
}

fn build_params<D: Met>(c: &KmCase) -> Option<linfa_clustering::KMeansValidParams<f64, Xoshiro256Plus, D>> {
    let init = match &c.init {
        Init::Precomputed(cs) => KMeansInit::Precomputed(Array2::from_shape_fn((c.k, c.p), |(i, j)| cs[i][j])),
        Init::Random => KMeansInit::Random,
        Init::PlusPlus => KMeansInit::KMeansPlusPlus,
        Init::Para => KMeansInit::KMeansPara,
    };
    KMeans::params_with(c.k, Xoshiro256Plus::seed_from_u64(c.seed), D::make())
        .tolerance(c.tolerance)
        .n_runs(c.n_runs)
        .init_method(init)
        .check()
        .ok()
}

/// A model holding the given centroids and zero counts, built through the public serde
/// implementation; used only to ask linfa's own `predict` how it breaks a tie.
fn model_from_state<D: Met>(st: &State, p: usize) -> Option<KMeans<f64, D>> {
    let k = st.centroids.len();
    let flat: Vec<f64> = st.centroids.iter().flatten().cloned().collect();
    let v = json!({
        "centroids": {"v": 1, "dim": [k, p], "data": flat},
        "cluster_count": {"v": 1, "dim": [k], "data": st.counts},
        "inertia": 0.0,
        "dist_fn": null
    });
    serde_json::from_value(v).ok()
}

fn to_array(batch: &[Vec<f64>], p: usize, layout: Layout) -> Laid<f64> {
    Laid::new(layout, batch.len(), p, f64::NAN, |i, j| batch[i][j])
}

fn well_formed(c: &KmCase) -> bool {
    c.p >= 1
        && c.k >= 1
        && c.n_runs >= 1
        && c.tolerance > 0.0
        && !c.batches.is_empty()
        && c.batches.iter().all(|b| !b.is_empty() && b.iter().all(|r| r.len() == c.p && r.iter().all(|v| v.is_finite())))
        && match &c.init {
            Init::Precomputed(cs) => cs.len() == c.k && cs.iter().all(|r| r.len() == c.p && r.iter().all(|v| v.is_finite())),
            Init::Random => c.batches[0].len() >= c.k,
            _ => true,
        }
}

/// Runs the whole history; returns the observed (state, inertia, converged) after every batch.
fn run_history<D: Met>(c: &KmCase, obs: &mut Obs, judge: bool) -> Option<Vec<(State, f64, bool)>> {
    let metric = c.metric;
    let params = build_params::<D>(c)?;
    let mut model: Option<KMeans<f64, D>> = None;
    let mut out = vec![];
    let mut touched = vec![0usize; c.k];
    for (bi, batch) in c.batches.iter().enumerate() {
        let laid = to_array(batch, c.p, layout::of(&c.batch_layouts, bi));
        let arr = laid.view();
        // pre-batch state as far as it is observable
        let pre: Option<State> = match (&model, &c.init) {
            (Some(m), _) => Some(observe(m)),
            (None, Init::Precomputed(cs)) => Some(State { centroids: cs.clone(), counts: vec![0.0; c.k] }),
            (None, _) => None,
        };
        // linfa's own nearest-centroid answer on the pre-batch centroids (tie breaking only)
        let choice: Option<Vec<usize>> = if judge {
            let pm = match (&model, &pre) {
                (Some(m), _) => Some(m.clone()),
                (None, Some(st)) => model_from_state::<D>(st, c.p),
                _ => None,
            };
            pm.and_then(|m| vengine::guard(|| m.predict(&arr).to_vec()).ok())
        } else {
            None
        };
        let ds = DatasetBase::from(arr);
        let _ = &laid;
        let prev = model.take();
        let res = obs.call("kmeans-fit_with", || params.fit_with(prev, &ds))?;
        let (converged, m) = match res {
            Ok(m) => (true, m),
            Err(IncrKMeansError::NotConverged(m)) => (false, m),
            Err(e) => {
                obs.fail("km:unexpected-error", format!("batch {bi}: fit_with returned {e}"));
                return None;
            }
        };
        let post = observe(&m);
        let inertia = m.inertia();
        if judge {
            obs.class_if(converged, "km_converged");
            obs.class_if(!converged, "km_not_converged");
            if post.centroids.len() != c.k || post.counts.len() != c.k || post.centroids.iter().any(|r| r.len() != c.p) {
                obs.fail("km:shape", format!("batch {bi}: centroids/counts have the wrong shape"));
                return None;
            }
            match &pre {
                Some(pre) => {
                    let scale = scale_of(batch, &pre.centroids);
                    let rp = replay(metric, pre, batch, choice.as_deref());
                    obs.class_if(rp.had_tie, "km_tie_between_centroids");
                    if let Some((row, ch, d)) = &rp.bad_choice {
                        obs.fail(
                            "km:predict-not-nearest",
                            format!("batch {bi} row {row}: predict on the pre-batch model names centroid {ch}, reduced distances are {:?}", d),
                        );
                    }
                    if rp.unresolved_tie {
                        obs.class("km_tie_unresolved_step_not_judged");
                    } else {
                        if let Err(e) = states_match(&post, &rp.state, scale) {
                            obs.fail("km:recurrence", format!("batch {bi} ({} rows) from state {:?}: {e}", batch.len(), pre));
                        }
                        obs.ensure(inertia_ok(metric, inertia, rp.inertia, scale), "km:inertia", || {
                            format!("batch {bi}: inertia {inertia}, mean reduced distance ({:?}) to the nearest pre-batch centroid is {}", metric, rp.inertia)
                        });
                        for (cl, t) in touched.iter_mut().enumerate() {
                            if rp.members.contains(&cl) {
                                *t += 1;
                            }
                        }
                    }
                    {
                        let shift = metric.matrix_dist(&pre.centroids, &post.centroids);
                        let (lo, hi) = (c.tolerance.min(c.tolerance * c.tolerance), c.tolerance.max(c.tolerance * c.tolerance));
                        obs.class_if(shift > lo && shift < hi, "km_shift_between_tol_and_tol_squared");
                    }
                    if let Some(flag) = expected_flag(metric, pre, &post, c.tolerance) {
                        obs.ensure(flag == converged, "km:converged-flag", || {
                            format!(
                                "batch {bi}: fit_with reported {} but the centroids moved from {:?} to {:?}, {:?} distance {} with tolerance {}",
                                if converged { "Ok (converged)" } else { "NotConverged" },
                                pre.centroids, post.centroids, metric, metric.matrix_dist(&pre.centroids, &post.centroids), c.tolerance
                            )
                        });
                    }
                }
                None => first_seeded_batch(c, batch, &post, inertia, converged, obs, &mut touched),
            }
        }
        out.push((post, inertia, converged));
        model = Some(m);
    }
    if judge {
        obs.nontrivial_if(touched.iter().any(|t| *t >= 2));
        obs.class_if(touched.iter().any(|t| *t == 0), "km_cluster_never_touched");
    }
    Some(out)
}

/// First batch under a seeded initialisation: the initial centroids are rows of the batch (Random,
/// k-means++ and k-means|| all pick input rows) but which ones is not observable. Small cases:
/// some tuple of rows must reproduce the reported model through the recurrence. Large cases:
/// necessary conditions only.
fn first_seeded_batch(c: &KmCase, batch: &[Vec<f64>], post: &State, inertia: f64, converged: bool, obs: &mut Obs, touched: &mut [usize]) {
    let n = batch.len();
    let total: f64 = post.counts.iter().sum();
    obs.ensure(
        total == n as f64 && post.counts.iter().all(|v| *v >= 0.0 && v.fract() == 0.0),
        "km:first-batch-counts",
        || format!("first batch of {n} rows: cumulative counts {:?}", post.counts),
    );
    // distinct rows
    let mut distinct: Vec<&Vec<f64>> = vec![];
    for r in batch {
        if !distinct.iter().any(|d| *d == r) {
            distinct.push(r);
        }
    }
    for (cl, cnt) in post.counts.iter().enumerate() {
        if *cnt == 0.0 {
            obs.ensure(distinct.iter().any(|d| **d == post.centroids[cl]), "km:first-batch-untouched-centroid", || {
                format!("cluster {cl} received no row but its centroid {:?} is not a row of the batch", post.centroids[cl])
            });
        }
    }
    let m = distinct.len();
    let combos = (m as f64).powi(c.k as i32);
    if combos > ENUM_CAP as f64 {
        obs.class("km_seeded_first_batch_necessary_conditions_only");
        // every touched centroid is a mean of batch rows: inside their bounding box
        for (cl, cnt) in post.counts.iter().enumerate() {
            if *cnt > 0.0 {
                for j in 0..c.p {
                    let lo = batch.iter().map(|r| r[j]).fold(f64::INFINITY, f64::min);
                    let hi = batch.iter().map(|r| r[j]).fold(f64::NEG_INFINITY, f64::max);
                    let tol = TOL_CENTROID * lo.abs().max(hi.abs()) + 1e-300;
                    let v = post.centroids[cl][j];
                    obs.ensure(v >= lo - tol && v <= hi + tol, "km:first-batch-centroid-outside-data", || {
                        format!("cluster {cl} coordinate {j}: {v} outside [{lo}, {hi}] of the only batch seen")
                    });
                }
            }
        }
        return;
    }
    obs.class("km_seeded_first_batch_enumerated");
    let total = combos as usize;
    let mut any_tie = false;
    for code in 0..total {
        let mut t = code;
        let mut cents = Vec::with_capacity(c.k);
        for _ in 0..c.k {
            cents.push(distinct[t % m].clone());
            t /= m;
        }
        let pre = State { centroids: cents, counts: vec![0.0; c.k] };
        let scale = scale_of(batch, &pre.centroids);
        // exact ties (duplicate initial centroids): lowest index, which is what a strict `<` scan yields;
        // if nothing matches and ties were involved the step is not judged
        let rp = replay(c.metric, &pre, batch, None);
        any_tie |= rp.had_tie;
        if states_match(post, &rp.state, scale).is_ok() && inertia_ok(c.metric, inertia, rp.inertia, scale) {
            let flag_ok = expected_flag(c.metric, &pre, post, c.tolerance).map(|f| f == converged).unwrap_or(true);
            if flag_ok {
                for (cl, t) in touched.iter_mut().enumerate() {
                    if rp.members.contains(&cl) {
                        *t += 1;
                    }
                }
                return;
            }
        }
    }
    if any_tie {
        obs.class("km_tie_unresolved_step_not_judged");
        return;
    }
    obs.fail(
        "km:first-batch-not-reproducible",
        format!(
            "no choice of {} initial centroids among the {m} distinct rows of the first batch leads through the recurrence to centroids {:?}, counts {:?}, inertia {inertia}, converged = {converged}",
            c.k, post.centroids, post.counts
        ),
    );
}

pub fn check(c: &KmCase, obs: &mut Obs) {
    match c.metric {
        Metric::L1 => check_with::<L1Dist>(c, obs),
        Metric::L2 => check_with::<L2Dist>(c, obs),
        Metric::LInf => check_with::<LInfDist>(c, obs),
    }
}

fn check_with<D: Met>(c: &KmCase, obs: &mut Obs) {
    if !well_formed(c) {
        obs.skip("malformed_case");
        return;
    }
    obs.class(match c.init {
        Init::Precomputed(_) => "km_init_precomputed",
        Init::Random => "km_init_random",
        Init::PlusPlus => "km_init_plusplus",
        Init::Para => "km_init_para",
    });
    obs.class(match c.metric {
        Metric::L1 => "km_metric_l1",
        Metric::L2 => "km_metric_l2",
        Metric::LInf => "km_metric_linf",
    });
    obs.class_if(c.tolerance > 1.0, "km_tolerance_above_one");
    obs.class_if(c.tolerance < 1.0, "km_tolerance_below_one");
    layout::classify(None, &c.batch_layouts, c.batches.len(), obs);
    obs.class_if(c.batches.len() == 1, "km_single_batch");
    obs.class_if(c.batches.len() >= 4, "km_four_or_more_batches");
    obs.class_if(c.k == 1, "km_k1");
    obs.class_if(c.batches.iter().any(|b| b.len() == 1), "km_one_row_batch");
    obs.class_if(c.batches.iter().any(|b| b.len() < c.k), "km_batch_smaller_than_k");
    let Some(first) = run_history::<D>(c, obs, true) else {
        if build_params::<D>(c).is_none() {
            obs.fail("km:params-rejected", "valid hyper-parameters were rejected");
        }
        return;
    };
    // the model is a function of the history alone: a second run gives the identical model
    if !matches!(c.init, Init::Para) {
        let mut quiet = Obs::default();
        if let Some(second) = run_history::<D>(c, &mut quiet, false) {
            let same = first.len() == second.len()
                && first.iter().zip(&second).all(|(a, b)| a.0 == b.0 && a.1.to_bits() == b.1.to_bits() && a.2 == b.2);
            obs.ensure(same, "km:not-a-function-of-history", || {
                "replaying the same batches with the same seed and hyper-parameters gave a different model".to_string()
            });
        } else {
            obs.fail("km:not-a-function-of-history", "second run of the same history failed");
        }
    }
}

// ------------------------------------------------------------------------------------------------
// generator

#[derive(Debug, Clone)]
struct Meta {
    p: usize,
    k: usize,
    init_kind: u8,
    data_mode: u8,
    sizes: Vec<usize>,
    seed: u64,
    n_runs: usize,
    tolerance: f64,
    metric: Metric,
    batch_layouts: Vec<Layout>,
}

pub fn strategy(_tier: Tier) -> impl Strategy<Value = KmCase> {
    let meta = (
        1usize..=3,
        1usize..=4,
        prop_oneof![5 => Just(0u8), 2 => Just(1u8), 2 => Just(2u8), 1 => Just(3u8)],
        0u8..4,
        proptest::collection::vec(
            prop_oneof![3 => 1usize..=6, 2 => 1usize..=30],
            1..=8,
        ),
        any::<u64>(),
        prop_oneof![Just(1usize), Just(3usize)],
        proptest::sample::select(TOLERANCES.to_vec()),
        prop_oneof![2 => Just(Metric::L2), 1 => Just(Metric::L1), 1 => Just(Metric::LInf)],
        layout::list(),
    )
        .prop_map(|(p, k, init_kind, data_mode, sizes, seed, n_runs, tolerance, metric, batch_layouts)| Meta { p, k, init_kind, data_mode, sizes, seed, n_runs, tolerance, metric, batch_layouts });
    meta.prop_flat_map(|m| {
        let cell: BoxedStrategy<f64> = match m.data_mode {
            1 => small_int_f64(-3, 3).boxed(),
            _ => gauss().boxed(),
        };
        let batches: Vec<_> = m.sizes.iter().map(|s| proptest::collection::vec(proptest::collection::vec(cell.clone(), m.p), *s)).collect();
        // blob centre of every row (index into the precomputed / blob centres)
        let blob: Vec<_> = m.sizes.iter().map(|s| proptest::collection::vec(0usize..4, *s)).collect();
        (
            Just(m.clone()),
            batches,
            blob,
            proptest::collection::vec(proptest::collection::vec(cell, m.p), 4),
            0u8..4,
        )
    })
    .prop_map(|(m, mut batches, blob, centres, cmode)| {
        // centres: spread out (x5), rows: centre + noise for the blob modes
        let spread = if m.data_mode == 1 { 1.0 } else { 5.0 };
        let centres: Vec<Vec<f64>> = centres.into_iter().map(|r| r.into_iter().map(|v| v * spread).collect()).collect();
        if m.data_mode >= 2 {
            for (b, bl) in batches.iter_mut().zip(&blob) {
                for (r, which) in b.iter_mut().zip(bl) {
                    let noise = if m.data_mode == 3 { 0.05 } else { 1.0 };
                    for (j, v) in r.iter_mut().enumerate() {
                        *v = centres[*which][j] + noise * *v;
                    }
                }
            }
        }
        let mut k = m.k;
        let init = match m.init_kind {
            0 => {
                let mut cs: Vec<Vec<f64>> = centres.iter().take(k).cloned().collect();
                match cmode {
                    // a duplicated centroid (exact ties for every row)
                    1 if k >= 2 => cs[1] = cs[0].clone(),
                    // a centroid far from all data (never touched)
                    2 => {
                        for v in cs[k - 1].iter_mut() {
                            *v += 1000.0;
                        }
                    }
                    // centroids that are rows of the first batch
                    3 => {
                        for (i, c) in cs.iter_mut().enumerate() {
                            if let Some(r) = batches[0].get(i) {
                                *c = r.clone();
                            }
                        }
                    }
                    _ => {}
                }
                Init::Precomputed(cs)
            }
            1 => {
                k = k.min(batches[0].len());
                Init::Random
            }
            2 => Init::PlusPlus,
            _ => Init::Para,
        };
        KmCase { p: m.p, k, init, seed: m.seed, n_runs: m.n_runs, tolerance: m.tolerance, batches, metric: m.metric, batch_layouts: m.batch_layouts }
    })
}
