//! Memory layouts of record matrices. The logical content of a matrix is fixed by the case; the
//! layout only decides how it sits in memory when it is handed to linfa (every entry point takes
//! `ArrayBase<D, Ix2>` for any `D: Data`, so views with arbitrary strides are plain public API).

use ndarray::{s, Array2, ArrayView2, ShapeBuilder};
use proptest::prelude::*;
use serde::{Deserialize, Serialize};
use vengine::Obs;

#[derive(Debug, Clone, Copy, PartialEq, Eq, Serialize, Deserialize, Default)]
pub enum Layout {
    /// owned, standard (C) order
    #[default]
    RowMajor,
    /// owned, column-major (Fortran) contiguous
    ColMajor,
    /// transposed view of a row-major (features x samples) table: F-contiguous view
    Transposed,
    /// every second row and column of a larger buffer (gaps are NaN)
    Strided,
    /// view with a negative row stride
    RevRows,
    /// view with a negative column stride
    RevCols,
}

pub const ALL: [Layout; 6] = [Layout::RowMajor, Layout::ColMajor, Layout::Transposed, Layout::Strided, Layout::RevRows, Layout::RevCols];

/// A buffer plus the recipe to view it as the logical n x p matrix.
pub struct Laid<F> {
    backing: Array2<F>,
    layout: Layout,
    n: usize,
    p: usize,
}

impl<F: Copy> Laid<F> {
    /// `gap` fills buffer cells that are not part of the matrix (a poison value such as NaN)
    pub fn new(layout: Layout, n: usize, p: usize, gap: F, f: impl Fn(usize, usize) -> F) -> Self {
        let backing = match layout {
            Layout::RowMajor => Array2::from_shape_fn((n, p), |(i, j)| f(i, j)),
            Layout::ColMajor => Array2::from_shape_fn((n, p).f(), |(i, j)| f(i, j)),
            Layout::Transposed => Array2::from_shape_fn((p, n), |(j, i)| f(i, j)),
            Layout::Strided => Array2::from_shape_fn((2 * n, 2 * p), |(i, j)| if i % 2 == 0 && j % 2 == 0 { f(i / 2, j / 2) } else { gap }),
            Layout::RevRows => Array2::from_shape_fn((n, p), |(i, j)| f(n - 1 - i, j)),
            Layout::RevCols => Array2::from_shape_fn((n, p), |(i, j)| f(i, p - 1 - j)),
        };
        Laid { backing, layout, n, p }
    }

    pub fn view(&self) -> ArrayView2<'_, F> {
        let v = match self.layout {
            Layout::RowMajor | Layout::ColMajor => self.backing.view(),
            Layout::Transposed => self.backing.t(),
            Layout::Strided => self.backing.slice(s![..;2, ..;2]),
            Layout::RevRows => self.backing.slice(s![..;-1, ..]),
            Layout::RevCols => self.backing.slice(s![.., ..;-1]),
        };
        debug_assert_eq!(v.dim(), (self.n, self.p));
        v
    }
}

/// layout of batch `i` (the list is cycled; empty = row-major, which is what stored cases without the field mean)
pub fn of(list: &[Layout], i: usize) -> Layout {
    if list.is_empty() {
        Layout::RowMajor
    } else {
        list[i % list.len()]
    }
}

pub fn classify(whole: Option<Layout>, batches: &[Layout], nbatches: usize, obs: &mut Obs) {
    let mut seen: Vec<Layout> = (0..nbatches).map(|i| of(batches, i)).collect();
    if let Some(w) = whole {
        obs.class(match w {
            Layout::RowMajor => "whole_fit_row_major",
            Layout::ColMajor => "whole_fit_col_major",
            Layout::Transposed => "whole_fit_transposed_view",
            Layout::Strided => "whole_fit_strided_view",
            Layout::RevRows => "whole_fit_reversed_rows_view",
            Layout::RevCols => "whole_fit_reversed_cols_view",
        });
        seen.push(w);
    }
    for l in seen {
        obs.class(match l {
            Layout::RowMajor => "layout_row_major",
            Layout::ColMajor => "layout_col_major",
            Layout::Transposed => "layout_transposed_view",
            Layout::Strided => "layout_strided_view",
            Layout::RevRows => "layout_reversed_rows_view",
            Layout::RevCols => "layout_reversed_cols_view",
        });
    }
}

pub fn one() -> impl Strategy<Value = Layout> {
    // row-major first: shrinking moves towards the plain layout
    prop_oneof![
        2 => Just(Layout::RowMajor),
        2 => Just(Layout::ColMajor),
        1 => Just(Layout::Transposed),
        1 => Just(Layout::Strided),
        1 => Just(Layout::RevRows),
        1 => Just(Layout::RevCols),
    ]
}

/// layouts of the batches (cycled)
pub fn list() -> impl Strategy<Value = Vec<Layout>> {
    proptest::collection::vec(one(), 1..=4)
}
