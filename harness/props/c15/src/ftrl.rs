//! FTRL-proximal: every `fit_with` / `update` applies the documented per-coordinate recurrence to
//! the previous (public) state `(z, n)`:
//!
//! ```text
//! w_j = 0                                            if |z_j| <= l1
//!     = (sign(z_j) l1 - z_j) / ((beta + sqrt n_j)/alpha + l2)   otherwise
//! p_i = sigmoid(x_i . w)        (linfa stores probabilities as f32: `Pr`)
//! g   = sum_i (p_i - y_i) x_i
//! s_j = (sqrt(n_j + g_j^2) - sqrt n_j) / alpha
//! z  += g - s w ;   n += g^2
//! ```

use linfa::traits::{FitWith, Predict};
use linfa::{DatasetBase, ParamGuard};
use linfa_ftrl::Ftrl;
use ndarray::Array1;
use proptest::prelude::*;
use rand_xoshiro::rand_core::SeedableRng;
use rand_xoshiro::Xoshiro256Plus;
use serde::{Deserialize, Serialize};
use vengine::gen::gauss;
use vengine::{Obs, Tier};

use crate::layout::{self, Laid, Layout};

/// z, n, weights: |Δ| <= TOL_STATE * (sum of the magnitudes entering the update)
pub const TOL_STATE: f64 = 1e-12;
/// probabilities returned by `predict` are f32: |Δ| <= TOL_PROB
pub const TOL_PROB: f64 = 2.5e-7;

pub const ALPHAS: [f64; 3] = [0.005, 0.1, 1.0];
pub const BETAS: [f64; 2] = [0.0, 1.0];
pub const RATIOS: [f64; 4] = [0.0, 0.1, 0.5, 1.0];

#[derive(Debug, Clone, Serialize, Deserialize)]
pub struct FtrlBatch {
    pub x: Vec<Vec<f64>>,
    pub y: Vec<bool>,
    /// apply this batch through `predict` + `Ftrl::update` (the asynchronous path) instead of `fit_with`
    pub via_update: bool,
}

#[derive(Debug, Clone, Serialize, Deserialize)]
pub struct FtrlCase {
    pub p: usize,
    pub alpha: f64,
    pub beta: f64,
    pub l1: f64,
    pub l2: f64,
    pub seed: u64,
    pub batches: Vec<FtrlBatch>,
    /// memory layouts of the batches' record matrices (cycled; empty = row-major)
    #[serde(default)]
    pub batch_layouts: Vec<Layout>,
}

fn weight(z: f64, n: f64, c: &FtrlCase) -> f64 {
    if z.abs() <= c.l1 {
        0.0
    } else {
        let sign = if z < 0.0 { -1.0 } else { 1.0 };
        (sign * c.l1 - z) / ((c.beta + n.sqrt()) / c.alpha + c.l2)
    }
}

fn sigmoid(t: f64) -> f64 {
    if t >= 0.0 {
        1.0 / (1.0 + (-t).exp())
    } else {
        let e = t.exp();
        e / (1.0 + e)
    }
}

/// distance of `p` to the nearest point where rounding to f32 switches, relative to `p`
fn f32_rounding_margin(p: f64) -> f64 {
    let f = p as f32;
    if !f.is_finite() || f == 0.0 {
        return 1.0;
    }
    let up = f32::from_bits(f.to_bits() + 1) as f64;
    let down = f32::from_bits(f.to_bits() - 1) as f64;
    let m1 = (f as f64 + up) / 2.0;
    let m2 = (f as f64 + down) / 2.0;
    (p - m1).abs().min((p - m2).abs()) / p.abs()
}

struct Step {
    z: Vec<f64>,
    n: Vec<f64>,
    tol_z: Vec<f64>,
    tol_n: Vec<f64>,
    near_f32_boundary: bool,
    saturated: bool,
}

fn step(z: &[f64], n: &[f64], b: &FtrlBatch, c: &FtrlCase) -> Step {
    let p = c.p;
    let w: Vec<f64> = (0..p).map(|j| weight(z[j], n[j], c)).collect();
    let mut g = vec![0.0; p];
    let mut gscale = vec![0.0; p];
    let mut near = false;
    let mut saturated = false;
    for (row, y) in b.x.iter().zip(&b.y) {
        let t: f64 = row.iter().zip(&w).map(|(a, b)| a * b).sum();
        let tmag: f64 = row.iter().zip(&w).map(|(a, b)| (a * b).abs()).sum();
        let pr = sigmoid(t);
        saturated |= t.abs() > 35.0;
        // an error of a few ulps of the dot product must not be able to change the f32 rounding
        let rel_err = 64.0 * f64::EPSILON * (1.0 + tmag);
        if t.abs() <= 35.0 && f32_rounding_margin(pr) <= rel_err {
            near = true;
        }
        let pf = pr as f32 as f64;
        let d = pf - if *y { 1.0 } else { 0.0 };
        for j in 0..p {
            g[j] += d * row[j];
            gscale[j] += row[j].abs();
        }
    }
    let mut z2 = vec![0.0; p];
    let mut n2 = vec![0.0; p];
    let mut tol_z = vec![0.0; p];
    let mut tol_n = vec![0.0; p];
    for j in 0..p {
        let s = ((n[j] + g[j] * g[j]).sqrt() - n[j].sqrt()) / c.alpha;
        z2[j] = z[j] + g[j] - s * w[j];
        n2[j] = n[j] + g[j] * g[j];
        // sigma suffers cancellation: its absolute error is about eps * sqrt(n + g^2) / alpha
        let s_err = (n[j] + gscale[j] * gscale[j]).sqrt() / c.alpha;
        tol_z[j] = TOL_STATE * (z[j].abs() + gscale[j] + (s.abs() + s_err) * w[j].abs()) + 1e-300;
        tol_n[j] = TOL_STATE * (n[j] + gscale[j] * gscale[j]) + 1e-300;
    }
    Step { z: z2, n: n2, tol_z, tol_n, near_f32_boundary: near, saturated }
}

fn well_formed(c: &FtrlCase) -> bool {
    c.p >= 1
        && c.alpha > 0.0
        && c.beta >= 0.0
        && (0.0..=1.0).contains(&c.l1)
        && (0.0..=1.0).contains(&c.l2)
        // (beta = 0 with l2 = 0 makes the learning rate alpha/(beta + sqrt n) infinite at n = 0; the generator keeps it
        // only with l1 = 1, where the documented weight of such a coordinate is 0 by the |z| <= l1 rule; a stored case
        // whose reference state is not finite is counted, not judged)
        && !c.batches.is_empty()
        && c.batches.iter().all(|b| !b.x.is_empty() && b.x.len() == b.y.len() && b.x.iter().all(|r| r.len() == c.p && r.iter().all(|v| v.is_finite())))
}

type Params = linfa_ftrl::FtrlParams<f64, Xoshiro256Plus>;

fn params(c: &FtrlCase) -> Params {
    Ftrl::params_with_rng(Xoshiro256Plus::seed_from_u64(c.seed))
        .alpha(c.alpha)
        .beta(c.beta)
        .l1_ratio(c.l1)
        .l2_ratio(c.l2)
}

fn run_history(c: &FtrlCase, obs: &mut Obs, judge: bool) -> Option<(Vec<f64>, Vec<f64>)> {
    let valid = match params(c).check() {
        Ok(v) => v,
        Err(e) => {
            obs.fail("ftrl:params-rejected", format!("valid hyper-parameters rejected: {e}"));
            return None;
        }
    };
    // the initial state is public: Ftrl::new draws z from the parameter set's generator, n = 0
    let init = obs.call("ftrl-new", || Ftrl::new(valid.clone(), c.p))?;
    let mut z = init.z().to_vec();
    let mut n = init.n().to_vec();
    if judge {
        obs.ensure(
            z.len() == c.p && n.len() == c.p && n.iter().all(|v| *v == 0.0) && z.iter().all(|v| (0.0..1.0).contains(v)),
            "ftrl:initial-state",
            || format!("fresh model: z = {:?}, n = {:?} (documented: z uniform in [0,1), n = 0)", z, n),
        );
        obs.ensure(
            init.alpha() == c.alpha && init.beta() == c.beta && init.l1_ratio() == c.l1 && init.l2_ratio() == c.l2,
            "ftrl:hyperparameters-not-carried",
            || "the model does not carry the hyper-parameters it was created with".to_string(),
        );
    }
    if z.len() != c.p || n.len() != c.p {
        return None;
    }
    let mut model: Option<Ftrl<f64>> = None;
    for (bi, b) in c.batches.iter().enumerate() {
        let laid = Laid::new(layout::of(&c.batch_layouts, bi), b.x.len(), c.p, f64::NAN, |i, j| b.x[i][j]);
        let x = laid.view();
        let y = Array1::from_vec(b.y.clone());
        let ds = DatasetBase::new(x, y);
        let prev = model.take();
        let m = if b.via_update {
            let mut m = match prev {
                Some(m) => m,
                None => obs.call("ftrl-new", || Ftrl::new(valid.clone(), c.p))?,
            };
            let pr = obs.call("ftrl-predict", || m.predict(&x))?;
            obs.call("ftrl-update", || m.update(&ds, pr.view()))?;
            m
        } else {
            match obs.call("ftrl-fit_with", || valid.fit_with(prev, &ds))? {
                Ok(m) => m,
                Err(e) => {
                    obs.fail("ftrl:fit_with-error", format!("batch {bi}: {e}"));
                    return None;
                }
            }
        };
        let (zo, no) = (m.z().to_vec(), m.n().to_vec());
        if zo.len() != c.p || no.len() != c.p {
            obs.fail("ftrl:shape", format!("batch {bi}: z/n have lengths {}/{}", zo.len(), no.len()));
            return None;
        }
        if judge {
            let st = step(&z, &n, b, c);
            obs.class_if(st.saturated, "ftrl_saturated_sigmoid");
            if st.z.iter().chain(st.n.iter()).any(|v| !v.is_finite()) {
                obs.skip("ftrl_non_finite_reference");
                return None;
            }
            if st.near_f32_boundary {
                // the f32 rounding of a probability could go either way within float error
                obs.skip("ftrl_probability_on_f32_rounding_boundary");
                return None;
            }
            for j in 0..c.p {
                obs.ensure((zo[j] - st.z[j]).abs() <= st.tol_z[j], "ftrl:z-recurrence", || {
                    format!(
                        "batch {bi} coordinate {j}: z went from {} to {} ; z + g - sigma*w = {} (n = {}, tolerance {:e})",
                        z[j], zo[j], st.z[j], n[j], st.tol_z[j]
                    )
                });
                obs.ensure((no[j] - st.n[j]).abs() <= st.tol_n[j], "ftrl:n-recurrence", || {
                    format!("batch {bi} coordinate {j}: n went from {} to {} ; n + g^2 = {}", n[j], no[j], st.n[j])
                });
            }
            // weights of the new state: closed form, exact zeros inside the l1 ball
            let w = obs.call("ftrl-get_weights", || m.get_weights().to_vec())?;
            if w.len() != c.p {
                obs.fail("ftrl:shape", format!("batch {bi}: {} weights", w.len()));
                return None;
            }
            let mut sparse = false;
            for j in 0..c.p {
                if zo[j].abs() <= c.l1 {
                    sparse = true;
                    obs.ensure(w[j] == 0.0, "ftrl:weight-not-zero-inside-l1", || {
                        format!("batch {bi} coordinate {j}: |z| = {} <= l1 = {} but weight = {}", zo[j].abs(), c.l1, w[j])
                    });
                } else {
                    let want = weight(zo[j], no[j], c);
                    obs.ensure((w[j] - want).abs() <= TOL_STATE * want.abs() + 1e-300, "ftrl:weight-closed-form", || {
                        format!("batch {bi} coordinate {j}: weight {} ; closed form gives {want} (z = {}, n = {})", w[j], zo[j], no[j])
                    });
                }
            }
            obs.class_if(sparse, "ftrl_sparse_weight");
            obs.class_if(!sparse, "ftrl_dense_weights");
            // predictions of the new state
            if let Some(pr) = obs.call("ftrl-predict", || m.predict(&x)) {
                for (i, row) in b.x.iter().enumerate() {
                    let t: f64 = row.iter().zip(&w).map(|(a, b)| a * b).sum();
                    let want = sigmoid(t);
                    let got = pr.get(i).map(|v| **v as f64).unwrap_or(f64::NAN);
                    obs.ensure((got - want).abs() <= TOL_PROB, "ftrl:predict", || {
                        format!("batch {bi} row {i}: predicted probability {got}, sigmoid(x.w) = {want}")
                    });
                }
            }
        }
        z = zo;
        n = no;
        model = Some(m);
    }
    Some((z, n))
}

pub fn check(c: &FtrlCase, obs: &mut Obs) {
    if !well_formed(c) {
        obs.skip("malformed_case");
        return;
    }
    layout::classify(None, &c.batch_layouts, c.batches.len(), obs);
    obs.class_if(c.batches.len() == 1, "ftrl_single_update");
    obs.class_if(c.batches.len() >= 5, "ftrl_five_or_more_updates");
    obs.class_if(c.beta == 0.0 && c.l2 == 0.0, "ftrl_beta0_l2_0_zero_denominator_at_n0");
    obs.class_if(c.l1 == 0.0, "ftrl_l1_zero");
    obs.class_if(c.l1 == 1.0, "ftrl_l1_one");
    obs.class_if(c.batches.iter().any(|b| b.via_update), "ftrl_via_update");
    obs.class_if(c.batches.iter().any(|b| b.x.len() == 1), "ftrl_one_row_batch");
    obs.nontrivial_if(c.batches.len() >= 2);
    let Some(first) = run_history(c, obs, true) else { return };
    if obs.skipped {
        return;
    }
    let mut quiet = Obs::default();
    match run_history(c, &mut quiet, false) {
        Some(second) => {
            let same = first.0.iter().zip(&second.0).all(|(a, b)| a.to_bits() == b.to_bits())
                && first.1.iter().zip(&second.1).all(|(a, b)| a.to_bits() == b.to_bits());
            obs.ensure(same, "ftrl:not-a-function-of-history", || {
                "the same batches, seed and hyper-parameters gave a different (z, n)".to_string()
            });
        }
        None => obs.fail("ftrl:not-a-function-of-history", "second run of the same history failed"),
    }
}

// ------------------------------------------------------------------------------------------------
// generator

pub fn strategy(_tier: Tier) -> impl Strategy<Value = FtrlCase> {
    let meta = (
        1usize..=5,
        proptest::sample::select(ALPHAS.to_vec()),
        proptest::sample::select(BETAS.to_vec()),
        proptest::sample::select(RATIOS.to_vec()),
        proptest::sample::select(RATIOS.to_vec()),
        any::<u64>(),
        proptest::collection::vec((1usize..=20, prop_oneof![3 => Just(false), 1 => Just(true)]), 1..=10),
        0u8..4,
        layout::list(),
    );
    meta.prop_flat_map(|(p, alpha, beta, l1, l2, seed, shape, data_mode, batch_layouts)| {
        let cell: BoxedStrategy<f64> = match data_mode {
            // binary indicator features (click-through style)
            1 => prop_oneof![Just(0.0), Just(1.0)].boxed(),
            _ => gauss().boxed(),
        };
        let scale = if data_mode == 2 { 10.0 } else { 1.0 };
        let batches: Vec<_> = shape
            .iter()
            .map(|(rows, via)| {
                let via = *via;
                (
                    proptest::collection::vec(proptest::collection::vec(cell.clone(), p), *rows),
                    proptest::collection::vec(any::<bool>(), *rows),
                )
                    .prop_map(move |(x, y)| FtrlBatch {
                        x: x.into_iter().map(|r| r.into_iter().map(|v| v * scale).collect()).collect(),
                        y,
                        via_update: via,
                    })
            })
            .collect();
        // beta = 0 with l2 = 0: the denominator is 0 at n = 0. With l1 = 1 every seeded initial z (drawn from [0, 1))
        // satisfies |z| <= l1, the documented weight is exactly 0 there and the configuration is inside the domain; with
        // l1 < 1 a fresh coordinate gets an infinite weight (infinite first learning rate, outside the domain): lift l2
        let l2 = if beta == 0.0 && l2 == 0.0 && l1 < 1.0 { 0.1 } else { l2 };
        batches.prop_map(move |batches| FtrlCase { p, alpha, beta, l1, l2, seed, batches, batch_layouts: batch_layouts.clone() })
    })
}
