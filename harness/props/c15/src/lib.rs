//! C15 — stub (to be written; see /verif/harness/AUTHORING.md and DESIGN.md §3 C15)
use vengine::Property;

pub fn property() -> Property {
    Property { id: "C15", rule: "", assumptions: vec![], subs: vec![] }
}
