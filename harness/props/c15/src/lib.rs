//! C15 — incremental fitting replays to the same model as batch fitting / its recurrence.
//!
//! * naive Bayes (Gaussian, multinomial): a dataset is cut into an ordered sequence of non-empty
//!   batches and fed through `fit_with`; class counts, priors and per-class statistics (observed
//!   through the models' public serde implementation) must equal the textbook estimates on the
//!   concatenated data and those of one `fit`; predictions must maximise the posterior.
//! * mini-batch k-means and FTRL: every update must apply the documented recurrence to the previous
//!   public state; the model is a function of the history alone.

pub mod ftrl;
pub mod layout;
pub mod kmeans;
pub mod nb;

use vengine::{prop_sub, Property, Tier};

pub fn property() -> Property {
    Property {
        id: "C15",
        rule: "cases are histories. Naive Bayes: n 4..=60 rows, 1..=4 features, 2..=4 classes (usize or String labels; orderings random / sorted blocks / one singleton class / reverse blocks), \
               a composition of n into 1..=n ordered non-empty batches (cut density 0, 1/32, 5/32, 1/2, 1), smoothing in {0, 1e-9, 1e-3, 0.1, 1}; \
               non-trivial = at least 3 batches and at least one batch that lacks a class of the dataset. \
               Wide naive-Bayes stratum (data derived from a generated seed by SplitMix): 8/16/64/128 features, per-feature scale 10^s with s in {-3,-2,0,2,3} (all features alike, or one exponent per feature), \
               2..=3 classes of 2..=5 rows, shuffled or in class blocks, random cuts into batches, Gaussian models instantiated with f32 and f64 (var_smoothing 1e-9), multinomial f64 (alpha in {0, 1e-3, 1}); same non-trivial rule. \
               Mini-batch k-means: 1..=8 batches of 1..=30 rows, k 1..=4, precomputed or seeded (random, k-means++, k-means||) initialisation, distance function L2 / L1 / LInf (2:1:1), tolerance in {1e-6, 1e-2, 0.5, 2, 10}; \
               non-trivial = some cluster receives rows in at least 2 batches. \
               FTRL: 1..=10 batches of 1..=20 rows, 1..=5 features, alpha in {0.005, 0.1, 1}, beta in {0, 1}, l1/l2 in {0, 0.1, 0.5, 1}, seeded initial z, batches applied through fit_with or predict+update; \
               non-trivial = at least 2 updates. Every record matrix handed to linfa (whole-data fit, every incremental batch, rows to predict) is laid out in memory as row-major owned, column-major owned, transposed view of a features x samples table, \
               every-second-row-and-column view of a larger NaN-padded buffer, reversed-row view or reversed-column view (2:2:1:1:1:1; batch layouts cycle through a list of 1..=4); the logical content and the oracle do not depend on it. \
               distinct = distinct canonical JSON of the case",
        assumptions: vec![
            "private naive-Bayes statistics are read through the public serde implementation (bincode round trip into a mirror struct {class_info: {label -> (class_count, prior, array, array)}}); no hook is used".into(),
            format!("Gaussian NB: means within {:e}*max|x|, variances within {:e}*(max|x|*spread + spread^2) + 1e-12*|sigma| of the two-pass population estimates; smoothing term = var_smoothing * largest per-feature population variance of the whole dataset (linfa's documented definition); counts and priors exact", nb::TOL_THETA, nb::TOL_SIGMA),
            format!("multinomial NB: feature counts exact, ln((c_j+alpha)/sum(c+alpha)) within {:e}*(1+|v|); with alpha = 0 a zero count must give exactly -inf; a class whose features are all zero with alpha = 0 has an undefined estimate (0/0) and is not judged", nb::TOL_LOGP),
            format!("predictions: a predicted class must reach the maximal log-posterior recomputed from the model's own statistics within {:e}*(1 + magnitude of the terms); it must equal the textbook arg-max only where the textbook margin exceeds {:e}*(1 + magnitude); posterior ties may be broken either way", nb::TOL_MARGIN, nb::CROSS_MARGIN),
            format!("wide stratum: tolerances are per feature (max|x_j|, spread_j of that feature); f32 models: means within {:e}*max|x_j|, variances within {:e}*(max|x_j|*spread_j + spread_j^2) + {:e}*|sigma|, prior = f32 division, own-statistics arg-max slack {:e}, textbook margin {:e}; data are rounded to f32 before both linfa and the f64 reference see them; the reference log-posterior is a sum of per-feature logarithms in f64", nb::TOL_THETA_F32, nb::TOL_SIGMA_F32, nb::TOL_REL_F32, nb::TOL_MARGIN_F32, nb::CROSS_MARGIN_F32),
            "Gaussian NB with var_smoothing = 0 and a class that has zero variance in a feature: the density is undefined, predictions are not judged (statistics still are)".into(),
            "multinomial posterior uses the convention 0 * ln 0 = 0 (a feature that does not occur in the sample contributes nothing)".into(),
            format!("k-means: counts exact, centroids within {:e}*scale of the row-by-row running mean replayed from the state linfa reported before the batch; assignment by the metric's reduced distance (L2: squared distance; L1, LInf: the distance itself), inertia = mean minimal reduced distance to the pre-batch centroids (relative {:e}); two centroids whose reduced distances differ by <= {:e}*(1+scale^q) (q = 2 for L2, 1 otherwise) count as tied and linfa's own predict on the pre-batch model decides (it must name a tied centroid)", kmeans::TOL_CENTROID, kmeans::TOL_INERTIA, kmeans::TOL_TIE),
            format!("k-means converged flag: Ok <=> the metric's true distance between the old and new centroid matrices (L2: Frobenius norm, L1: sum of |entries|, LInf: largest |entry| of the difference; recomputed by the harness, never through linfa-nn) < tolerance, not judged when the two differ by <= {:e} relative", kmeans::TOL_FLAG),
            format!("k-means seeded initialisation: the initial centroids are not observable; for the first batch all tuples of distinct batch rows are tried as initial centroids when there are <= {} of them (one must reproduce the model through the recurrence), otherwise only necessary conditions are checked (counts sum to the batch size, untouched centroids are batch rows, touched centroids lie in the bounding box); k-means|| is excluded from the same-history-same-model comparison (its candidate sampling is scheduled by rayon; C20 covers it)", kmeans::ENUM_CAP),
            "k-means: Random initialisation needs at least k rows in the first batch (k is clamped)".into(),
            format!("FTRL: every step is replayed from the (z, n) linfa reported before it; z, n and weights within {:e} of the sum of magnitudes entering the update (sigma's cancellation error eps*sqrt(n+g^2)/alpha included); probabilities are rounded to f32 as linfa's Pr type does; a case in which a probability sits within float error of an f32 rounding boundary is skipped; predict within {:e}", ftrl::TOL_STATE, ftrl::TOL_PROB),
            "FTRL: beta = 0 together with l2 = 0 is outside the domain (the per-coordinate learning rate alpha/(beta+sqrt n) is infinite at n = 0); alpha > 0".into(),
            "linfa's sigmoid clamps its argument to [-35, 35]; the reference does not, the difference (< 7e-16 per probability) is inside the tolerance".into(),
        ],
        subs: vec![
            prop_sub("minibatch_kmeans", 30000, 600000, |t: Tier| kmeans::strategy(t), kmeans::check).chunks(16),
            prop_sub("gaussian_nb", 30000, 600000, |t: Tier| nb::strategy(nb::Kind::Gaussian, t), nb::check).chunks(16),
            prop_sub("multinomial_nb", 24000, 480000, |t: Tier| nb::strategy(nb::Kind::Multinomial, t), nb::check).chunks(16),
            prop_sub("gaussian_nb_wide", 6000, 60000, |t: Tier| nb::strategy_wide(nb::Kind::Gaussian, t), nb::check_wide).chunks(16),
            prop_sub("multinomial_nb_wide", 3000, 30000, |t: Tier| nb::strategy_wide(nb::Kind::Multinomial, t), nb::check_wide).chunks(16),
            prop_sub("ftrl", 20000, 400000, |t: Tier| ftrl::strategy(t), ftrl::check).chunks(16),
        ],
    }
}
