//! Naive Bayes: incremental (`fit_with`, batch by batch) = batch (`fit`) = textbook estimates.
//!
//! The learned statistics are private; they are observed through the public serde implementation
//! (bincode keeps every float bit-exact, JSON would turn -inf/NaN into `null`): the model is
//! serialised and read back into a mirror struct with the same field order.

use linfa::dataset::{DatasetBase, Label};
use linfa::traits::{Fit, FitWith, Predict};
use linfa::ParamGuard;
use linfa_bayes::{GaussianNb, MultinomialNb};
use ndarray::{s, Array1, Array2};
use proptest::prelude::*;
use serde::de::DeserializeOwned;
use serde::{Deserialize, Serialize};
use std::collections::{BTreeMap, HashMap};
use std::hash::Hash;
use vengine::gen::{gauss, idx, small_int_f64};
use vengine::{Obs, Tier};

use crate::layout::{self, Laid, Layout};

// ------------------------------------------------------------------------------------------------
// tolerances (all written into the evidence assumptions by lib.rs)

/// class means: |Δ| <= TOL_THETA * max|x|
pub const TOL_THETA: f64 = 1e-12;
/// class variances: |Δ| <= TOL_SIGMA * (max|x|*spread + spread^2) + 1e-12*|σ|
pub const TOL_SIGMA: f64 = 1e-10;
/// multinomial log-probabilities: |Δ| <= TOL_LOGP * (1 + |v|)
pub const TOL_LOGP: f64 = 1e-12;
/// a prediction must reach the maximum of the posterior recomputed from the model's own statistics
/// up to TOL_MARGIN * (1 + sum of the magnitudes of the terms of the log-posterior)
pub const TOL_MARGIN: f64 = 1e-9;
/// predictions of fit / fit_with are compared with the textbook arg-max only where the textbook
/// posterior margin exceeds CROSS_MARGIN * (1 + magnitude)
pub const CROSS_MARGIN: f64 = 1e-6;

pub const SMOOTHINGS: [f64; 5] = [0.0, 1e-9, 1e-3, 0.1, 1.0];

// ------------------------------------------------------------------------------------------------
// case

#[derive(Debug, Clone, Copy, PartialEq, Eq, Serialize, Deserialize)]
pub enum Kind {
    Gaussian,
    Multinomial,
}

#[derive(Debug, Clone, Serialize, Deserialize)]
pub struct NbCase {
    pub kind: Kind,
    /// labels are `String`s instead of `usize`
    pub string_labels: bool,
    /// rows in feeding order
    pub x: Vec<Vec<f64>>,
    /// class index (0..4) of every row
    pub y: Vec<u8>,
    /// sizes of the consecutive batches; sums to the number of rows, every entry >= 1
    pub sizes: Vec<usize>,
    /// var_smoothing (Gaussian) / alpha (multinomial)
    pub smoothing: f64,
    /// extra rows to predict (besides the training rows)
    pub queries: Vec<Vec<f64>>,
    /// memory layout of the records of the whole-data fit (and of the rows to predict)
    #[serde(default)]
    pub fit_layout: Layout,
    /// memory layouts of the records of the incremental batches (cycled; empty = row-major)
    #[serde(default)]
    pub batch_layouts: Vec<Layout>,
}

pub trait Lab: Label + Serialize + DeserializeOwned + Hash + Eq + Clone + 'static {
    fn make(i: u8) -> Self;
}
impl Lab for usize {
    fn make(i: u8) -> usize {
        // neither contiguous nor sorted by class index
        [7usize, 2, 40, 11, 5, 0, 9, 3][(i as usize) % 8]
    }
}
impl Lab for String {
    fn make(i: u8) -> String {
        format!("cls-{}", ["b", "a", "d", "c", "h", "g", "f", "e"][(i as usize) % 8])
    }
}

fn class_of<L: Lab>(l: &L) -> Option<u8> {
    (0u8..8).find(|i| &L::make(*i) == l)
}

// ------------------------------------------------------------------------------------------------
// the serde window

#[derive(Deserialize)]
struct InfoMirror<F> {
    class_count: usize,
    prior: F,
    /// theta (Gaussian) / feature_count (multinomial)
    a: Array1<F>,
    /// sigma (Gaussian) / feature_log_prob (multinomial)
    b: Array1<F>,
}
#[derive(Deserialize)]
struct ModelMirror<F, L: Eq + Hash> {
    class_info: HashMap<L, InfoMirror<F>>,
}

/// element types the models are instantiated with
pub trait Flt: linfa::Float + Serialize + DeserializeOwned {
    const IS_F32: bool;
}
impl Flt for f64 {
    const IS_F32: bool = false;
}
impl Flt for f32 {
    const IS_F32: bool = true;
}
fn f64_of<F: Flt>(v: F) -> f64 {
    num_traits::ToPrimitive::to_f64(&v).unwrap_or(f64::NAN)
}

#[derive(Debug, Clone)]
pub struct Stats {
    pub count: usize,
    pub prior: f64,
    pub a: Vec<f64>,
    pub b: Vec<f64>,
}

fn window<F: Flt, L: Lab, M: Serialize>(model: &M, obs: &mut Obs, what: &str) -> Option<BTreeMap<u8, Stats>> {
    let bytes = match bincode::serialize(model) {
        Ok(b) => b,
        Err(e) => {
            obs.fail(format!("{what}:serialize"), format!("model does not serialise: {e}"));
            return None;
        }
    };
    let mirror: ModelMirror<F, L> = match bincode::deserialize(&bytes) {
        Ok(m) => m,
        Err(e) => {
            obs.fail(
                format!("{what}:window"),
                format!("serialised model does not have the layout class_info{{label -> (class_count, prior, array, array)}}: {e}"),
            );
            return None;
        }
    };
    let mut out = BTreeMap::new();
    for (l, info) in mirror.class_info {
        match class_of(&l) {
            Some(c) => {
                out.insert(
                    c,
                    Stats {
                        count: info.class_count,
                        prior: f64_of(info.prior),
                        a: info.a.iter().map(|v| f64_of(*v)).collect(),
                        b: info.b.iter().map(|v| f64_of(*v)).collect(),
                    },
                );
            }
            None => {
                obs.fail(format!("{what}:invented-class"), format!("model holds class {:?} that was never fed", l));
            }
        }
    }
    Some(out)
}

// ------------------------------------------------------------------------------------------------
// reference arithmetic (naive, two-pass)

fn col_mean(rows: &[&Vec<f64>], p: usize) -> Vec<f64> {
    let mut m = vec![0.0; p];
    for r in rows {
        for j in 0..p {
            m[j] += r[j];
        }
    }
    for v in m.iter_mut() {
        *v /= rows.len() as f64;
    }
    m
}

/// population variance (divisor n) per column
fn col_var(rows: &[&Vec<f64>], p: usize) -> Vec<f64> {
    let m = col_mean(rows, p);
    let mut v = vec![0.0; p];
    for r in rows {
        for j in 0..p {
            let d = r[j] - m[j];
            v[j] += d * d;
        }
    }
    for x in v.iter_mut() {
        *x /= rows.len() as f64;
    }
    v
}

fn max_of(v: &[f64]) -> f64 {
    v.iter().cloned().fold(f64::NEG_INFINITY, f64::max)
}

struct Shape {
    n: usize,
    p: usize,
    xmax: f64,
    spread: f64,
}

fn shape(c: &NbCase) -> Option<Shape> {
    let n = c.x.len();
    let p = c.x.first().map(|r| r.len()).unwrap_or(0);
    if n == 0 || p == 0 || c.y.len() != n || c.x.iter().any(|r| r.len() != p) || c.queries.iter().any(|r| r.len() != p) {
        return None;
    }
    if c.sizes.iter().sum::<usize>() != n || c.sizes.iter().any(|s| *s == 0) {
        return None;
    }
    if c.y.iter().any(|v| *v >= 8) || c.x.iter().flatten().chain(c.queries.iter().flatten()).any(|v| !v.is_finite()) {
        return None;
    }
    let mut xmax: f64 = 0.0;
    let mut spread: f64 = 0.0;
    for j in 0..p {
        let lo = c.x.iter().map(|r| r[j]).fold(f64::INFINITY, f64::min);
        let hi = c.x.iter().map(|r| r[j]).fold(f64::NEG_INFINITY, f64::max);
        spread = spread.max(hi - lo);
        xmax = xmax.max(lo.abs()).max(hi.abs());
    }
    Some(Shape { n, p, xmax, spread })
}

fn rows_of_class<'a>(c: &'a NbCase, cls: u8, range: std::ops::Range<usize>) -> Vec<&'a Vec<f64>> {
    range.filter(|i| c.y[*i] == cls).map(|i| &c.x[i]).collect()
}

fn batch_ranges(c: &NbCase) -> Vec<std::ops::Range<usize>> {
    let mut out = vec![];
    let mut a = 0;
    for s in &c.sizes {
        out.push(a..a + s);
        a += s;
    }
    out
}

fn present_classes(c: &NbCase, range: std::ops::Range<usize>) -> Vec<u8> {
    let mut v: Vec<u8> = range.map(|i| c.y[i]).collect();
    v.sort_unstable();
    v.dedup();
    v
}

fn classify(c: &NbCase, obs: &mut Obs) {
    let all = present_classes(c, 0..c.y.len());
    let ranges = batch_ranges(c);
    let incomplete = ranges.iter().filter(|r| present_classes(c, (*r).clone()).len() < all.len()).count();
    obs.class_if(ranges.len() == 1, "single_batch");
    obs.class_if(ranges.len() == 2, "two_batches");
    obs.class_if(ranges.len() >= 3, "three_or_more_batches");
    obs.class_if(ranges.len() == c.y.len(), "all_singleton_batches");
    obs.class_if(ranges.len() >= 10, "ten_or_more_batches");
    obs.class_if(incomplete > 0, "class_incomplete_batch");
    let first = present_classes(c, ranges[0].clone());
    obs.class_if(first.len() < all.len(), "class_first_seen_later");
    obs.class_if(
        all.iter().any(|k| c.y.iter().filter(|v| *v == k).count() == 1),
        "singleton_class",
    );
    obs.class_if(ranges.iter().any(|r| r.len() == 1), "one_row_batch");
    obs.class_if(all.len() >= 3, "three_or_more_classes");
    obs.class_if(c.string_labels, "string_labels");
    obs.class_if(!c.string_labels, "usize_labels");
    obs.class_if(c.smoothing == 0.0, "smoothing_zero");
    obs.class_if(c.smoothing >= 0.1, "smoothing_large");
    layout::classify(Some(c.fit_layout), &c.batch_layouts, ranges.len(), obs);
    // the property's non-trivial rule
    obs.nontrivial_if(ranges.len() >= 3 && incomplete > 0);
}

/// (records of the whole-data fit in the case's layout, labels, rows to predict in logical form)
fn to_arrays<F: Flt, L: Lab>(c: &NbCase, sh: &Shape) -> (Laid<F>, Array1<L>, Array2<F>) {
    let x = Laid::new(c.fit_layout, sh.n, sh.p, F::nan(), |i, j| F::cast(c.x[i][j]));
    let y = Array1::from_shape_fn(sh.n, |i| L::make(c.y[i]));
    let nq = sh.n + c.queries.len();
    let q = Array2::from_shape_fn((nq, sh.p), |(i, j)| F::cast(if i < sh.n { c.x[i][j] } else { c.queries[i - sh.n][j] }));
    (x, y, q)
}

/// records of batch `bi` (rows `r`) in that batch's layout
fn batch_records<F: Flt>(c: &NbCase, sh: &Shape, bi: usize, r: &std::ops::Range<usize>) -> Laid<F> {
    let a = r.start;
    Laid::new(layout::of(&c.batch_layouts, bi), r.len(), sh.p, F::nan(), |i, j| F::cast(c.x[a + i][j]))
}

/// counts and priors are exact on both sides
fn check_counts(c: &NbCase, got: &BTreeMap<u8, Stats>, obs: &mut Obs, tag: &str, f32_model: bool) -> bool {
    let all = present_classes(c, 0..c.y.len());
    let have: Vec<u8> = got.keys().cloned().collect();
    if !obs.ensure(have == all, &format!("{tag}-classes"), || {
        format!("model holds classes {:?}, data holds {:?}", have, all)
    }) {
        return false;
    }
    let n = c.y.len();
    let mut ok = true;
    for k in &all {
        let cnt = c.y.iter().filter(|v| *v == k).count();
        let st = &got[k];
        ok &= obs.ensure(st.count == cnt, &format!("{tag}-count"), || {
            format!("class {k}: class_count {} but the data holds {cnt} rows of it", st.count)
        });
        // same arithmetic as the model's element type: one IEEE division
        let prior = if f32_model { (cnt as f32 / n as f32) as f64 } else { cnt as f64 / n as f64 };
        ok &= obs.ensure(st.prior == prior, &format!("{tag}-prior"), || {
            format!("class {k}: prior {} but class frequency is {cnt}/{n} = {prior}", st.prior)
        });
    }
    ok
}

/// Arg-max check of predictions against log-posteriors `jll[row][class] = (value, absolute slack)`;
/// the largest slack over the classes of a row is the tolerance for that row.
/// Returns nothing; records failures under `sig`.
fn check_argmax(
    preds: &[Option<u8>],
    rows: &[usize],
    jll: &dyn Fn(usize) -> Option<BTreeMap<u8, (f64, f64)>>,
    must_equal_when_clear: bool,
    obs: &mut Obs,
    sig: &str,
) {
    for (pos, &r) in rows.iter().enumerate() {
        let Some(pred) = preds.get(pos).cloned().flatten() else {
            obs.fail(format!("{sig}-unknown-label"), format!("row {r}: predicted label is not one of the classes"));
            continue;
        };
        let Some(scores) = jll(r) else { continue };
        let tol = scores.values().map(|v| v.1).fold(0.0, f64::max);
        let best = scores.values().map(|v| v.0).fold(f64::NEG_INFINITY, f64::max);
        if best == f64::NEG_INFINITY {
            // every class has zero posterior: everything is tied
            continue;
        }
        let Some(&(mine, _)) = scores.get(&pred) else {
            obs.fail(format!("{sig}-unknown-label"), format!("row {r}: predicted class {pred} is not in the model"));
            continue;
        };
        if must_equal_when_clear {
            // judged only where the runner-up is clearly below the winner
            let mut sorted: Vec<f64> = scores.values().map(|v| v.0).collect();
            sorted.sort_by(|a, b| b.partial_cmp(a).unwrap_or(std::cmp::Ordering::Equal));
            let second = sorted.get(1).cloned().unwrap_or(f64::NEG_INFINITY);
            if best - second <= tol {
                continue;
            }
        }
        obs.ensure(mine >= best - tol, sig, || {
            format!(
                "row {r}: predicted class {pred} has log-posterior {mine}, but the maximum over classes is {best} (scores {:?})",
                scores.iter().map(|(k, v)| (*k, v.0)).collect::<Vec<_>>()
            )
        });
    }
}

// ------------------------------------------------------------------------------------------------
// Gaussian

/// Tolerances of the Gaussian moment checks: per feature absolute for theta and sigma, plus `rel`*|sigma|.
pub struct GTol {
    pub theta: Vec<f64>,
    pub sigma0: Vec<f64>,
    pub rel: f64,
    /// own-statistics arg-max slack (relative to the magnitude of the terms)
    pub margin: f64,
    /// textbook arg-max: minimal relative margin
    pub cross: f64,
}

/// `rel`: relative slack on the magnitude of the terms; `slack`: how far the statistics
/// of a model that passed the moment checks may be from `stats` (None when `stats` are the model's own);
/// their worst-case effect on the log-posterior is added (twice) to the slack. `None` = row not judged.
fn gaussian_jll(stats: &BTreeMap<u8, Stats>, x: &[f64], rel: f64, slack: Option<&GTol>) -> Option<BTreeMap<u8, (f64, f64)>> {
    let mut out = BTreeMap::new();
    for (k, st) in stats {
        if st.a.len() != x.len() || st.b.len() != x.len() {
            return None;
        }
        let mut v = st.prior.ln();
        let mut mag = v.abs();
        let mut pert = 0.0;
        for j in 0..x.len() {
            let s = st.b[j];
            if !(s > 0.0) || !s.is_finite() {
                return None;
            }
            let t1 = -0.5 * (2.0 * std::f64::consts::PI * s).ln();
            let d = x[j] - st.a[j];
            let t2 = -0.5 * d * d / s;
            v += t1 + t2;
            mag += t1.abs() + t2.abs();
            if let Some(t) = slack {
                let d_theta = t.theta.get(j).cloned().unwrap_or(f64::INFINITY);
                let ds = t.sigma0.get(j).cloned().unwrap_or(f64::INFINITY) + t.rel * s.abs();
                if ds >= 0.25 * s {
                    // the variance is not known well enough relative to its size
                    return None;
                }
                pert += 2.0 * ds / s + 2.0 * d * d * ds / (s * s) + 2.0 * (2.0 * d.abs() * d_theta + d_theta * d_theta) / s;
            }
        }
        if !v.is_finite() || !pert.is_finite() {
            return None;
        }
        out.insert(*k, (v, rel * (1.0 + mag) + 2.0 * pert));
    }
    Some(out)
}

struct GaussRef {
    /// textbook: per class (mean, population variance + eps_all)
    textbook: BTreeMap<u8, Stats>,
    /// the value linfa's (and scikit-learn's) recurrence produces: the epsilon of the *current*
    /// batch is subtracted from variances that carry the epsilon of the *previous* batch
    recurrence: BTreeMap<u8, Vec<f64>>,
}

fn gaussian_reference(c: &NbCase, sh: &Shape) -> GaussRef {
    let n = sh.n;
    let p = sh.p;
    let all_rows: Vec<&Vec<f64>> = c.x.iter().collect();
    let eps_all = c.smoothing * max_of(&col_var(&all_rows, p));
    let mut textbook = BTreeMap::new();
    for k in present_classes(c, 0..n) {
        let rows = rows_of_class(c, k, 0..n);
        let mean = col_mean(&rows, p);
        let var: Vec<f64> = col_var(&rows, p).iter().map(|v| v + eps_all).collect();
        textbook.insert(k, Stats { count: rows.len(), prior: rows.len() as f64 / n as f64, a: mean, b: var });
    }
    // replay of the recurrence  sigma_k = pool(sigma_{k-1} - eps_k, batch_k) + eps_k
    let mut state: BTreeMap<u8, (usize, Vec<f64>, Vec<f64>)> = BTreeMap::new();
    for r in batch_ranges(c) {
        let rows: Vec<&Vec<f64>> = r.clone().map(|i| &c.x[i]).collect();
        let eps = c.smoothing * max_of(&col_var(&rows, p));
        for (_, st) in state.iter_mut() {
            for v in st.2.iter_mut() {
                *v -= eps;
            }
        }
        for k in present_classes(c, r.clone()) {
            let rows = rows_of_class(c, k, r.clone());
            let n_new = rows.len();
            let mu_new = col_mean(&rows, p);
            let var_new = col_var(&rows, p);
            let st = state.entry(k).or_insert((0, vec![], vec![]));
            if st.0 == 0 {
                *st = (n_new, mu_new, var_new);
            } else {
                let n_old = st.0;
                let tot = (n_old + n_new) as f64;
                let mut mu = vec![0.0; p];
                let mut var = vec![0.0; p];
                for j in 0..p {
                    mu[j] = (mu_new[j] * n_new as f64 + st.1[j] * n_old as f64) / tot;
                    let w = (n_new * n_old) as f64 / tot;
                    let d = st.1[j] - mu_new[j];
                    var[j] = (st.2[j] * n_old as f64 + var_new[j] * n_new as f64 + w * d * d) / tot;
                }
                *st = (n_old + n_new, mu, var);
            }
        }
        for (_, st) in state.iter_mut() {
            for v in st.2.iter_mut() {
                *v += eps;
            }
        }
    }
    let recurrence = state.into_iter().map(|(k, st)| (k, st.2)).collect();
    GaussRef { textbook, recurrence }
}

/// Returns (moments ok, known epsilon-recurrence deviation seen).
fn check_gaussian_moments(
    c: &NbCase,
    sh: &Shape,
    got: &BTreeMap<u8, Stats>,
    reference: &GaussRef,
    incremental: bool,
    obs: &mut Obs,
    tag: &str,
    t: &GTol,
) -> (bool, bool) {
    let mut ok = true;
    let mut known = false;
    for (k, want) in &reference.textbook {
        let Some(st) = got.get(k) else { continue };
        if st.a.len() != sh.p || st.b.len() != sh.p {
            obs.fail(format!("{tag}-shape"), format!("class {k}: theta/sigma have lengths {}/{} for {} features", st.a.len(), st.b.len(), sh.p));
            ok = false;
            continue;
        }
        for j in 0..sh.p {
            let tol_theta = t.theta.get(j).cloned().unwrap_or(0.0);
            let tol_sigma0 = t.sigma0.get(j).cloned().unwrap_or(0.0);
            ok &= obs.ensure((st.a[j] - want.a[j]).abs() <= tol_theta, &format!("{tag}-theta"), || {
                format!("class {k} feature {j}: mean {} but the class mean of the data is {}", st.a[j], want.a[j])
            });
            let tol = tol_sigma0 + t.rel * want.b[j].abs();
            let d_text = (st.b[j] - want.b[j]).abs();
            if d_text <= tol {
                continue;
            }
            ok = false;
            let rec = reference.recurrence.get(k).and_then(|v| v.get(j)).cloned();
            match rec {
                Some(r) if incremental && (st.b[j] - r).abs() <= tol + t.rel * r.abs() => {
                    known = true;
                    obs.fail(
                        format!("{tag}-sigma-epsilon-recurrence"),
                        format!(
                            "class {k} feature {j}: after {} batches sigma = {} ; one fit on the same rows gives variance + var_smoothing*max-variance = {} ; \
                             the value equals the recurrence sigma_k = pool(sigma_(k-1) - eps_k, batch_k) + eps_k (eps of the current batch subtracted from a variance carrying the previous batch's eps) = {}",
                            c.sizes.len(), st.b[j], want.b[j], r
                        ),
                    );
                }
                _ => {
                    obs.fail(
                        format!("{tag}-sigma"),
                        format!(
                            "class {k} feature {j}: sigma {} but population variance + smoothing term of the data is {} (tolerance {tol:e}; epsilon-recurrence value {:?})",
                            st.b[j], want.b[j], rec
                        ),
                    );
                }
            }
        }
    }
    (ok, known)
}

/// global tolerances of the narrow stratum (all features share one scale)
fn narrow_tol(sh: &Shape) -> GTol {
    GTol {
        theta: vec![TOL_THETA * sh.xmax + 1e-300; sh.p],
        sigma0: vec![TOL_SIGMA * (sh.xmax * sh.spread + sh.spread * sh.spread) + 1e-300; sh.p],
        rel: 1e-12,
        margin: TOL_MARGIN,
        cross: CROSS_MARGIN,
    }
}

fn run_gaussian<F: Flt, L: Lab>(c: &NbCase, sh: &Shape, obs: &mut Obs, tol: &GTol) {
    let (x, y, q) = to_arrays::<F, L>(c, sh);
    let reference = gaussian_reference(c, sh);
    let nq = q.nrows();
    let ql = Laid::new(c.fit_layout, nq, sh.p, F::nan(), |i, j| q[[i, j]]);
    let qrows: Vec<usize> = (0..nq).collect();
    let qvec = |r: usize| -> Vec<f64> { q.row(r).iter().map(|v| f64_of(*v)).collect() };

    // ---- one fit on everything
    let ds = DatasetBase::new(x.view(), y.view());
    let params = GaussianNb::<F, L>::params().var_smoothing(F::cast(c.smoothing));
    let fitted = match obs.call("gnb-fit", || params.fit(&ds)) {
        Some(Ok(m)) => Some(m),
        Some(Err(e)) => {
            obs.fail("gnb:fit-error", format!("fit returned an error on valid data: {e}"));
            None
        }
        None => None,
    };

    // ---- batch by batch
    let checked = match GaussianNb::<F, L>::params().var_smoothing(F::cast(c.smoothing)).check() {
        Ok(p) => p,
        Err(e) => {
            obs.fail("gnb:params-rejected", format!("var_smoothing {} rejected: {e}", c.smoothing));
            return;
        }
    };
    let mut model = None;
    let mut broken = false;
    for (bi, r) in batch_ranges(c).into_iter().enumerate() {
        let xb = batch_records::<F>(c, sh, bi, &r);
        let yb = y.slice(s![r.clone()]);
        let dsb = DatasetBase::new(xb.view(), yb);
        let prev = model.take();
        match obs.call("gnb-fit_with", || checked.fit_with(prev, &dsb)) {
            Some(Ok(Some(m))) => model = Some(m),
            Some(Ok(None)) => {
                obs.fail("gnb:fit_with-none", format!("fit_with returned no model after batch {bi}"));
                broken = true;
                break;
            }
            Some(Err(e)) => {
                obs.fail("gnb:fit_with-error", format!("fit_with returned an error on batch {bi}: {e}"));
                broken = true;
                break;
            }
            None => {
                broken = true;
                break;
            }
        }
    }
    let incremental = if broken { None } else { model };

    let degenerate = reference.textbook.values().any(|s| s.b.iter().any(|v| !(*v > 0.0)));
    obs.class_if(degenerate, "zero_variance_unsmoothed");

    // ---- statistics + predictions of the batch model
    let mut fit_stats = None;
    if let Some(m) = &fitted {
        if let Some(st) = window::<F, L, _>(m, obs, "gnb:fit") {
            if check_counts(c, &st, obs, "gnb:fit", F::IS_F32) {
                check_gaussian_moments(c, sh, &st, &reference, false, obs, "gnb:fit", tol);
            }
            fit_stats = Some(st);
        }
    }
    let mut inc_stats = None;
    let mut known = false;
    if let Some(m) = &incremental {
        if let Some(st) = window::<F, L, _>(m, obs, "gnb:inc") {
            if check_counts(c, &st, obs, "gnb:inc", F::IS_F32) {
                let (_, k) = check_gaussian_moments(c, sh, &st, &reference, true, obs, "gnb:inc", tol);
                known = k;
            }
            inc_stats = Some(st);
        }
    }
    obs.class_if(known, "epsilon_recurrence_deviation");

    if degenerate {
        // a class has a zero variance and no smoothing: the Gaussian density is undefined there
        return;
    }
    let textbook = &reference.textbook;
    for (which, m, st) in [("fit", &fitted, &fit_stats), ("inc", &incremental, &inc_stats)] {
        let (Some(m), Some(st)) = (m, st) else { continue };
        if st.values().any(|s| s.b.iter().any(|v| !(*v > 0.0) || !v.is_finite())) {
            continue;
        }
        let Some(pred) = obs.call(if which == "fit" { "gnb-predict-fit" } else { "gnb-predict-inc" }, || m.predict(&ql.view())) else {
            continue;
        };
        let preds: Vec<Option<u8>> = pred.iter().map(class_of).collect();
        if preds.len() != nq {
            obs.fail(format!("gnb:{which}-pred-len"), format!("{} predictions for {nq} rows", preds.len()));
            continue;
        }
        // always maximises the posterior recomputed from the model's own statistics
        check_argmax(&preds, &qrows, &|r| gaussian_jll(st, &qvec(r), tol.margin, None), false, obs, &format!("gnb:{which}-pred-not-argmax"));
        // equals the textbook arg-max (hence fit == fit_with) wherever that is not tied
        if which == "inc" && known {
            obs.class("pred_vs_textbook_skipped_known_sigma");
            continue;
        }
        check_argmax(&preds, &qrows, &|r| gaussian_jll(textbook, &qvec(r), tol.cross, Some(tol)), true, obs, &format!("gnb:{which}-pred-vs-textbook"));
    }
}

// ------------------------------------------------------------------------------------------------
// multinomial

/// log-posterior with the convention 0 * ln 0 = 0 (a feature that does not occur contributes nothing)
fn multinomial_jll(stats: &BTreeMap<u8, Stats>, x: &[f64], rel: f64) -> Option<BTreeMap<u8, (f64, f64)>> {
    let mut out = BTreeMap::new();
    for (k, st) in stats {
        if st.b.len() != x.len() {
            return None;
        }
        let mut v = st.prior.ln();
        let mut mag = v.abs();
        for j in 0..x.len() {
            if x[j] == 0.0 {
                continue;
            }
            let lp = st.b[j];
            if lp.is_nan() {
                return None;
            }
            v += x[j] * lp;
            if lp.is_finite() {
                mag += (x[j] * lp).abs();
            }
        }
        if v.is_nan() || v == f64::INFINITY {
            return None;
        }
        out.insert(*k, (v, rel * (1.0 + mag)));
    }
    Some(out)
}

/// linfa computes x . feature_log_prob: a row with x_j = 0 where some class has ln p_j = -inf (or NaN) yields NaN
fn nan_prone(stats: &BTreeMap<u8, Stats>, x: &[f64]) -> bool {
    stats.values().any(|st| {
        st.b.iter().zip(x).any(|(lp, v)| lp.is_nan() || (*v == 0.0 && lp.is_infinite()))
            || st.b.iter().zip(x).any(|(lp, v)| *v != 0.0 && *lp == f64::INFINITY)
    })
}

fn multinomial_reference(c: &NbCase, sh: &Shape) -> BTreeMap<u8, Stats> {
    let mut out = BTreeMap::new();
    for k in present_classes(c, 0..sh.n) {
        let rows = rows_of_class(c, k, 0..sh.n);
        let mut cnt = vec![0.0; sh.p];
        for r in &rows {
            for j in 0..sh.p {
                cnt[j] += r[j];
            }
        }
        let total: f64 = cnt.iter().map(|v| v + c.smoothing).sum();
        let lp: Vec<f64> = cnt.iter().map(|v| ((v + c.smoothing) / total).ln()).collect();
        out.insert(k, Stats { count: rows.len(), prior: rows.len() as f64 / sh.n as f64, a: cnt, b: lp });
    }
    out
}

fn check_multinomial_stats(sh: &Shape, got: &BTreeMap<u8, Stats>, want: &BTreeMap<u8, Stats>, obs: &mut Obs, tag: &str) {
    for (k, w) in want {
        let Some(st) = got.get(k) else { continue };
        if st.a.len() != sh.p || st.b.len() != sh.p {
            obs.fail(format!("{tag}-shape"), format!("class {k}: feature_count/feature_log_prob have lengths {}/{} for {} features", st.a.len(), st.b.len(), sh.p));
            continue;
        }
        // counts are sums of small integers: exact
        obs.ensure(st.a == w.a, &format!("{tag}-feature-count"), || {
            format!("class {k}: feature_count {:?} but the column sums of the class rows are {:?}", st.a, w.a)
        });
        for j in 0..sh.p {
            let (g, r) = (st.b[j], w.b[j]);
            if r.is_nan() {
                // 0/0: no smoothing and the class never saw any feature; the estimate is undefined
                obs.class("undefined_unsmoothed_estimate");
                continue;
            }
            let same = if r.is_infinite() { g == r } else { (g - r).abs() <= TOL_LOGP * (1.0 + r.abs()) };
            obs.ensure(same, &format!("{tag}-feature-log-prob"), || {
                format!("class {k} feature {j}: feature_log_prob {g} but ln((count+alpha)/sum(count+alpha)) = {r}")
            });
        }
    }
}

fn run_multinomial<L: Lab>(c: &NbCase, sh: &Shape, obs: &mut Obs) {
    if c.x.iter().flatten().chain(c.queries.iter().flatten()).any(|v| *v < 0.0 || v.fract() != 0.0) {
        obs.skip("not_count_valued");
        return;
    }
    let (x, y, q) = to_arrays::<f64, L>(c, sh);
    let reference = multinomial_reference(c, sh);
    let nq = q.nrows();
    let qvec = |r: usize| -> Vec<f64> { q.row(r).to_vec() };

    let ds = DatasetBase::new(x.view(), y.view());
    let params = MultinomialNb::<f64, L>::params().alpha(c.smoothing);
    let fitted = match obs.call("mnb-fit", || params.fit(&ds)) {
        Some(Ok(m)) => Some(m),
        Some(Err(e)) => {
            obs.fail("mnb:fit-error", format!("fit returned an error on valid data: {e}"));
            None
        }
        None => None,
    };

    let checked = match MultinomialNb::<f64, L>::params().alpha(c.smoothing).check() {
        Ok(p) => p,
        Err(e) => {
            obs.fail("mnb:params-rejected", format!("alpha {} rejected: {e}", c.smoothing));
            return;
        }
    };
    let mut model = None;
    let mut broken = false;
    for (bi, r) in batch_ranges(c).into_iter().enumerate() {
        let xb = batch_records::<f64>(c, sh, bi, &r);
        let yb = y.slice(s![r.clone()]);
        let dsb = DatasetBase::new(xb.view(), yb);
        let prev = model.take();
        match obs.call("mnb-fit_with", || checked.fit_with(prev, &dsb)) {
            Some(Ok(Some(m))) => model = Some(m),
            Some(Ok(None)) => {
                obs.fail("mnb:fit_with-none", format!("fit_with returned no model after batch {bi}"));
                broken = true;
                break;
            }
            Some(Err(e)) => {
                obs.fail("mnb:fit_with-error", format!("fit_with returned an error on batch {bi}: {e}"));
                broken = true;
                break;
            }
            None => {
                broken = true;
                break;
            }
        }
    }
    let incremental = if broken { None } else { model };

    for (which, m) in [("fit", &fitted), ("inc", &incremental)] {
        let Some(m) = m else { continue };
        let tag = format!("mnb:{which}");
        let Some(st) = window::<f64, L, _>(m, obs, &tag) else { continue };
        if check_counts(c, &st, obs, &tag, false) {
            check_multinomial_stats(sh, &st, &reference, obs, &tag);
        }
        if st.values().any(|s| s.b.len() != sh.p) {
            continue;
        }
        if st.values().any(|s| s.b.iter().any(|v| v.is_nan())) || reference.values().any(|s| s.b.iter().any(|v| v.is_nan())) {
            // an undefined (0/0) estimate: the posterior is undefined as well
            obs.class("predictions_not_judged_undefined_estimate");
            continue;
        }
        // rows on which linfa's dot product meets 0 * -inf (only possible without smoothing)
        let clean: Vec<usize> = (0..nq).filter(|r| !nan_prone(&st, &qvec(*r))).collect();
        let prone: Vec<usize> = (0..nq).filter(|r| nan_prone(&st, &qvec(*r))).collect();
        obs.class_if(!prone.is_empty(), "unsmoothed_unseen_feature_rows");
        for (rows, is_prone) in [(&clean, false), (&prone, true)] {
            if rows.is_empty() {
                continue;
            }
            let subl = Laid::new(c.fit_layout, rows.len(), sh.p, f64::NAN, |i, j| q[[rows[i], j]]);
            let sub = subl.view();
            let pred = if is_prone {
                match vengine::guard(|| m.predict(&sub)) {
                    Ok(p) => p,
                    Err(e) => {
                        obs.fail(
                            "mnb:predict-panic-unsmoothed-unseen-feature",
                            format!(
                                "[{which}] predict panicked ({e}) on a row with a zero entry for a feature whose unsmoothed (alpha = 0) probability in some class is 0: \
                                 0 * ln 0 is evaluated as NaN instead of 0; first such row {:?}",
                                qvec(rows[0])
                            ),
                        );
                        continue;
                    }
                }
            } else {
                match obs.call(if which == "fit" { "mnb-predict-fit" } else { "mnb-predict-inc" }, || m.predict(&sub)) {
                    Some(p) => p,
                    None => continue,
                }
            };
            let preds: Vec<Option<u8>> = pred.iter().map(class_of).collect();
            if preds.len() != rows.len() {
                obs.fail(format!("mnb:{which}-pred-len"), format!("{} predictions for {} rows", preds.len(), rows.len()));
                continue;
            }
            check_argmax(&preds, rows, &|r| multinomial_jll(&st, &qvec(r), TOL_MARGIN), false, obs, &format!("mnb:{which}-pred-not-argmax"));
            check_argmax(&preds, rows, &|r| multinomial_jll(&reference, &qvec(r), CROSS_MARGIN), true, obs, &format!("mnb:{which}-pred-vs-textbook"));
        }
    }
}

pub fn check(c: &NbCase, obs: &mut Obs) {
    let Some(sh) = shape(c) else {
        obs.skip("malformed_case");
        return;
    };
    classify(c, obs);
    match (c.kind, c.string_labels) {
        (Kind::Gaussian, false) => run_gaussian::<f64, usize>(c, &sh, obs, &narrow_tol(&sh)),
        (Kind::Gaussian, true) => run_gaussian::<f64, String>(c, &sh, obs, &narrow_tol(&sh)),
        (Kind::Multinomial, false) => run_multinomial::<usize>(c, &sh, obs),
        (Kind::Multinomial, true) => run_multinomial::<String>(c, &sh, obs),
    }
}

// ------------------------------------------------------------------------------------------------
// generator

#[derive(Debug, Clone)]
struct Meta {
    kind: Kind,
    n: usize,
    p: usize,
    ncls: usize,
    label_mode: u8,
    data_mode: u8,
    cut_threshold: u16,
    smoothing: f64,
    string_labels: bool,
    fit_layout: Layout,
    batch_layouts: Vec<Layout>,
}

fn cell(kind: Kind, data_mode: u8) -> BoxedStrategy<f64> {
    match kind {
        Kind::Gaussian => match data_mode {
            2 => small_int_f64(-3, 3).boxed(),
            _ => gauss().boxed(),
        },
        Kind::Multinomial => match data_mode {
            1 => prop_oneof![4 => Just(0.0), 1 => small_int_f64(1, 3)].boxed(),
            2 => small_int_f64(0, 200).boxed(),
            _ => small_int_f64(0, 5).boxed(),
        },
    }
}

fn build(m: Meta, labels: Vec<u16>, mut x: Vec<Vec<f64>>, cuts: Vec<u16>, mut queries: Vec<Vec<f64>>) -> NbCase {
    let n = m.n;
    // labels: every class occurs, then the ordering mode
    let mut y: Vec<u8> = labels.iter().enumerate().map(|(i, l)| if i < m.ncls { i as u8 } else { idx(*l, m.ncls) as u8 }).collect();
    match m.label_mode {
        1 => y.sort_unstable(),
        2 => {
            // the last class occurs exactly once
            let rare = (m.ncls - 1) as u8;
            for (i, v) in y.iter_mut().enumerate() {
                if *v == rare {
                    *v = idx(labels[i], m.ncls - 1) as u8;
                }
            }
            let pos = idx(labels[0], n);
            y[pos] = rare;
            // keep the other classes alive
            for k in 0..(m.ncls - 1) {
                if !y.iter().any(|v| *v as usize == k) {
                    let at = (pos + 1 + k) % n;
                    y[at] = k as u8;
                }
            }
        }
        3 => {
            y.sort_unstable();
            y.reverse();
        }
        _ => {}
    }
    // data
    let transform = |rows: &mut Vec<Vec<f64>>, ys: Option<&Vec<u8>>| {
        for (i, r) in rows.iter_mut().enumerate() {
            for (j, v) in r.iter_mut().enumerate() {
                match (m.kind, m.data_mode) {
                    (Kind::Gaussian, 1) => *v = *v * 1e-3 + 1000.0,
                    (Kind::Gaussian, 3) => *v *= 1e3,
                    (Kind::Gaussian, 4) => {
                        // well separated class means
                        if let Some(ys) = ys {
                            *v += 4.0 * ys[i] as f64 * if j % 2 == 0 { 1.0 } else { -1.0 };
                        }
                    }
                    (Kind::Gaussian, 5) => {
                        // first column constant
                        if j == 0 {
                            *v = 2.5;
                        }
                    }
                    (Kind::Multinomial, 3) => {
                        // the class shows in "its" column
                        if let Some(ys) = ys {
                            if j == ys[i] as usize % m.p {
                                *v += 6.0;
                            }
                        }
                    }
                    (Kind::Multinomial, 4) => {
                        // an all-zero column
                        if j == 0 {
                            *v = 0.0;
                        }
                    }
                    _ => {}
                }
            }
        }
    };
    transform(&mut x, Some(&y));
    transform(&mut queries, None);
    // composition of n: cut after row i when its key is below the threshold
    let mut sizes = vec![];
    let mut cur = 1;
    for i in 0..n.saturating_sub(1) {
        if (cuts[i] as u32) < m.cut_threshold as u32 {
            sizes.push(cur);
            cur = 1;
        } else {
            cur += 1;
        }
    }
    sizes.push(cur);
    NbCase { kind: m.kind, string_labels: m.string_labels, x, y, sizes, smoothing: m.smoothing, queries, fit_layout: m.fit_layout, batch_layouts: m.batch_layouts }
}

pub fn strategy(kind: Kind, tier: Tier) -> impl Strategy<Value = NbCase> {
    let max_n = tier.pick(60usize, 60usize);
    let meta = (
        4..=max_n,
        1usize..=4,
        2usize..=4,
        0u8..4,
        0u8..6,
        prop_oneof![
            1 => Just(0u16),      // one batch
            2 => Just(8u16),      // few batches
            3 => Just(40u16),
            2 => Just(128u16),
            1 => Just(256u16),    // every row its own batch
        ],
        proptest::sample::select(SMOOTHINGS.to_vec()),
        any::<bool>(),
        layout::one(),
        layout::list(),
    )
        .prop_map(move |(n, p, ncls, label_mode, data_mode, cut_threshold, smoothing, string_labels, fit_layout, batch_layouts)| Meta {
            kind,
            n,
            p,
            ncls,
            label_mode,
            data_mode,
            cut_threshold,
            smoothing,
            string_labels,
            fit_layout,
            batch_layouts,
        });
    meta.prop_flat_map(|m| {
        let c = cell(m.kind, m.data_mode);
        (
            Just(m.clone()),
            proptest::collection::vec(any::<u16>(), m.n),
            proptest::collection::vec(proptest::collection::vec(c.clone(), m.p), m.n),
            proptest::collection::vec(0u16..256, m.n - 1),
            proptest::collection::vec(proptest::collection::vec(c, m.p), 0..=3),
        )
    })
    .prop_map(|(m, labels, x, cuts, queries)| build(m, labels, x, cuts, queries))
}

// ------------------------------------------------------------------------------------------------
// wide stratum: many features, per-feature scales 10^s, f32 and f64 element types
//
// The data are derived from one generated seed (SplitMix) so the stored case stays small. This is
// where a log-normaliser computed as ln(prod_j 2 pi sigma_j) instead of sum_j ln(2 pi sigma_j)
// under-/overflows; the reference posterior is a sum of logarithms in f64.

/// feature counts of the wide stratum: around the lane / block widths 4, 8, 16, 32, 64, 128 (multiples, +-1, odd sizes)
pub const WIDE_P: [usize; 20] = [5, 6, 7, 8, 9, 11, 13, 15, 16, 17, 30, 31, 33, 63, 64, 65, 100, 127, 128, 129];
pub const WIDE_EXPONENTS: [i8; 5] = [-3, -2, 0, 2, 3];
/// f32 models: theta within 1e-5*max|x_j|, sigma within 1e-4*(max|x_j|*spread_j + spread_j^2) + 1e-5*|sigma|
pub const TOL_THETA_F32: f64 = 1e-5;
pub const TOL_SIGMA_F32: f64 = 1e-4;
pub const TOL_REL_F32: f64 = 1e-5;
pub const TOL_MARGIN_F32: f64 = 1e-4;
pub const CROSS_MARGIN_F32: f64 = 1e-3;

#[derive(Debug, Clone, Serialize, Deserialize)]
pub struct WideCase {
    pub kind: Kind,
    /// instantiate the model with f32 (Gaussian only)
    pub f32_model: bool,
    pub string_labels: bool,
    pub p: usize,
    /// Some(s): every feature has scale 10^s; None: every feature draws its own exponent from the seed
    pub exponent: Option<i8>,
    /// rows of every class (each >= 2)
    pub rows_per_class: Vec<usize>,
    /// rows ordered in class blocks instead of shuffled
    pub blocks: bool,
    /// cut after row i (first n-1 entries are used)
    pub cuts: Vec<bool>,
    pub smoothing: f64,
    pub n_queries: usize,
    pub seed: u64,
    #[serde(default)]
    pub fit_layout: Layout,
    #[serde(default)]
    pub batch_layouts: Vec<Layout>,
}

fn c_p_of(w: &WideCase) -> usize {
    w.p
}

fn derive_wide(w: &WideCase) -> Option<(NbCase, Vec<i8>)> {
    use vengine::gen::SplitMix;
    let ncls = w.rows_per_class.len();
    if !(1..=8).contains(&ncls) || w.p == 0 || w.p > 4096 || w.rows_per_class.iter().any(|r| *r == 0 || *r > 64) || w.n_queries > 16 {
        return None;
    }
    let mut rng = SplitMix(w.seed);
    let exps: Vec<i8> = (0..w.p)
        .map(|_| {
            let own = WIDE_EXPONENTS[rng.below(WIDE_EXPONENTS.len())];
            w.exponent.unwrap_or(own)
        })
        .collect();
    let round = |v: f64| if w.f32_model { v as f32 as f64 } else { v };
    let mut y: Vec<u8> = vec![];
    for (k, r) in w.rows_per_class.iter().enumerate() {
        y.extend(std::iter::repeat(k as u8).take(*r));
    }
    let n = y.len();
    if !w.blocks {
        // Fisher-Yates
        for i in (1..n).rev() {
            let j = rng.below(i + 1);
            y.swap(i, j);
        }
    }
    let (x, queries): (Vec<Vec<f64>>, Vec<Vec<f64>>) = match w.kind {
        Kind::Gaussian => {
            let centres: Vec<Vec<f64>> = (0..ncls)
                .map(|_| (0..w.p).map(|j| 3.0 * rng.gauss() * 10f64.powi(exps[j] as i32)).collect())
                .collect();
            let mut row = |k: usize, spread: f64| -> Vec<f64> {
                (0..w.p).map(|j| round(centres[k][j] + spread * rng.gauss() * 10f64.powi(exps[j] as i32))).collect()
            };
            let x = y.iter().map(|k| row(*k as usize, 1.0)).collect();
            let q = (0..w.n_queries).map(|i| row(i % ncls, 1.5)).collect();
            (x, q)
        }
        Kind::Multinomial => {
            // feature j is frequent in class j mod ncls, rare elsewhere; every eighth feature never occurs
            let mut row = |k: usize| -> Vec<f64> {
                (0..w.p)
                    .map(|j| {
                        if j % 8 == 7 {
                            0.0
                        } else if j % ncls == k {
                            rng.below(9) as f64
                        } else {
                            (rng.below(4) / 2) as f64
                        }
                    })
                    .collect()
            };
            let x = y.iter().map(|k| row(*k as usize)).collect();
            let q = (0..w.n_queries).map(|i| row(i % ncls)).collect();
            (x, q)
        }
    };
    let mut sizes = vec![];
    let mut cur = 1;
    for i in 0..n.saturating_sub(1) {
        if w.cuts.get(i).cloned().unwrap_or(false) {
            sizes.push(cur);
            cur = 1;
        } else {
            cur += 1;
        }
    }
    sizes.push(cur);
    Some((
        NbCase {
            kind: w.kind,
            string_labels: w.string_labels,
            x,
            y,
            sizes,
            smoothing: w.smoothing,
            queries,
            fit_layout: w.fit_layout,
            batch_layouts: w.batch_layouts.clone(),
        },
        exps,
    ))
}

/// per-feature tolerances (the features have very different scales)
fn wide_tol(c: &NbCase, sh: &Shape, f32_model: bool) -> GTol {
    let (t_theta, t_sigma, rel, margin, cross) = if f32_model {
        (TOL_THETA_F32, TOL_SIGMA_F32, TOL_REL_F32, TOL_MARGIN_F32, CROSS_MARGIN_F32)
    } else {
        (TOL_THETA, TOL_SIGMA, 1e-12, TOL_MARGIN, CROSS_MARGIN)
    };
    let mut theta = vec![];
    let mut sigma0 = vec![];
    for j in 0..sh.p {
        let lo = c.x.iter().map(|r| r[j]).fold(f64::INFINITY, f64::min);
        let hi = c.x.iter().map(|r| r[j]).fold(f64::NEG_INFINITY, f64::max);
        let xmax = lo.abs().max(hi.abs());
        let spread = hi - lo;
        theta.push(t_theta * xmax + 1e-300);
        sigma0.push(t_sigma * (xmax * spread + spread * spread) + 1e-300);
    }
    GTol { theta, sigma0, rel, margin, cross }
}

pub fn check_wide(w: &WideCase, obs: &mut Obs) {
    let Some((c, exps)) = derive_wide(w) else {
        obs.skip("malformed_case");
        return;
    };
    let Some(sh) = shape(&c) else {
        obs.skip("malformed_case");
        return;
    };
    classify(&c, obs);
    obs.class(match w.p {
        0..=8 => "wide_p_8",
        9..=16 => "wide_p_16",
        17..=64 => "wide_p_64",
        _ => "wide_p_128",
    });
    obs.class_if(c_p_of(w) % 4 != 0, "wide_p_not_multiple_of_4");
    obs.class_if(c_p_of(w) % 8 != 0, "wide_p_not_multiple_of_8");
    obs.class_if(w.f32_model, "wide_f32_model");
    obs.class_if(!w.f32_model, "wide_f64_model");
    obs.class_if(w.exponent.is_none(), "wide_mixed_feature_scales");
    obs.class_if(matches!(w.exponent, Some(e) if e < 0), "wide_all_features_small_scale");
    obs.class_if(matches!(w.exponent, Some(e) if e > 0), "wide_all_features_large_scale");
    let _ = exps;
    match w.kind {
        Kind::Gaussian => {
            // where would prod_j 2 pi sigma_cj leave the range of the element type?
            let reference = gaussian_reference(&c, &sh);
            let limit = if w.f32_model { 37.0 } else { 307.0 };
            let mut under = false;
            let mut over = false;
            for st in reference.textbook.values() {
                let l10: f64 = st.b.iter().map(|s| (2.0 * std::f64::consts::PI * s).log10()).sum();
                under |= l10 < -limit;
                over |= l10 > limit;
            }
            obs.class_if(under, "wide_normaliser_product_below_float_range");
            obs.class_if(over, "wide_normaliser_product_above_float_range");
            let tol = wide_tol(&c, &sh, w.f32_model);
            match (w.f32_model, w.string_labels) {
                (false, false) => run_gaussian::<f64, usize>(&c, &sh, obs, &tol),
                (false, true) => run_gaussian::<f64, String>(&c, &sh, obs, &tol),
                (true, false) => run_gaussian::<f32, usize>(&c, &sh, obs, &tol),
                (true, true) => run_gaussian::<f32, String>(&c, &sh, obs, &tol),
            }
        }
        Kind::Multinomial => {
            if w.string_labels {
                run_multinomial::<String>(&c, &sh, obs)
            } else {
                run_multinomial::<usize>(&c, &sh, obs)
            }
        }
    }
}

pub fn strategy_wide(kind: Kind, _tier: Tier) -> impl Strategy<Value = WideCase> {
    let smoothing = match kind {
        Kind::Gaussian => Just(1e-9).boxed(),
        Kind::Multinomial => proptest::sample::select(vec![0.0, 1e-3, 1.0]).boxed(),
    };
    (
        proptest::sample::select(WIDE_P.to_vec()),
        prop_oneof![
            3 => proptest::sample::select(WIDE_EXPONENTS.to_vec()).prop_map(Some),
            2 => Just(None),
        ],
        proptest::collection::vec(2usize..=5, 2..=3),
        any::<bool>(),
        proptest::collection::vec(proptest::bool::weighted(0.3), 14),
        smoothing,
        0usize..=3,
        any::<u64>(),
        any::<bool>(),
        any::<bool>(),
        (layout::one(), layout::list()),
    )
        .prop_map(move |(p, exponent, rows_per_class, blocks, cuts, smoothing, n_queries, seed, f32_model, string_labels, (fit_layout, batch_layouts))| WideCase {
            kind,
            f32_model: f32_model && kind == Kind::Gaussian,
            string_labels,
            p,
            exponent: if kind == Kind::Gaussian { exponent } else { Some(0) },
            rows_per_class,
            blocks,
            cuts,
            smoothing,
            n_queries,
            seed,
            fit_layout,
            batch_layouts,
        })
}
