use linfa::prelude::*;
use linfa::traits::{Fit, FitWith, Predict};
use linfa_bayes::{GaussianNb, MultinomialNb};
use linfa_clustering::{KMeans, KMeansInit, IncrKMeansError};
use ndarray::{array, Array1, Array2};

fn main() {
    let x = array![[-2., -1.], [-1., -1.], [-1., -2.], [1., 1.], [1., 2.], [2., 1.]];
    let y = array![1usize, 1, 1, 2, 2, 2];
    let ds = DatasetView::new(x.view(), y.view());
    let m = GaussianNb::params().var_smoothing(0.1).fit(&ds).unwrap();
    println!("{}", serde_json::to_string(&m).unwrap());
    let ys: Array1<String> = y.mapv(|v| format!("c{v}"));
    let ds2 = DatasetBase::new(x.clone(), ys);
    let m2 = GaussianNb::params().fit(&ds2).unwrap();
    println!("{}", serde_json::to_string(&m2).unwrap());
    let p = m2.predict(&x);
    println!("{:?}", p);

    let xc = array![[1., 0.], [2., 0.], [3., 0.], [0., 1.], [0., 2.], [0., 3.]];
    let dsm = DatasetView::new(xc.view(), y.view());
    let mm = MultinomialNb::params().alpha(0.0).fit(&dsm).unwrap();
    println!("{}", serde_json::to_string(&mm).unwrap());
    let r = std::panic::catch_unwind(|| mm.predict(&xc));
    println!("alpha0 predict: {:?}", r.map(|a| a.to_vec()));
    let mm1 = MultinomialNb::params().alpha(0.0).check().unwrap();
    let r = mm1.fit_with(None, &dsm).unwrap().unwrap();
    println!("{}", serde_json::to_string(&r).unwrap());

    // kmeans
    let obs = array![[0., 0.], [1., 1.], [10., 10.], [11., 11.]];
    let params = KMeans::params(2).init_method(KMeansInit::Precomputed(array![[0., 0.], [10., 10.]])).tolerance(1e-2);
    let d = DatasetBase::from(obs.clone());
    let r = params.fit_with(None, &d);
    match r {
        Ok(m) => println!("ok {}", serde_json::to_string(&m).unwrap()),
        Err(IncrKMeansError::NotConverged(m)) => println!("nc {}", serde_json::to_string(&m).unwrap()),
        Err(e) => println!("err {e}"),
    }
    let _ = Array2::<f64>::zeros((1, 1));
}
