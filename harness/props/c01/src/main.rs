fn main() {
    vengine::main(c01::property())
}
