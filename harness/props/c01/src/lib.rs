//! C01 — k-fold splitting partitions the samples and leaves the dataset intact.
//!
//! Every row carries an identity tag (`records[i,j] = 8 i + j`, `targets[i,c] = 1000 i + c`), so
//! multisets, order and record–target attachment are decided exactly. The reference folds are
//! computed by the harness' own index arithmetic, never through `fold` itself.

use linfa::dataset::{AsTargets, DatasetBase};
use linfa::traits::{Fit, PredictInplace};
use ndarray::{Array1, Array2, ArrayBase, ArrayView2, Data, Dimension, Ix1, Ix2};
use proptest::prelude::*;
use serde::{Deserialize, Serialize};
use std::cell::{Cell, RefCell};
use vengine::gen::idx;
use vengine::{enum_sub, prop_sub, Obs, Property, Tier};

#[derive(Debug, thiserror::Error)]
pub enum MockError {
    #[error(transparent)]
    Linfa(#[from] linfa::Error),
}

#[derive(Debug, Clone, Serialize, Deserialize)]
pub struct Model {
    pub a: i8,
    pub b: i8,
    /// fold (0-based) at which `fit` fails
    pub fail_at: Option<u16>,
    /// the fitted model writes only the rows with an even sample index and leaves the other entries of the
    /// target buffer untouched (an abstaining predictor): they keep their `default_target` value
    #[serde(default)]
    pub partial: bool,
}

#[derive(Debug, Clone, Serialize, Deserialize)]
pub enum Eval {
    /// sum over validation rows of |prediction − truth| per target column
    AbsErr,
    /// a constant that differs per fold and per column
    FoldConst,
    /// fails at the given fold (mapped into 0..k), AbsErr elsewhere
    FailAt(u16),
    /// AbsErr, except that in target column `col % columns` the fold `fold` (mapped into 0..k) scores
    /// kind 0: +inf, 1: -inf, 2: NaN, 3: 1e300, 4: +1.5e308 there and -1.5e308 in the following fold (cyclically)
    Extreme { fold: u16, kind: u8, col: u8 },
}

/// The value an `Eval::Extreme` closure returns instead of the absolute error, if any.
fn extreme_override(eval: &Eval, k: usize, cols: usize, fold: usize, col: usize) -> Option<f64> {
    if let Eval::Extreme { fold: f, kind, col: cc } = eval {
        let f0 = idx(*f, k);
        if col != (*cc as usize) % cols.max(1) {
            return None;
        }
        match kind % 5 {
            0 => (fold == f0).then_some(f64::INFINITY),
            1 => (fold == f0).then_some(f64::NEG_INFINITY),
            2 => (fold == f0).then_some(f64::NAN),
            3 => (fold == f0).then_some(1e300),
            _ => {
                if fold == f0 {
                    Some(1.5e308)
                } else if fold == (f0 + 1) % k {
                    Some(-1.5e308)
                } else {
                    None
                }
            }
        }
    } else {
        None
    }
}

/// Equality of a reported mean with the reference mean: non-finite means must be the same non-finite value;
/// finite ones agree within 1e-9 relative to the largest fold score (the rounding of a k-term sum).
fn mean_matches(got: f64, want: f64, scale: f64) -> bool {
    if want.is_nan() {
        return got.is_nan();
    }
    if want.is_infinite() {
        return got == want;
    }
    got.is_finite() && (got - want).abs() <= 1e-9 + 1e-9 * scale.max(want.abs())
}

#[derive(Debug, Clone, Serialize, Deserialize)]
pub struct Case {
    pub n: usize,
    pub k: usize,
    pub p: usize,
    /// 0 = one-dimensional targets, otherwise number of target columns of a 2-D target array
    pub t: usize,
    /// operate on `ArrayViewMut`-backed dataset (views) instead of an owned one
    pub view: bool,
    pub models: Vec<Model>,
    pub eval: Eval,
    /// memory layout of records and 2-D targets: 0 = standard (row-major), 1 = column-major (Fortran order),
    /// 2 = rows reversed through a negative stride (view-backed datasets only, otherwise as 1)
    #[serde(default)]
    pub layout: u8,
    /// feature / target names: 0 = none, 1 = names for every feature and target column, 2 = feature names plus
    /// STALE target names (set for targets with one column more, then the targets were replaced through
    /// `with_targets`, which keeps the old names)
    #[serde(default)]
    pub names: u8,
}

fn name_list(prefix: &str, n: usize) -> Vec<String> {
    (0..n).map(|i| format!("{prefix}{i}")).collect()
}
/// Attach names as the case asks (see `Case::names`); every call used here is public API that does not panic.
fn named<R, T>(ds: DatasetBase<R, T>, c: &Case) -> DatasetBase<R, T>
where
    R: linfa::dataset::Records,
    T: linfa::dataset::AsTargets<Elem = f64>,
{
    use linfa::dataset::Records as _;
    match c.names {
        0 => ds,
        1 => {
            let (p, t) = (ds.nfeatures(), ds.ntargets());
            ds.with_feature_names(name_list("f", p)).with_target_names(name_list("t", t))
        }
        _ => {
            let (n, p, t) = (ds.nsamples(), ds.nfeatures(), ds.ntargets());
            let DatasetBase { records, targets, .. } = ds;
            DatasetBase::new(records, Array2::<f64>::zeros((n, t + 1)))
                .with_feature_names(name_list("f", p))
                .with_target_names(name_list("old", t + 1))
                .with_targets(targets)
        }
    }
}

fn rec(i: usize, j: usize) -> f64 {
    (8 * i + j) as f64
}
fn tgt(i: usize, c: usize) -> f64 {
    (1000 * i + c) as f64
}

fn make_records(n: usize, p: usize) -> Array2<f64> {
    Array2::from_shape_fn((n, p), |(i, j)| rec(i, j))
}
/// Same logical content in the given memory layout (1 = Fortran order; 2 = storage with the rows in
/// reverse order, to be viewed through `s![..;-1, ..]`).
fn make_records_l(n: usize, p: usize, layout: u8) -> Array2<f64> {
    use ndarray::ShapeBuilder;
    match layout {
        1 => Array2::from_shape_fn((n, p).f(), |(i, j)| rec(i, j)),
        2 => Array2::from_shape_fn((n, p), |(i, j)| rec(n - 1 - i, j)),
        _ => make_records(n, p),
    }
}
fn make_t1_l(n: usize, layout: u8) -> Array1<f64> {
    match layout {
        2 => Array1::from_shape_fn(n, |i| tgt(n - 1 - i, 0)),
        _ => make_t1(n),
    }
}
fn make_t2_l(n: usize, t: usize, layout: u8) -> Array2<f64> {
    use ndarray::ShapeBuilder;
    match layout {
        1 => Array2::from_shape_fn((n, t).f(), |(i, c)| tgt(i, c)),
        2 => Array2::from_shape_fn((n, t), |(i, c)| tgt(n - 1 - i, c)),
        _ => make_t2(n, t),
    }
}
/// effective layout: the reversed-rows form needs a view
fn eff_layout(c: &Case) -> u8 {
    match (c.layout, c.view) {
        (2, false) => 1,
        (l, _) if l <= 2 => l,
        _ => 0,
    }
}
fn make_t1(n: usize) -> Array1<f64> {
    Array1::from_shape_fn(n, |i| tgt(i, 0))
}
fn make_t2(n: usize, t: usize) -> Array2<f64> {
    Array2::from_shape_fn((n, t), |(i, c)| tgt(i, c))
}

/// (tag, attached) for every row of a (records, targets) pair; tag = sample index decoded from
/// the first feature, attached = all other features and all targets carry the same index.
fn rows_of<D, S, I>(records: &ArrayBase<D, Ix2>, targets: &ArrayBase<S, I>) -> Result<Vec<(usize, bool)>, String>
where
    D: Data<Elem = f64>,
    S: Data<Elem = f64>,
    I: Dimension,
{
    let n = records.nrows();
    let tv = targets.view().into_dyn();
    if tv.shape().first().copied().unwrap_or(0) != n {
        return Err(format!(
            "records have {} rows but targets have shape {:?}",
            n,
            tv.shape()
        ));
    }
    let mut out = Vec::with_capacity(n);
    for r in 0..n {
        // the identity tag sits in the first feature; a dataset without feature columns is identified by its targets
        let tag = if records.ncols() > 0 {
            (records[(r, 0)] / 8.0).floor() as usize
        } else if tv.ndim() == 1 {
            (tv[[r]] / 1000.0).floor() as usize
        } else {
            (tv[[r, 0]] / 1000.0).floor() as usize
        };
        let mut ok = true;
        for j in 0..records.ncols() {
            ok &= records[(r, j)] == rec(tag, j);
        }
        if tv.ndim() == 1 {
            ok &= tv[[r]] == tgt(tag, 0);
        } else {
            for c in 0..tv.shape()[1] {
                ok &= tv[[r, c]] == tgt(tag, c);
            }
        }
        out.push((tag, ok));
    }
    Ok(out)
}

fn ref_valid(n: usize, k: usize, i: usize) -> Vec<usize> {
    let m = n / k;
    (i * m..(i + 1) * m).collect()
}
fn ref_train(n: usize, k: usize, i: usize) -> Vec<usize> {
    let m = n / k;
    (0..n).filter(|r| *r < i * m || *r >= (i + 1) * m).collect()
}

fn classify(c: &Case, obs: &mut Obs) {
    obs.class_if(c.n % c.k == 0, "k_divides_n");
    obs.class_if(c.n % c.k != 0, "k_not_divides_n");
    obs.class_if(c.k == c.n, "k_eq_n");
    obs.class_if(c.k == 2, "k_eq_2");
    obs.class_if(c.p == 0, "zero_features");
    obs.class_if(c.t == 0, "targets_1d");
    obs.class_if(c.t == 1, "targets_2d_1col");
    obs.class_if(c.t >= 2, "targets_2d_multi");
    obs.class_if(eff_layout(c) == 1, "layout_column_major");
    obs.class_if(eff_layout(c) == 2, "layout_reversed_rows_view");
    if let Eval::Extreme { kind, .. } = &c.eval {
        obs.class(["eval_pos_inf", "eval_neg_inf", "eval_nan", "eval_1e300", "eval_huge_opposite_pair"][(*kind % 5) as usize]);
    }
    obs.class_if(c.names == 1, "named_features_and_targets");
    obs.class_if(c.names >= 2, "stale_target_names_after_with_targets");
    obs.class_if(c.view, "view_backed");
    obs.class_if(!c.view, "owned");
    obs.nontrivial_if(c.n % c.k != 0 || c.t >= 2 || c.models.len() >= 2);
}

// ------------------------------------------------------------------------------------------------
// (a) fold(k)

fn check_fold_pairs<R, T, I>(
    c: &Case,
    obs: &mut Obs,
    pairs: Vec<(DatasetBase<Array2<f64>, ArrayBase<T, I>>, DatasetBase<Array2<f64>, ArrayBase<T, I>>)>,
    _r: std::marker::PhantomData<R>,
) where
    T: Data<Elem = f64>,
    I: Dimension,
{
    if !obs.ensure(pairs.len() == c.k, "fold:pair-count", || {
        format!("fold({}) returned {} pairs", c.k, pairs.len())
    }) {
        return;
    }
    for (i, (train, valid)) in pairs.iter().enumerate() {
        let v = match rows_of(valid.records(), valid.targets()) {
            Ok(v) => v,
            Err(e) => {
                obs.fail("fold:shape", format!("validation part {i}: {e}"));
                return;
            }
        };
        let t = match rows_of(train.records(), train.targets()) {
            Ok(v) => v,
            Err(e) => {
                obs.fail("fold:shape", format!("training part {i}: {e}"));
                return;
            }
        };
        obs.ensure(v.iter().chain(t.iter()).all(|x| x.1), "fold:attachment", || {
            format!("fold {i}: a record is no longer next to its own target")
        });
        let vt: Vec<usize> = v.iter().map(|x| x.0).collect();
        obs.ensure(vt == ref_valid(c.n, c.k, i), "fold:validation-block", || {
            format!("fold {i}: validation rows {:?}, expected {:?}", vt, ref_valid(c.n, c.k, i))
        });
        let mut tt: Vec<usize> = t.iter().map(|x| x.0).collect();
        tt.sort_unstable();
        obs.ensure(tt == ref_train(c.n, c.k, i), "fold:training-complement", || {
            format!("fold {i}: training rows {:?}, expected {:?}", tt, ref_train(c.n, c.k, i))
        });
    }
}

fn check_fold(c: &Case, obs: &mut Obs) {
    use ndarray::s;
    classify(c, obs);
    let l = eff_layout(c);
    // `fold` copies through axis iterators, so every memory layout must give the same answer
    let records = make_records_l(c.n, c.p, l);
    macro_rules! run {
        ($ds:expr) => {{
            let ds = $ds;
            if let Some(p) = obs.call("fold", || ds.fold(c.k)) {
                check_fold_pairs(c, obs, p, std::marker::PhantomData::<()>);
            }
        }};
    }
    if c.t == 0 {
        let targets = make_t1_l(c.n, l);
        if c.view {
            if l == 2 {
                run!(named(DatasetBase::new(records.slice(s![..;-1, ..]), targets.slice(s![..;-1])), c));
            } else {
                run!(named(DatasetBase::new(records.view(), targets.view()), c));
            }
        } else {
            let ds = named(DatasetBase::new(records.clone(), targets.clone()), c);
            if let Some(p) = obs.call("fold", || ds.fold(c.k)) {
                check_fold_pairs(c, obs, p, std::marker::PhantomData::<()>);
            }
            obs.ensure(
                ds.records() == &records && ds.targets() == &targets,
                "fold:source-changed",
                || "fold changed the dataset it was called on".into(),
            );
        }
    } else {
        let targets = make_t2_l(c.n, c.t, l);
        if c.view {
            if l == 2 {
                run!(named(DatasetBase::new(records.slice(s![..;-1, ..]), targets.slice(s![..;-1, ..])), c));
            } else {
                run!(named(DatasetBase::new(records.view(), targets.view()), c));
            }
        } else {
            let ds = named(DatasetBase::new(records.clone(), targets.clone()), c);
            if let Some(p) = obs.call("fold", || ds.fold(c.k)) {
                check_fold_pairs(c, obs, p, std::marker::PhantomData::<()>);
            }
            obs.ensure(
                ds.records() == &records && ds.targets() == &targets,
                "fold:source-changed",
                || "fold changed the dataset it was called on".into(),
            );
        }
    }
}

// ------------------------------------------------------------------------------------------------
// (b)+(c) iter_fold

#[derive(Debug, Clone)]
struct Seen {
    tags: Vec<usize>,
    attached: bool,
    err: Option<String>,
}

fn judge_iter_fold(
    c: &Case,
    obs: &mut Obs,
    seen: &[Seen],
    yielded: &[(usize, Result<Vec<(usize, bool)>, String>)],
) {
    obs.ensure(seen.len() == c.k, "iter_fold:closure-calls", || {
        format!("fit closure called {} times for k = {}", seen.len(), c.k)
    });
    for (i, s) in seen.iter().enumerate() {
        if let Some(e) = &s.err {
            obs.fail("iter_fold:shape", format!("fold {i}: {e}"));
            continue;
        }
        obs.ensure(s.attached, "iter_fold:attachment", || {
            format!("fold {i}: training view pairs a record with a foreign target")
        });
        let mut t = s.tags.clone();
        t.sort_unstable();
        obs.ensure(t == ref_train(c.n, c.k, i), "iter_fold:training-complement", || {
            format!("fold {i}: closure saw rows {:?}, expected multiset {:?}", t, ref_train(c.n, c.k, i))
        });
    }
    obs.ensure(yielded.len() == c.k, "iter_fold:yield-count", || {
        format!("iterator yielded {} items for k = {}", yielded.len(), c.k)
    });
    for (pos, (obj, rows)) in yielded.iter().enumerate() {
        obs.ensure(*obj == pos, "iter_fold:object-order", || {
            format!("item {pos} carries the object fitted at fold {obj}")
        });
        match rows {
            Err(e) => obs.fail("iter_fold:shape", format!("validation {pos}: {e}")),
            Ok(r) => {
                obs.ensure(r.iter().all(|x| x.1), "iter_fold:attachment", || {
                    format!("validation view {pos} pairs a record with a foreign target")
                });
                let tags: Vec<usize> = r.iter().map(|x| x.0).collect();
                obs.ensure(tags == ref_valid(c.n, c.k, pos), "iter_fold:validation-block", || {
                    format!("validation view {pos} holds rows {:?}, expected {:?}", tags, ref_valid(c.n, c.k, pos))
                });
            }
        }
    }
}

/// Evaluates to `true` when the call ended in the documented panic for data that is not stored
/// contiguously in standard order (accepted only when `$accept` says the layout is non-standard).
macro_rules! iter_fold_body {
    ($c:expr, $obs:expr, $ds:expr, $accept:expr) => {{
        let seen: RefCell<Vec<Seen>> = RefCell::new(vec![]);
        let counter = Cell::new(0usize);
        let res = vengine::guard(|| {
            let it = $ds.iter_fold($c.k, |train| {
                let s = match rows_of(train.records(), train.targets()) {
                    Ok(r) => Seen {
                        tags: r.iter().map(|x| x.0).collect(),
                        attached: r.iter().all(|x| x.1),
                        err: None,
                    },
                    Err(e) => Seen { tags: vec![], attached: false, err: Some(e) },
                };
                seen.borrow_mut().push(s);
                let i = counter.get();
                counter.set(i + 1);
                i
            });
            it.map(|(obj, valid)| (obj, rows_of(valid.records(), valid.targets())))
                .collect::<Vec<_>>()
        });
        match res {
            Ok(yielded) => {
                judge_iter_fold($c, $obs, &seen.borrow(), &yielded);
                false
            }
            Err(m) => {
                if $accept {
                    $obs.class("documented_panic_nonstandard_layout");
                } else {
                    $obs.fail("panic:iter_fold", format!("panicked: {m}"));
                }
                true
            }
        }
    }};
}

fn check_iter_fold(c: &Case, obs: &mut Obs) {
    use ndarray::s;
    classify(c, obs);
    let l = eff_layout(c);
    let accept = l != 0;
    let records0 = make_records(c.n, c.p);
    let mut records = make_records_l(c.n, c.p, l);
    let panicked;
    let restored;
    if c.t == 0 {
        let targets0 = make_t1(c.n);
        let mut targets = make_t1_l(c.n, l);
        if c.view {
            if l == 2 {
                let mut ds = named(DatasetBase::new(records.slice_mut(s![..;-1, ..]), targets.slice_mut(s![..;-1])), c);
                panicked = iter_fold_body!(c, obs, ds, accept);
            } else {
                let mut ds = named(DatasetBase::new(records.view_mut(), targets.view_mut()), c);
                panicked = iter_fold_body!(c, obs, ds, accept);
            }
        } else {
            let mut ds = named(DatasetBase::new(records, targets), c);
            panicked = iter_fold_body!(c, obs, ds, accept);
            records = ds.records().clone();
            targets = ds.targets().clone();
        }
        restored = if l == 2 {
            records.slice(s![..;-1, ..]) == records0 && targets.slice(s![..;-1]) == targets0
        } else {
            records == records0 && targets == targets0
        };
    } else {
        let targets0 = make_t2(c.n, c.t);
        let mut targets = make_t2_l(c.n, c.t, l);
        if c.view {
            if l == 2 {
                let mut ds = named(DatasetBase::new(records.slice_mut(s![..;-1, ..]), targets.slice_mut(s![..;-1, ..])), c);
                panicked = iter_fold_body!(c, obs, ds, accept);
            } else {
                let mut ds = named(DatasetBase::new(records.view_mut(), targets.view_mut()), c);
                panicked = iter_fold_body!(c, obs, ds, accept);
            }
        } else {
            let mut ds = named(DatasetBase::new(records, targets), c);
            panicked = iter_fold_body!(c, obs, ds, accept);
            records = ds.records().clone();
            targets = ds.targets().clone();
        }
        restored = if l == 2 {
            records.slice(s![..;-1, ..]) == records0 && targets.slice(s![..;-1, ..]) == targets0
        } else {
            records == records0 && targets == targets0
        };
    }
    // whether the call answered or ended in the documented panic, the rows must be where they were
    let _ = panicked;
    obs.ensure(restored, "iter_fold:not-restored", || {
        format!("after iter_fold the dataset differs from its original: first feature column {:?}", records.rows().into_iter().map(|r| r.iter().next().copied().unwrap_or(f64::NAN)).collect::<Vec<_>>())
    });
}

// ------------------------------------------------------------------------------------------------
// (d)+(e) cross_validate

struct MockParams {
    id: usize,
    a: f64,
    b: f64,
    fail_at: Option<usize>,
    calls: Cell<usize>,
    partial: bool,
}

struct MockModel {
    a: f64,
    b: f64,
    shift: f64,
    t: usize,
    /// abstaining predictor: rows with an odd sample index are left as `default_target` made them
    partial: bool,
}
fn abstains(partial: bool, first_feature: f64) -> bool {
    partial && ((first_feature / 8.0).floor() as u64) % 2 == 1
}


macro_rules! impl_fit {
    ($ix:ty) => {
        impl<'a> Fit<ArrayView2<'a, f64>, ndarray::ArrayView<'a, f64, $ix>, MockError> for MockParams {
            type Object = MockModel;
            fn fit(
                &self,
                d: &DatasetBase<ArrayView2<'a, f64>, ndarray::ArrayView<'a, f64, $ix>>,
            ) -> Result<MockModel, MockError> {
                let fold = self.calls.get();
                self.calls.set(fold + 1);
                if self.fail_at == Some(fold) {
                    return Err(MockError::Linfa(linfa::Error::Parameters(format!(
                        "fit-{}-{}",
                        self.id, fold
                    ))));
                }
                Ok(MockModel {
                    partial: self.partial,
                    a: self.a,
                    b: self.b,
                    shift: {
                        let at = d.as_targets();
                        let tv = at.view().into_dyn();
                        let tags: f64 = (0..tv.shape()[0])
                            .map(|r| if tv.ndim() == 1 { tv[[r]] } else { tv[[r, 0]] })
                            .map(|t| (t / 1000.0).floor())
                            .sum();
                        (tags as u64 % 5) as f64
                    },
                    t: d.as_targets().view().into_dyn().shape().get(1).copied().unwrap_or(0),
                })
            }
        }
    };
}
impl_fit!(Ix1);
impl_fit!(Ix2);

impl<'b> PredictInplace<ArrayView2<'b, f64>, Array1<f64>> for MockModel {
    fn predict_inplace<'a>(&'a self, x: &'a ArrayView2<'b, f64>, y: &mut Array1<f64>) {
        for (r, out) in x.rows().into_iter().zip(y.iter_mut()) {
            let x0 = r.iter().next().copied().unwrap_or(0.0);
            if r.len() > 0 && abstains(self.partial, x0) {
                continue;
            }
            *out = self.a * x0 + self.b + self.shift;
        }
    }
    fn default_target(&self, x: &ArrayView2<'b, f64>) -> Array1<f64> {
        Array1::zeros(x.nrows())
    }
}
impl<'b> PredictInplace<ArrayView2<'b, f64>, Array2<f64>> for MockModel {
    fn predict_inplace<'a>(&'a self, x: &'a ArrayView2<'b, f64>, y: &mut Array2<f64>) {
        for (r, mut out) in x.rows().into_iter().zip(y.rows_mut()) {
            let x0 = r.iter().next().copied().unwrap_or(0.0);
            if r.len() > 0 && abstains(self.partial, x0) {
                continue;
            }
            for (c, o) in out.iter_mut().enumerate() {
                *o = self.a * x0 + self.b + self.shift + c as f64;
            }
        }
    }
    fn default_target(&self, x: &ArrayView2<'b, f64>) -> Array2<f64> {
        Array2::zeros((x.nrows(), self.t))
    }
}

fn fold_of_truth(first_truth: f64, n: usize, k: usize) -> usize {
    let row = (first_truth / 1000.0).floor() as usize;
    row / (n / k)
}

/// Expected score matrix `[model][column]` or the set of error strings that may surface.
fn reference_scores(c: &Case) -> Result<Vec<Vec<f64>>, Vec<String>> {
    reference_scores_scaled(c).map(|x| x.0)
}

/// (means, largest absolute fold score) per model and column
fn reference_scores_scaled(c: &Case) -> Result<(Vec<Vec<f64>>, Vec<Vec<f64>>), Vec<String>> {
    let cols = c.t.max(1);
    let mut errors = vec![];
    for (mi, m) in c.models.iter().enumerate() {
        if let Some(f) = m.fail_at {
            let f = idx(f, c.k);
            errors.push(format!("invalid parameter fit-{mi}-{f}"));
        }
    }
    if let Eval::FailAt(f) = c.eval {
        if !c.models.is_empty() {
            errors.push(format!("invalid parameter eval-{}", idx(f, c.k)));
        }
    }
    if !errors.is_empty() {
        return Err(errors);
    }
    let mut out = vec![vec![0.0; cols]; c.models.len()];
    let mut scale = vec![vec![0.0f64; cols]; c.models.len()];
    for i in 0..c.k {
        let train = ref_train(c.n, c.k, i);
        let shift = (train.iter().sum::<usize>() % 5) as f64;
        for (mi, m) in c.models.iter().enumerate() {
            for col in 0..cols {
                let v = match c.eval {
                    Eval::FoldConst => (i as f64 + 1.0) * 1.5 + col as f64,
                    _ => ref_valid(c.n, c.k, i)
                        .iter()
                        .map(|&r| {
                            let extra = if c.t == 0 { 0.0 } else { col as f64 };
                            let x0 = if c.p > 0 { rec(r, 0) } else { 0.0 };
                            let pred = if c.p > 0 && abstains(m.partial, x0) {
                                0.0 // the entry keeps the value `default_target` gave it
                            } else {
                                m.a as f64 * x0 + m.b as f64 + shift + extra
                            };
                            (pred - tgt(r, col)).abs()
                        })
                        .sum(),
                };
                let v = extreme_override(&c.eval, c.k, cols, i, col).unwrap_or(v);
                out[mi][col] += v;
                if v.is_finite() {
                    scale[mi][col] = scale[mi][col].max(v.abs());
                }
            }
        }
    }
    for row in out.iter_mut() {
        for v in row.iter_mut() {
            *v /= c.k as f64;
        }
    }
    Ok((out, scale))
}

fn judge_cv(c: &Case, obs: &mut Obs, got: Result<Vec<Vec<f64>>, String>, shape_ok: bool) {
    let want = reference_scores_scaled(c);
    match (got, want) {
        (Ok(g), Ok((w, scale))) => {
            obs.ensure(shape_ok, "cv:shape", || "score array has the wrong shape".into());
            if g.len() != w.len() || g.iter().zip(&w).any(|(a, b)| a.len() != b.len()) {
                obs.fail("cv:shape", format!("score array {:?} vs expected {:?}", g, w));
                return;
            }
            for (mi, (gr, wr)) in g.iter().zip(&w).enumerate() {
                for (col, (a, b)) in gr.iter().zip(wr).enumerate() {
                    obs.ensure(mean_matches(*a, *b, scale[mi][col]), "cv:mean-score", || {
                        format!("model {mi} column {col}: reported {a}, mean over the {} reference folds is {b}", c.k)
                    });
                }
            }
        }
        (Err(e), Err(allowed)) => {
            obs.class("error_surfaced");
            obs.ensure(allowed.contains(&e), "cv:wrong-error", || {
                format!("error '{e}' surfaced, injected errors were {:?}", allowed)
            });
        }
        (Ok(g), Err(allowed)) => obs.fail(
            "cv:error-swallowed",
            format!("injected failures {:?} but cross_validate returned Ok({:?})", allowed, g),
        ),
        (Err(e), Ok(_)) => obs.fail("cv:spurious-error", format!("no failure injected but got error '{e}'")),
    }
}

macro_rules! cv_body {
    ($c:expr, $obs:expr, $ds:expr, $single:expr, $two_d:expr, $accept:expr) => {{
        let params: Vec<MockParams> = $c
            .models
            .iter()
            .enumerate()
            .map(|(i, m)| MockParams {
                id: i,
                a: m.a as f64,
                b: m.b as f64,
                fail_at: m.fail_at.map(|f| idx(f, $c.k)),
                calls: Cell::new(0),
                partial: m.partial,
            })
            .collect();
        let n = $c.n;
        let k = $c.k;
        let evalk = $c.eval.clone();
        let cols = $c.t.max(1);
        let r = match vengine::guard(|| {
            let res: Result<_, MockError> = $ds.cross_validate(k, &params, |pred, truth| {
                let pd = pred.view().into_dyn();
                let td = truth.view().into_dyn();
                let first = if td.ndim() == 1 { td[[0]] } else { td[[0, 0]] };
                let fold = fold_of_truth(first, n, k);
                if let Eval::FailAt(f) = evalk {
                    if idx(f, k) == fold {
                        return Err(linfa::Error::Parameters(format!("eval-{fold}")));
                    }
                }
                let mut out = vec![0.0; cols];
                for col in 0..cols {
                    if let Some(v) = extreme_override(&evalk, k, cols, fold, col) {
                        out[col] = v;
                        continue;
                    }
                    out[col] = match evalk {
                        Eval::FoldConst => (fold as f64 + 1.0) * 1.5 + col as f64,
                        _ => (0..td.shape()[0])
                            .map(|r| {
                                if td.ndim() == 1 {
                                    (pd[[r]] - td[[r]]).abs()
                                } else {
                                    (pd[[r, col]] - td[[r, col]]).abs()
                                }
                            })
                            .sum(),
                    };
                }
                Ok($two_d(out))
            });
            res.map(|a| {
                let d = a.view().into_dyn();
                let shape_ok = if $single { d.shape() == [params.len()] } else { d.shape() == [params.len(), cols] };
                let rows: Vec<Vec<f64>> = (0..params.len())
                    .map(|m| {
                        (0..cols)
                            .map(|col| if d.ndim() == 1 { d[[m]] } else { d[[m, col]] })
                            .collect()
                    })
                    .collect();
                (rows, shape_ok)
            })
            .map_err(|e| e.to_string())
        }) {
            Ok(v) => Some(v),
            Err(m) => {
                if $accept {
                    $obs.class("documented_panic_nonstandard_layout");
                } else {
                    $obs.fail("panic:cross_validate", format!("panicked: {m}"));
                }
                None
            }
        };
        if let Some(r) = r {
            match r {
                Ok((rows, shape_ok)) => judge_cv($c, $obs, Ok(rows), shape_ok),
                Err(e) => judge_cv($c, $obs, Err(e), true),
            }
        }
    }};
}

fn check_cv(c: &Case, obs: &mut Obs) {
    use ndarray::s;
    classify(c, obs);
    obs.class_if(c.models.len() >= 2, "multi_model");
    obs.class_if(c.models.is_empty(), "no_model");
    obs.class_if(c.models.iter().any(|m| m.partial), "abstaining_model");
    obs.class_if(
        c.models.len() >= 2 && c.models.iter().skip(1).any(|m| m.partial),
        "abstaining_model_after_another",
    );
    let l = eff_layout(c);
    let accept = l != 0;
    let records0 = make_records(c.n, c.p);
    let mut records = make_records_l(c.n, c.p, l);
    if c.t == 0 {
        let targets0 = make_t1(c.n);
        let mut targets = make_t1_l(c.n, l);
        let to0 = |v: Vec<f64>| ndarray::arr0(v[0]);
        if c.view {
            if l == 2 {
                let mut ds = named(DatasetBase::new(records.slice_mut(s![..;-1, ..]), targets.slice_mut(s![..;-1])), c);
                cv_body!(c, obs, ds, true, to0, accept);
            } else {
                let mut ds = named(DatasetBase::new(records.view_mut(), targets.view_mut()), c);
                cv_body!(c, obs, ds, true, to0, accept);
            }
        } else {
            let mut ds = named(DatasetBase::new(records, targets), c);
            cv_body!(c, obs, ds, true, to0, accept);
            records = ds.records().clone();
            targets = ds.targets().clone();
        }
        let restored = if l == 2 {
            records.slice(s![..;-1, ..]) == records0 && targets.slice(s![..;-1]) == targets0
        } else {
            records == records0 && targets == targets0
        };
        obs.ensure(restored, "cv:not-restored", || {
            format!("after cross_validate the dataset differs from its original: first feature column {:?}", records.rows().into_iter().map(|r| r.iter().next().copied().unwrap_or(f64::NAN)).collect::<Vec<_>>())
        });
        // cross_validate_single must agree (same closure contract, scalar result)
        if matches!(c.eval, Eval::AbsErr) && c.models.iter().all(|m| m.fail_at.is_none()) && !c.models.is_empty() {
            let params: Vec<MockParams> = c
                .models
                .iter()
                .enumerate()
                .map(|(i, m)| MockParams { id: i, a: m.a as f64, b: m.b as f64, fail_at: None, calls: Cell::new(0), partial: m.partial })
                .collect();
            let mut ds = named(DatasetBase::new(records0.clone(), targets0.clone()), c);
            let r = obs.call("cross_validate_single", || {
                let r: Result<Array1<f64>, MockError> = ds.cross_validate_single(c.k, &params, |p, t| {
                    Ok(p.iter().zip(t.iter()).map(|(a, b)| (a - b).abs()).sum::<f64>())
                });
                r.map(|a| a.to_vec()).map_err(|e| e.to_string())
            });
            if let Some(r) = r {
                match (r, reference_scores(c)) {
                    (Ok(g), Ok(w)) => {
                        for (mi, (a, wr)) in g.iter().zip(&w).enumerate() {
                            obs.ensure(vengine::num::close(*a, wr[0], 1e-9, 1e-9), "cv_single:mean-score", || {
                                format!("model {mi}: cross_validate_single {a}, reference mean {}", wr[0])
                            });
                        }
                        obs.ensure(g.len() == w.len(), "cv_single:shape", || "wrong length".into());
                    }
                    (Err(e), _) => obs.fail("cv_single:spurious-error", e),
                    _ => {}
                }
            }
        }
    } else {
        let targets0 = make_t2(c.n, c.t);
        let mut targets = make_t2_l(c.n, c.t, l);
        let to1 = |v: Vec<f64>| Array1::from(v);
        if c.view {
            if l == 2 {
                let mut ds = named(DatasetBase::new(records.slice_mut(s![..;-1, ..]), targets.slice_mut(s![..;-1, ..])), c);
                cv_body!(c, obs, ds, false, to1, accept);
            } else {
                let mut ds = named(DatasetBase::new(records.view_mut(), targets.view_mut()), c);
                cv_body!(c, obs, ds, false, to1, accept);
            }
        } else {
            let mut ds = named(DatasetBase::new(records, targets), c);
            cv_body!(c, obs, ds, false, to1, accept);
            records = ds.records().clone();
            targets = ds.targets().clone();
        }
        let restored = if l == 2 {
            records.slice(s![..;-1, ..]) == records0 && targets.slice(s![..;-1, ..]) == targets0
        } else {
            records == records0 && targets == targets0
        };
        obs.ensure(restored, "cv:not-restored", || {
            format!("after cross_validate the dataset differs from its original: first feature column {:?}", records.rows().into_iter().map(|r| r.iter().next().copied().unwrap_or(f64::NAN)).collect::<Vec<_>>())
        });
    }
}

// ------------------------------------------------------------------------------------------------
// generators

fn nk(max_n: usize) -> impl Strategy<Value = (usize, usize)> {
    (2..=max_n, any::<u16>(), 0u8..6).prop_map(|(n, kk, mode)| {
        let k = match mode {
            0 => 2,
            1 => n,
            2 => {
                // a divisor of n (largest divisor <= mapped value, at least 2 when one exists)
                let want = 2 + idx(kk, n - 1);
                (2..=want).rev().find(|d| n % d == 0).unwrap_or(n)
            }
            _ => 2 + idx(kk, n - 1),
        };
        (n, k.clamp(2, n))
    })
}

fn case_strategy(max_n: usize, with_models: bool) -> impl Strategy<Value = Case> {
    let model = (-3i8..=3, -3i8..=3, proptest::option::weighted(0.12, any::<u16>()), proptest::bool::weighted(0.3))
        .prop_map(|(a, b, fail_at, partial)| Model { a, b, fail_at, partial });
    let models = if with_models {
        proptest::collection::vec(model, 0..=3).boxed()
    } else {
        Just(vec![]).boxed()
    };
    let eval = prop_oneof![
        4 => Just(Eval::AbsErr),
        2 => Just(Eval::FoldConst),
        1 => any::<u16>().prop_map(Eval::FailAt),
        2 => (any::<u16>(), 0u8..5, 0u8..4).prop_map(|(fold, kind, col)| Eval::Extreme { fold, kind, col }),
    ];
    let names = prop_oneof![4 => Just(0u8), 1 => Just(1u8), 1 => Just(2u8)];
    let layout = prop_oneof![5 => Just(0u8), 2 => Just(1u8), 1 => Just(2u8)];
    let nfeat = prop_oneof![1 => Just(0usize), 12 => 1usize..=4];
    (nk(max_n), nfeat, 0usize..=3, any::<bool>(), models, eval, layout, names).prop_map(
        |((n, k), p, t, view, models, eval, layout, names)| Case { n, k, p, t, view, models, eval, layout, names },
    )
}

fn all_nk(max_n: usize) -> Vec<Case> {
    let mut v = vec![];
    for n in 2..=max_n {
        for k in 2..=n {
            for t in [0usize, 2] {
                v.push(Case {
                    n,
                    k,
                    p: (n + k) % 4, // 0 = a dataset without feature columns
                    t,
                    view: (n + k + t) % 2 == 0,
                    models: vec![
                        Model { a: 1, b: -1, fail_at: None, partial: false },
                        Model { a: -2, b: 2, fail_at: None, partial: (n + k) % 3 == 0 },
                    ],
                    eval: Eval::AbsErr,
                    layout: [0u8, 0, 1, 2][(n * 3 + k + t) % 4],
                    names: [0u8, 1, 2][(n + 2 * k + t) % 3],
                });
            }
        }
    }
    v
}

pub fn property() -> Property {
    Property {
        id: "C01",
        rule: "cases = (n, k, feature count, target rank/columns, owned|view-backed, mock models, evaluation closure); \
               rows carry identity tags so multisets and attachment are exact. Random cases from proptest plus every (n,k) pair with 2<=k<=n<=N \
               enumerated (N = 40 quick / 70 thorough). Non-trivial = k does not divide n, or >= 2 target columns, or >= 2 candidate models; \
               distinct = distinct canonical JSON of the case",
        assumptions: vec![
            "k = 0 and k > n are documented panics and are not generated".into(),
            "iter_fold / cross_validate document a panic for data not stored contiguously in standard order: for column-major and reversed-row layouts that panic is an accepted outcome (the dataset must still be intact), but an answer is judged like any other; fold() must work for every layout".into(),
            "abstaining mock predictors leave some entries of the target buffer untouched: those entries must hold what default_target gave them (0), whatever other candidate models predicted before".into(),
            "scores are compared with relative tolerance 1e-9 (all intermediate values are small integers, sums exact); with an evaluation closure returning +-inf / NaN in one fold the reported mean must be that same non-finite value (the arithmetic mean of the fold scores), with huge finite scores (1e300, +1.5e308 and -1.5e308 in two folds) it must be finite and within 1e-9 of the largest fold score (rounding of a k-term sum in any order)".into(),
            "datasets may carry feature and target names, including target names left stale by with_targets (public API, no panic): folding must not depend on them".into(),
            "when several injected failures coexist, any one of them may surface".into(),
        ],
        subs: vec![
            prop_sub("cross_validate", 100000, 400000, |t: Tier| case_strategy(t.pick(60, 200), true), check_cv),
            prop_sub("iter_fold", 100000, 400000, |t: Tier| case_strategy(t.pick(60, 200), false), check_iter_fold),
            prop_sub("fold", 100000, 400000, |t: Tier| case_strategy(t.pick(60, 200), false), check_fold),
            enum_sub("fold_all_nk", |t: Tier| all_nk(t.pick(40, 70)), check_fold),
            enum_sub("iter_fold_all_nk", |t: Tier| all_nk(t.pick(40, 70)), check_iter_fold),
            enum_sub("cross_validate_all_nk", |t: Tier| all_nk(t.pick(40, 70)), check_cv),
        ],
    }
}
