//! Case description and dataset synthesis for C10.
//!
//! A case is plain data (small integers, indices and two `u64` seeds). The training matrix is
//! *derived* from `data_seed` with `SplitMix`, so replay files stay small and shrinking works on
//! the structural fields (dims, number of rows/components/queries, layout, configuration).

use serde::{Deserialize, Serialize};
use vengine::gen::{idx, SplitMix};
use vengine::num::Mat;

pub const MAX_DIMS: usize = 6;
/// global data scale (multiplies every coordinate)
pub const SCALES: [f64; 3] = [1.0, 0.05, 20.0];
/// global offset in units of the global scale
pub const OFFSETS: [f64; 3] = [0.0, 1.0e3, -1.0e4];
pub const REG_COVAR: [f64; 3] = [1e-6, 1e-3, 1e-1];
pub const TOLERANCE: [f64; 2] = [1e-3, 1e-5];
/// query distance in "standard deviations"
pub const FAR_S: [f64; 5] = [10.0, 40.0, 100.0, 1.0e3, 1.0e6];

#[derive(Debug, Clone, Copy, PartialEq, Eq, Serialize, Deserialize)]
pub enum Layout {
    /// centres ~10 scale units apart per differing coordinate, scales 0.5..1.4
    Separated,
    /// centres 0.75 scale units apart per differing coordinate, scales 0.5..1.4
    Overlapping,
    /// centres 3 units apart, per-axis scales 0.01..5.6, randomly rotated (random SPD factor)
    Anisotropic,
}

#[derive(Debug, Clone, Copy, PartialEq, Eq, Serialize, Deserialize)]
pub enum Degenerate {
    None,
    /// the last feature is the same constant in every row (dims >= 2 only)
    ConstantColumn,
    /// every coordinate rounded to a grid of half a scale unit (many duplicated rows)
    Quantised,
}

#[derive(Debug, Clone, Copy, PartialEq, Eq, Serialize, Deserialize)]
pub enum Init {
    KMeans,
    Random,
}

#[derive(Debug, Clone, Serialize, Deserialize)]
pub enum Query {
    /// a training row
    Train(u16),
    /// uniform in the bounding box of the training data (coordinates as u16 / 65535)
    InBox(Vec<u16>),
    /// centre of generating component `comp` + FAR_S[s] * sigma_max * unit(dir)
    FarComp { comp: u16, s: u8, dir: Vec<i8> },
    /// data centroid + FAR_S[s] * (data radius + sqrt(reg_covar)) * unit(dir): at least ~(s-1)
    /// standard deviations away from *every* component of *any* model fitted to the data
    FarAll { s: u8, dir: Vec<i8> },
}

#[derive(Debug, Clone, Serialize, Deserialize)]
pub struct Comp {
    /// centre in layout units, entries -4..=4 (first `dims` used)
    pub centre: Vec<i8>,
    /// per-axis log scale, entries -8..=3
    pub log_scale: Vec<i8>,
    /// relative share of the rows, 1..=8
    pub share: u8,
}

#[derive(Debug, Clone, Serialize, Deserialize)]
pub struct Case {
    pub dims: usize,
    pub layout: Layout,
    pub degenerate: Degenerate,
    pub scale_idx: u8,
    pub offset_idx: u8,
    /// unit of the data: every coordinate is multiplied by 10^unit_exp and reg_covar by 10^(2 unit_exp)
    #[serde(default)]
    pub unit_exp: i8,
    /// fit and predict in single precision (rows, queries and reg_covar are rounded to f32 first)
    #[serde(default)]
    pub f32: bool,
    /// requested number of rows (each generating component gets at least 2)
    pub n: usize,
    pub comps: Vec<Comp>,
    pub data_seed: u64,
    pub n_clusters: usize,
    pub init: Init,
    pub rng_seed: u64,
    pub reg_idx: u8,
    pub tol_idx: u8,
    pub n_runs: u8,
    pub max_iter: u32,
    pub queries: Vec<Query>,
}

pub struct Built {
    pub rows: Mat,
    pub centres: Mat,
    pub sigma_max: f64,
    pub dims: usize,
    pub lo: Vec<f64>,
    pub hi: Vec<f64>,
    pub centroid: Vec<f64>,
    /// largest distance of a row from the centroid
    pub radius: f64,
    pub distinct_rows: usize,
}

fn pick<const N: usize>(table: &[f64; N], i: u8) -> f64 {
    table[(i as usize).min(N - 1)]
}

impl Case {
    pub fn p(&self) -> usize {
        self.dims.clamp(1, MAX_DIMS)
    }
    /// 10^unit_exp
    pub fn unit(&self) -> f64 {
        10f64.powi(self.unit_exp.clamp(-12, 6) as i32)
    }
    /// reg_covar in the data's unit (scaled with unit^2), rounded to the float type of the case
    pub fn reg(&self) -> f64 {
        let r = pick(&REG_COVAR, self.reg_idx) * self.unit() * self.unit();
        self.round(r)
    }
    pub fn round(&self, v: f64) -> f64 {
        if self.f32 {
            (v as f32) as f64
        } else {
            v
        }
    }
    /// Single precision has ~7 digits: keep the f32 cases inside the domain where a covariance that is
    /// positive definite in exact arithmetic stays so after f32 rounding (condition number <~ 1e5):
    /// no degenerate columns, reg_covar >= 1e-3 (1e-1 for the anisotropic layout), offset <= 1e3 units.
    pub fn sanitised(mut self) -> Case {
        if self.f32 {
            self.degenerate = Degenerate::None;
            self.reg_idx = self.reg_idx.clamp(1, 2);
            if self.layout == Layout::Anisotropic {
                self.reg_idx = 2;
            }
            self.offset_idx = self.offset_idx.min(1);
        }
        self
    }
    pub fn tol(&self) -> f64 {
        pick(&TOLERANCE, self.tol_idx)
    }
    /// length of one "scale unit" of the layout: global scale factor times the data unit
    pub fn g(&self) -> f64 {
        pick(&SCALES, self.scale_idx) * self.unit()
    }
    pub fn k(&self) -> usize {
        self.n_clusters.clamp(1, 4)
    }
}

fn at(v: &[i8], j: usize) -> f64 {
    v.get(j).copied().unwrap_or(0) as f64
}

/// unit vector from small integers; the zero vector maps to e_0
pub fn unit_dir(dir: &[i8], p: usize) -> Vec<f64> {
    let mut u: Vec<f64> = (0..p).map(|j| at(dir, j)).collect();
    let n = u.iter().map(|v| v * v).sum::<f64>().sqrt();
    if n == 0.0 {
        u[0] = 1.0;
    } else {
        for v in u.iter_mut() {
            *v /= n;
        }
    }
    u
}

pub fn build(c: &Case) -> Built {
    let p = c.p();
    let g = c.g();
    let off = pick(&OFFSETS, c.offset_idx) * g;
    let spread = match c.layout {
        Layout::Separated => 10.0,
        Layout::Overlapping => 0.75,
        Layout::Anisotropic => 3.0,
    };
    let m = c.comps.len().clamp(1, 4);
    let comps = &c.comps[..m.min(c.comps.len())];
    let share_sum: usize = comps.iter().map(|q| q.share.max(1) as usize).sum::<usize>().max(1);
    let mut rng = SplitMix(c.data_seed);
    let mut rows: Mat = vec![];
    let mut centres: Mat = vec![];
    let mut sigma_max = 0.0f64;
    for (ci, q) in comps.iter().enumerate() {
        let n_c = (c.n * q.share.max(1) as usize / share_sum).max(2);
        let centre: Vec<f64> = (0..p).map(|j| off + g * spread * at(&q.centre, j)).collect();
        let scales: Vec<f64> = (0..p)
            .map(|j| {
                let ls = at(&q.log_scale, j).clamp(-8.0, 3.0);
                g * match c.layout {
                    Layout::Anisotropic => 10f64.powf(ls / 4.0),
                    _ => 2f64.powf(ls / 8.0),
                }
            })
            .collect();
        for s in &scales {
            sigma_max = sigma_max.max(*s);
        }
        // A = R * diag(scales); R = product of Givens rotations (anisotropic layout only)
        let mut a: Mat = (0..p)
            .map(|i| (0..p).map(|j| if i == j { scales[j] } else { 0.0 }).collect())
            .collect();
        if c.layout == Layout::Anisotropic {
            let mut rr = SplitMix(c.data_seed ^ (0x9e37_79b9_7f4a_7c15u64.wrapping_mul(ci as u64 + 1)));
            for i in 0..p {
                for j in i + 1..p {
                    let th = 2.0 * std::f64::consts::PI * rr.unit();
                    let (sn, cs) = th.sin_cos();
                    for col in 0..p {
                        let ai = a[i][col];
                        let aj = a[j][col];
                        a[i][col] = cs * ai - sn * aj;
                        a[j][col] = sn * ai + cs * aj;
                    }
                }
            }
        }
        for _ in 0..n_c {
            let z: Vec<f64> = (0..p).map(|_| rng.gauss()).collect();
            let x: Vec<f64> = (0..p)
                .map(|i| centre[i] + (0..p).map(|j| a[i][j] * z[j]).sum::<f64>())
                .collect();
            rows.push(x);
        }
        centres.push(centre);
    }
    match c.degenerate {
        Degenerate::None => {}
        Degenerate::ConstantColumn => {
            if p >= 2 {
                let v = centres[0][p - 1];
                for r in rows.iter_mut() {
                    r[p - 1] = v;
                }
                for ce in centres.iter_mut() {
                    ce[p - 1] = v;
                }
            }
        }
        Degenerate::Quantised => {
            let q = 0.5 * g;
            for r in rows.iter_mut() {
                for v in r.iter_mut() {
                    *v = off + ((*v - off) / q).round() * q;
                }
            }
        }
    }
    if c.f32 {
        for r in rows.iter_mut() {
            for v in r.iter_mut() {
                *v = c.round(*v);
            }
        }
    }
    let n = rows.len();
    let mut lo = vec![f64::INFINITY; p];
    let mut hi = vec![f64::NEG_INFINITY; p];
    let mut centroid = vec![0.0; p];
    for r in &rows {
        for j in 0..p {
            lo[j] = lo[j].min(r[j]);
            hi[j] = hi[j].max(r[j]);
            centroid[j] += r[j] / n as f64;
        }
    }
    let mut radius = 0.0f64;
    for r in &rows {
        let d = (0..p).map(|j| (r[j] - centroid[j]).powi(2)).sum::<f64>().sqrt();
        radius = radius.max(d);
    }
    let mut keys: Vec<Vec<u64>> = rows.iter().map(|r| r.iter().map(|v| v.to_bits()).collect()).collect();
    keys.sort();
    keys.dedup();
    Built { rows, centres, sigma_max, dims: p, lo, hi, centroid, radius, distinct_rows: keys.len() }
}

/// Materialise the query points. Returns (point, nominal far level index or None).
pub fn build_queries(c: &Case, b: &Built) -> Vec<(Vec<f64>, Option<usize>)> {
    let p = b.dims;
    let mut out = vec![];
    for q in &c.queries {
        match q {
            Query::Train(i) => {
                if let Some(r) = b.rows.get(idx(*i, b.rows.len())) {
                    out.push((r.clone(), None));
                }
            }
            Query::InBox(u) => {
                let x: Vec<f64> = (0..p)
                    .map(|j| {
                        let t = u.get(j).copied().unwrap_or(0) as f64 / 65535.0;
                        b.lo[j] + (b.hi[j] - b.lo[j]) * t
                    })
                    .collect();
                out.push((x, None));
            }
            Query::FarComp { comp, s, dir } => {
                let si = (*s as usize).min(FAR_S.len() - 1);
                let u = unit_dir(dir, p);
                if let Some(ce) = b.centres.get(idx(*comp, b.centres.len())) {
                    let x: Vec<f64> = (0..p).map(|j| ce[j] + FAR_S[si] * b.sigma_max * u[j]).collect();
                    out.push((x, Some(si)));
                }
            }
            Query::FarAll { s, dir } => {
                let si = (*s as usize).min(FAR_S.len() - 1);
                let u = unit_dir(dir, p);
                let rho = b.radius + c.reg().sqrt();
                let x: Vec<f64> = (0..p).map(|j| b.centroid[j] + FAR_S[si] * rho * u[j]).collect();
                out.push((x, Some(si)));
            }
        }
    }
    if c.f32 {
        for (x, _) in out.iter_mut() {
            for v in x.iter_mut() {
                *v = c.round(*v);
            }
        }
    }
    out
}
