//! Large-batch stratum: `predict` / `predict_proba` called once on m rows (m around and above
//! the multiples of 256), every row judged by the same per-row oracle as the small queries, and
//! the whole-batch answers cross-checked against the same rows predicted in small batches.

use crate::data::{build, Built, Case, FAR_S};
use crate::oracle::{fit_model, judge_rows};
use serde::{Deserialize, Serialize};
use vengine::gen::SplitMix;
use vengine::Obs;

/// batch sizes; index 0 is the smallest one on which a block-offset mistake shows (shrinking goes towards it)
pub const BATCH_M: [usize; 7] = [257, 255, 256, 300, 513, 900, 1025];
/// sizes of the small batches of the cross-check
pub const SMALL: [usize; 5] = [1, 7, 64, 100, 250];

#[derive(Debug, Clone, Serialize, Deserialize)]
pub struct BigCase {
    /// data + configuration (its `queries` are ignored)
    pub base: Case,
    pub m_idx: u8,
    pub small_idx: u8,
    /// the m rows are derived from this seed
    pub batch_seed: u64,
}

fn rows_for(c: &BigCase, b: &Built) -> Vec<(Vec<f64>, Option<usize>)> {
    let p = b.dims;
    let m = BATCH_M[(c.m_idx as usize).min(BATCH_M.len() - 1)];
    let mut rng = SplitMix(c.batch_seed);
    let mut out = Vec::with_capacity(m);
    for _ in 0..m {
        let kind = rng.below(10);
        let row = match kind {
            // training rows, repeated
            0..=4 => (b.rows[rng.below(b.rows.len())].clone(), None),
            // uniform in the bounding box
            5 => ((0..p).map(|j| b.lo[j] + (b.hi[j] - b.lo[j]) * rng.unit()).collect(), None),
            // fresh point around a generating centre
            6 | 7 => {
                let ce = &b.centres[rng.below(b.centres.len())];
                ((0..p).map(|j| ce[j] + b.sigma_max * rng.gauss()).collect(), None)
            }
            // far from one generating component / from the whole data set
            _ => {
                let si = rng.below(FAR_S.len());
                let mut u: Vec<f64> = (0..p).map(|_| rng.gauss()).collect();
                let nu = u.iter().map(|v| v * v).sum::<f64>().sqrt().max(1e-300);
                for v in u.iter_mut() {
                    *v /= nu;
                }
                if kind == 8 {
                    let ce = &b.centres[rng.below(b.centres.len())];
                    ((0..p).map(|j| ce[j] + FAR_S[si] * b.sigma_max * u[j]).collect(), Some(si))
                } else {
                    let rho = b.radius + c.base.reg().sqrt();
                    ((0..p).map(|j| b.centroid[j] + FAR_S[si] * rho * u[j]).collect(), Some(si))
                }
            }
        };
        out.push(row);
    }
    if c.base.f32 {
        for (x, _) in out.iter_mut() {
            for v in x.iter_mut() {
                *v = c.base.round(*v);
            }
        }
    }
    out
}

pub fn check(c: &BigCase, obs: &mut Obs) {
    let c = &BigCase { base: c.base.clone().sanitised(), ..c.clone() };
    let b = build(&c.base);
    if b.rows.is_empty() || b.centres.is_empty() {
        obs.skip("case_too_small");
        return;
    }
    let Some(f) = fit_model(&c.base, &b, obs) else {
        return;
    };
    let rows = rows_for(c, &b);
    let m = rows.len();
    obs.class(match m {
        255 => "batch_255",
        256 => "batch_256",
        257 => "batch_257",
        300 => "batch_300",
        513 => "batch_513",
        900 => "batch_900",
        _ => "batch_1025",
    });
    // (a) the whole batch in one call, every row judged against the reference posterior
    let Some(out) = judge_rows(obs, &f, &rows) else {
        return;
    };
    obs.class_if(out.far40, "has_query_ge_40sd");

    // (b) the same rows in small batches
    let small = SMALL[(c.small_idx as usize).min(SMALL.len() - 1)];
    let p = f.p;
    let mut small_labels: Vec<usize> = Vec::with_capacity(m);
    let mut small_proba: Vec<Vec<f64>> = Vec::with_capacity(m);
    let mut ok = true;
    for chunk in rows.chunks(small) {
        let crow: Vec<&[f64]> = chunk.iter().map(|(x, _)| x.as_slice()).collect();
        let pr = obs.call("predict_proba", || f.model.predict_proba(&crow, p)).flatten();
        let pd = obs.call("predict", || f.model.predict(&crow, p)).flatten();
        match (pr, pd) {
            (Some((dim, pr)), Some(pd)) if pd.len() == chunk.len() && dim == (chunk.len(), f.k) => {
                small_labels.extend(pd.iter().copied());
                small_proba.extend(pr);
            }
            _ => {
                ok = false;
                break;
            }
        }
    }
    if !ok {
        obs.fail("batch:small-batch-call-failed", format!("predicting {m} rows in batches of {small} panicked or returned a wrong shape"));
        return;
    }
    let mut distinct = std::collections::BTreeSet::new();
    if let Some(labels) = &out.labels {
        for r in 0..m.min(labels.len()).min(small_labels.len()) {
            distinct.insert(small_labels[r]);
            if labels[r] == small_labels[r] {
                continue;
            }
            // ties may be broken arbitrarily: judged when the reference log-posterior separates the two answers
            let (wl, dwl) = (&out.wl[r], &out.dwl[r]);
            let (a, s) = (labels[r], small_labels[r]);
            let separated = match (wl.get(a), wl.get(s), dwl.get(a), dwl.get(s)) {
                (Some(wa), Some(ws), Some(da), Some(ds)) => (wa - ws).abs() > f.tol.margin_floor + da + ds,
                _ => true,
            };
            if separated {
                obs.fail(
                    "predict:batch-size-dependent",
                    format!(
                        "row {r} of {m} ({:?}): predict on the whole batch gives {a}, the same row in a batch of {small} gives {s}; \
                         reference weighted log-densities {:?}",
                        rows[r].0, wl
                    ),
                );
            } else {
                obs.class("batch_label_tie_within_margin");
            }
        }
    }
    if let Some(pr) = &out.proba {
        for r in 0..m.min(pr.len()).min(small_proba.len()) {
            let worst = pr[r]
                .iter()
                .zip(&small_proba[r])
                .map(|(x, y)| if x == y { 0.0 } else { (x - y).abs() })
                .fold(0.0f64, |acc, d| if d.is_nan() { f64::INFINITY } else { acc.max(d) });
            if worst > f.tol.batch_proba {
                obs.fail(
                    "proba:batch-size-dependent",
                    format!(
                        "row {r} of {m} ({:?}): predict_proba on the whole batch gives {:?}, the same row in a batch of {small} gives {:?}",
                        rows[r].0, pr[r], small_proba[r]
                    ),
                );
                break;
            }
        }
    }
    obs.class_if(distinct.len() >= 2, "batch_has_2_or_more_labels");
    obs.class_if(m > 256 && m % 256 != 0, "batch_above_256_not_multiple");
    // non-trivial: more than 256 rows in one call, at least two different components predicted
    obs.nontrivial_if(m > 256 && distinct.len() >= 2);
}
