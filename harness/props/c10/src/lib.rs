//! C10 — stub (to be written; see /verif/harness/AUTHORING.md and DESIGN.md §3 C10)
use vengine::Property;

pub fn property() -> Property {
    Property { id: "C10", rule: "", assumptions: vec![], subs: vec![] }
}
