//! C10 — a fitted Gaussian mixture is a valid mixture and yields valid probabilities.
//!
//! `data.rs` synthesises the training matrix and the query points of a case, `oracle.rs` fits
//! `linfa_clustering::GaussianMixtureModel` and judges the model (weights, means, covariances,
//! precisions) and `predict_proba` / `predict` against reference code of its own.

pub mod batch;
pub mod data;
pub mod mem;
pub mod oracle;

use data::{Case, Comp, Degenerate, Init, Layout, Query, FAR_S, MAX_DIMS};
use proptest::collection::vec;
use proptest::prelude::*;
use vengine::{enum_sub, prop_sub, Property, Tier};

fn comp_strategy() -> impl Strategy<Value = Comp> {
    (vec(-4i8..=4, MAX_DIMS), vec(-8i8..=3, MAX_DIMS), 1u8..=8)
        .prop_map(|(centre, log_scale, share)| Comp { centre, log_scale, share })
}

fn dir_strategy() -> impl Strategy<Value = Vec<i8>> {
    vec(-8i8..=8, MAX_DIMS)
}

fn query_strategy() -> impl Strategy<Value = Query> {
    let s = 0u8..FAR_S.len() as u8;
    prop_oneof![
        2 => any::<u16>().prop_map(Query::Train),
        2 => vec(any::<u16>(), MAX_DIMS).prop_map(Query::InBox),
        4 => (any::<u16>(), s.clone(), dir_strategy()).prop_map(|(comp, s, dir)| Query::FarComp { comp, s, dir }),
        4 => (s, dir_strategy()).prop_map(|(s, dir)| Query::FarAll { s, dir }),
    ]
}

fn case_strategy(tier: Tier) -> impl Strategy<Value = Case> {
    let layout = prop_oneof![
        Just(Layout::Separated),
        Just(Layout::Overlapping),
        Just(Layout::Anisotropic),
    ];
    let degenerate = prop_oneof![
        6 => Just(Degenerate::None),
        1 => Just(Degenerate::ConstantColumn),
        1 => Just(Degenerate::Quantised),
    ];
    let scale_idx = prop_oneof![3 => Just(0u8), 1 => Just(1u8), 1 => Just(2u8)];
    let offset_idx = prop_oneof![3 => Just(0u8), 1 => Just(1u8), 1 => Just(2u8)];
    let init = prop_oneof![Just(Init::KMeans), Just(Init::Random)];
    let n_runs = prop_oneof![4 => Just(1u8), 1 => Just(2u8), 1 => Just(3u8)];
    let max_iter = prop_oneof![1 => Just(1u32), 3 => Just(100u32), 10 => Just(500u32)];
    // unit of the data: 10^unit_exp (reg_covar scales with its square); 0 first so that shrinking goes to the unit scale
    let unit_exp = prop_oneof![
        5 => Just(0i8), 1 => Just(-2i8), 1 => Just(-4i8), 1 => Just(-6i8), 1 => Just(-9i8), 1 => Just(-12i8), 1 => Just(3i8), 1 => Just(6i8),
    ];
    let float32 = prop_oneof![3 => Just(false), 1 => Just(true)];
    let nmax = tier.pick(300usize, 600usize);
    let data = (
        1usize..=MAX_DIMS,
        layout,
        degenerate,
        scale_idx,
        offset_idx,
        30usize..=nmax,
        vec(comp_strategy(), 1..=4),
        any::<u64>(),
        unit_exp,
        float32,
    );
    let config = (1usize..=4, init, any::<u64>(), 0u8..3, 0u8..2, n_runs, max_iter);
    (data, config, vec(query_strategy(), 4..=12)).prop_map(
        |(
            (dims, layout, degenerate, scale_idx, offset_idx, n, comps, data_seed, unit_exp, f32),
            (n_clusters, init, rng_seed, reg_idx, tol_idx, n_runs, max_iter),
            queries,
        )| Case {
            dims,
            layout,
            degenerate,
            scale_idx,
            offset_idx,
            unit_exp,
            f32,
            n,
            comps,
            data_seed,
            n_clusters,
            init,
            rng_seed,
            reg_idx,
            tol_idx,
            n_runs,
            max_iter,
            queries,
        }
        .sanitised(),
    )
}

fn big_batch_strategy(tier: Tier) -> impl Strategy<Value = batch::BigCase> {
    (
        case_strategy(tier),
        2usize..=4,
        0u8..batch::BATCH_M.len() as u8,
        0u8..batch::SMALL.len() as u8,
        any::<u64>(),
    )
        .prop_map(|(mut base, k, m_idx, small_idx, batch_seed)| {
            // the stratum is about prediction: give the fit every chance, >= 2 components so labels differ
            base.n_clusters = k;
            base.max_iter = 500;
            base.n_runs = 1;
            base.queries = vec![];
            batch::BigCase { base, m_idx, small_idx, batch_seed }
        })
}

/// Deterministic grid: every far level, from every generating component and from the whole data
/// set, along an axis and along a diagonal, for a fixed family of data sets and every
/// (n_clusters, init, reg_covar) combination.
fn far_grid(tier: Tier) -> Vec<Case> {
    let mut out = vec![];
    let dims_list: &[usize] = match tier {
        Tier::Quick => &[1, 2, 5],
        Tier::Thorough => &[1, 2, 3, 4, 5, 6],
    };
    let layouts = [Layout::Separated, Layout::Overlapping, Layout::Anisotropic];
    let mut counter = 0u64;
    for &dims in dims_list {
        for (li, layout) in layouts.iter().enumerate() {
            for n_clusters in 1..=4usize {
                for init in [Init::KMeans, Init::Random] {
                    for reg_idx in 0..3u8 {
                        counter += 1;
                        let comps: Vec<Comp> = (0..3)
                            .map(|ci| Comp {
                                centre: (0..MAX_DIMS).map(|j| ((ci as i8) * 2 - 2) * if j % 2 == 0 { 1 } else { -1 }).collect(),
                                log_scale: (0..MAX_DIMS).map(|j| ((j as i8 * 3 + ci as i8 * 2) % 12) - 8).collect(),
                                share: 1 + ci as u8,
                            })
                            .collect();
                        let mut queries = vec![Query::Train(0), Query::Train(40000), Query::InBox(vec![32768; MAX_DIMS])];
                        for s in 0..FAR_S.len() as u8 {
                            let axis: Vec<i8> = (0..MAX_DIMS).map(|j| if j == (s as usize) % dims { -1 } else { 0 }).collect();
                            let diag: Vec<i8> = (0..MAX_DIMS).map(|j| if j % 2 == 0 { 3 } else { -2 }).collect();
                            for comp in [0u16, 30000, 65535] {
                                queries.push(Query::FarComp { comp, s, dir: if comp == 0 { axis.clone() } else { diag.clone() } });
                            }
                            queries.push(Query::FarAll { s, dir: axis });
                            queries.push(Query::FarAll { s, dir: diag });
                        }
                        let units = [0i8, -9, 3, -4, 0, -12, 6, -2, 0, -6];
                        out.push(Case {
                            unit_exp: units[(counter % units.len() as u64) as usize],
                            f32: counter % 4 == 3,
                            dims,
                            layout: *layout,
                            degenerate: Degenerate::None,
                            scale_idx: ((counter / 7) % 3) as u8,
                            offset_idx: ((counter / 5) % 3) as u8,
                            n: 60 + 30 * li + 20 * dims,
                            comps,
                            data_seed: 0xC10 + counter,
                            n_clusters,
                            init,
                            rng_seed: counter,
                            reg_idx,
                            tol_idx: (counter % 2) as u8,
                            n_runs: 1 + (counter % 5 == 0) as u8,
                            max_iter: 500,
                            queries,
                        }
                        .sanitised());
                    }
                }
            }
        }
    }
    out
}

pub fn property() -> Property {
    Property {
        id: "C10",
        rule: "case = (1..=4 generating Gaussian components in 1..=6 dims: separated / overlapping / anisotropic with random rotation; \
               global scale {1, 0.05, 20}, offset {0, 1e3, -1e4} scale units; data unit 10^e, e in {0,-2,-4,-6,-9,-12,3,6} (every coordinate, every query and sqrt(reg_covar) scale with it); f64 (75%) or f32 (25%: no degenerate column, reg_covar >= 1e-3 unit^2, 1e-1 for anisotropic, offset <= 1e3); optional constant column or grid-quantised rows; n 30..=300 (thorough 600); \
               rows derived from a generated u64), configuration (n_clusters 1..=4, KMeans|Random init, rng seed, reg_covar {1e-6,1e-3,1e-1} * unit^2, \
               tolerance {1e-3,1e-5}, n_runs 1..=3, max_n_iterations {1,100,500}), 4..=12 queries (training rows, box-uniform, \
               generating centre + s*sigma_max*u, data centroid + s*(radius+sqrt(reg))*u, s in {10,40,100,1e3,1e6}); plus a deterministic grid \
               (dims x layout x n_clusters x init x reg_covar) that asks every far level from every component. \
plus a large-batch stratum (big_batch: same data/configuration generator with n_clusters 2..=4; ONE predict / predict_proba call on m in {255,256,257,300,513,900,1025} rows derived from a generated u64: \
               50% repeated training rows, box-uniform, fresh points around generating centres, far points; non-trivial there = m > 256 and >= 2 distinct predicted components). \
               Non-trivial = fit succeeded with >= 2 components and >= 1 query at least 40 standard deviations (Mahalanobis, fitted model) from every component; \
               distinct = distinct canonical JSON of the case. Fits that return Err are counted as not judged (except max_n_iterations = 1, where Err is the required outcome)",
        assumptions: vec![
            "covariance type Full (the only one linfa offers); observations are finite; f64 and f32 models, every returned value converted exactly to f64 before it is judged".into(),
            "every tolerance is relative (to the covariance magnitude / data range) or dimensionless, so the obligations are independent of the data unit; the values below are the f64 ones. \
             f32 values: weights sum 2e-4, row sum 1e-4, bounding box 2e-4, symmetry 2e-4 sqrt(C_ii C_jj), lambda_min slack 1.2e-4 lambda_max, precisions 1.1e-4 (p cond + 1) (= 900 eps32), \
             log-density uncertainty 5.4e-4 cond (maha2+p), posterior floor 1e-4, margin floor 1e-3, batch-vs-small probabilities 1e-5".into(),
            "f32 cases stay inside the domain where single precision can represent a positive-definite covariance (condition number <~ 1e5): no constant/quantised columns, reg_covar >= 1e-3 unit^2".into(),
            "weights: each > 0, |sum - 1| <= 1e-9".into(),
            "means inside the per-feature data range extended by 1e-9 * max(|lo|,|hi|,hi-lo) (they are convex combinations of rows)".into(),
            "covariances: |C_ij - C_ji| <= 1e-12 sqrt(C_ii C_jj); the harness' own Cholesky of the symmetrised matrix must succeed; diag >= reg_covar (1-1e-9); \
             'diagonal includes the regularisation' is also read as C - reg_covar*I positive semi-definite: smallest eigenvalue (own Jacobi) >= reg_covar (1-1e-9) - 1e-11 * largest eigenvalue".into(),
            "precisions: max |P C - I| and max |C P - I| <= 2e-13 * p * cond(C) + 2e-13 (cond from own Jacobi eigenvalues; about 900 eps p cond, observed worst 2 eps p cond; DESIGN allowed 1e-6 cond)".into(),
            "predict_proba rows: all entries finite, >= 0, |row sum - 1| <= 1e-9; predict(x) has a probability >= row maximum - 1e-12".into(),
            "predict_proba is documented as the responsibilities: where the row is valid and the point is outside the exp-underflow domain it is compared with the posterior \
             recomputed from weights/means/covariances (own Cholesky, max-shifted log-sum-exp) with tolerance 1e-9 + 2 sum_j post_j * 1e-12 cond_j (maha2_j + p); rows where that tolerance exceeds 1e-3 are not compared".into(),
            "predict(x) is also compared with the most probable component of the reference posterior, judged only when the reference log-posterior margin exceeds 1e-6 + 1e-12 (cond_a (maha2_a+p) + cond_b (maha2_b+p)) (ties may be broken arbitrarily)".into(),
            "rows whose largest reference weighted log-density is below -700 are the exp-underflow domain of a log-sum-exp without max-shift; failures there carry their own signatures (proba:far-underflow-*, predict:far-underflow-*)".into(),
            "max_n_iterations = 1 can never satisfy the stopping rule (first lower-bound change is infinite), so Ok(model) there is a violation; every other Err is accepted without judging whether it was necessary".into(),
            "a panic inside fit / predict / predict_proba on generated (finite, n >= n_clusters) input is a violation".into(),
            "big_batch: every row of the single large call is judged by the same per-row oracle; additionally the same rows are predicted in batches of {1,7,64,100,250}: labels must agree unless the reference \
             log-posterior margin between the two answers is within 1e-6 + 1e-12 (cond_a (maha2_a+p) + cond_b (maha2_b+p)); probabilities must agree within 1e-12 (row-wise arithmetic does not depend on the batch)".into(),
            "trusted base: ndarray, the harness' naive Cholesky / Jacobi / matmul (vengine::num)".into(),
        ],
        subs: vec![
            prop_sub("fit_predict", 24000, 300000, case_strategy, oracle::check).chunks(16).require(&["fit_ok", "has_query_ge_40sd"]),
            enum_sub("far_grid", far_grid, oracle::check).chunks(8),
            prop_sub("big_batch", 560, 14000, big_batch_strategy, batch::check)
                .chunks(8)
                .require(&[
                    "batch_255", "batch_256", "batch_257", "batch_300", "batch_513", "batch_900", "batch_1025",
                    "batch_has_2_or_more_labels",
                ]),
        ],
    }
}
