fn main() {
    vengine::main(c10::property())
}
