//! Oracle for C10: everything here is recomputed from the model's *public accessors*
//! (weights, means, covariances, precisions) with naive reference code (own Cholesky, forward
//! substitution, Jacobi eigenvalues, max-shifted log-sum-exp). Nothing calls back into linfa.

use crate::data::{build, build_queries, Built, Case, Degenerate, Init, Layout};
use linfa::traits::{Fit, Predict};
use linfa::DatasetBase;
use linfa_clustering::{GaussianMixtureModel, GmmError, GmmInitMethod};
use ndarray::Array2;
use rand::SeedableRng;
use rand_xoshiro::Xoshiro256Plus;
use vengine::num::{cholesky, jacobi_eigh, matmul, Mat};
use vengine::Obs;

// ---- tolerances (each one is repeated in the evidence `assumptions`) ---------------------------
// All of them are relative (to the covariance magnitude, the data range, or dimensionless), so the
// obligations do not depend on the unit of the data.
#[derive(Debug, Clone, Copy)]
pub struct Tol {
    /// |sum(weights) - 1|
    pub weight_sum: f64,
    /// |sum(predict_proba row) - 1|
    pub row_sum: f64,
    /// means may leave the bounding box by this fraction of max(|lo|,|hi|,hi-lo) (they are convex combinations)
    pub box_rel: f64,
    /// |C_ij - C_ji| <= sym * sqrt(C_ii C_jj)
    pub sym: f64,
    /// diag >= reg (1 - reg_rel); lambda_min >= reg (1 - reg_rel) - reg_lmax_slack * lambda_max
    pub reg_rel: f64,
    pub reg_lmax_slack: f64,
    /// |P C - I|_max <= prec * p * cond(C) + prec   (about 900 eps p cond; observed worst 2 eps p cond)
    pub prec: f64,
    /// the predicted component's probability may be below the row maximum by at most this
    pub argmax: f64,
    /// relative uncertainty of a Mahalanobis distance^2 / log-determinant recomputed from the covariance: logp * cond
    pub logp: f64,
    /// floor of the posterior comparison and of the most-probable-component margin
    pub posterior_floor: f64,
    pub margin_floor: f64,
    /// whole-batch and small-batch probabilities of the same row may differ by this much
    pub batch_proba: f64,
    /// machine epsilon of the float type
    pub eps: f64,
}

impl Tol {
    pub const F64: Tol = Tol {
        weight_sum: 1e-9,
        row_sum: 1e-9,
        box_rel: 1e-9,
        sym: 1e-12,
        reg_rel: 1e-9,
        reg_lmax_slack: 1e-11,
        prec: 2e-13,
        argmax: 1e-12,
        logp: 1e-12,
        posterior_floor: 1e-9,
        margin_floor: 1e-6,
        batch_proba: 1e-12,
        eps: f64::EPSILON,
    };
    /// single precision (eps = 1.2e-7): the same multiples of eps where the f64 value is a multiple of
    /// eps, a few thousand eps where the f64 value is the statement's 1e-9
    pub const F32: Tol = Tol {
        weight_sum: 2e-4,
        row_sum: 1e-4,
        box_rel: 2e-4,
        sym: 2e-4,
        reg_rel: 1e-6,
        reg_lmax_slack: 1.2e-4,
        prec: 1.1e-4,
        argmax: 1e-12,
        logp: 5.4e-4,
        posterior_floor: 1e-4,
        margin_floor: 1e-3,
        batch_proba: 1e-5,
        eps: f32::EPSILON as f64,
    };
}

/// rows whose largest weighted log-density (reference) is below this are in the domain where
/// `ln(sum(exp(.)))` without a max-shift leaves the normal float range (exp(-708.4) is the
/// smallest normal number, exp(-745.2) rounds to 0)
pub const UNDERFLOW_EDGE: f64 = -700.0;

pub struct RefComp {
    pub lnw: f64,
    pub mu: Vec<f64>,
    /// lower Cholesky factor of the (symmetrised) covariance
    pub l: Mat,
    pub logdet: f64,
    pub lmin: f64,
    pub lmax: f64,
}

impl RefComp {
    pub fn cond(&self) -> f64 {
        if self.lmin > 0.0 {
            self.lmax / self.lmin
        } else {
            f64::INFINITY
        }
    }
    /// squared Mahalanobis distance by forward substitution L y = x - mu
    pub fn maha2(&self, x: &[f64]) -> f64 {
        let p = self.mu.len();
        let mut y = vec![0.0; p];
        for i in 0..p {
            let mut s = x[i] - self.mu[i];
            for k in 0..i {
                s -= self.l[i][k] * y[k];
            }
            y[i] = s / self.l[i][i];
        }
        y.iter().map(|v| v * v).sum()
    }
    pub fn wlp(&self, m2: f64) -> f64 {
        let p = self.mu.len() as f64;
        self.lnw - 0.5 * (p * (2.0 * std::f64::consts::PI).ln() + self.logdet + m2)
    }
}

fn f<F: linfa::Float>(v: F) -> f64 {
    v.to_f64().unwrap_or(f64::NAN)
}

fn to_mat2<F: linfa::Float>(a: &ndarray::ArrayView2<F>) -> Mat {
    a.rows().into_iter().map(|r| r.iter().map(|v| f(*v)).collect()).collect()
}

/// The fitted model in the float type of the case; every value the oracle looks at is converted
/// (exactly) to f64.
pub enum Model {
    F64(GaussianMixtureModel<f64>),
    F32(GaussianMixtureModel<f32>),
}

pub struct ModelParams {
    pub w: Vec<f64>,
    pub means: Mat,
    pub covs: Vec<Mat>,
    pub precs: Vec<Mat>,
    pub shapes: String,
}

fn params_of<F: linfa::Float>(m: &GaussianMixtureModel<F>) -> ModelParams {
    ModelParams {
        w: m.weights().iter().map(|v| f(*v)).collect(),
        means: to_mat2(&m.means().view()),
        covs: m.covariances().outer_iter().map(|c| to_mat2(&c)).collect(),
        precs: m.precisions().outer_iter().map(|c| to_mat2(&c)).collect(),
        shapes: format!(
            "weights {:?}, means {:?}, covariances {:?}, precisions {:?}",
            m.weights().shape(),
            m.means().shape(),
            m.covariances().shape(),
            m.precisions().shape()
        ),
    }
}

fn rows_to_array<F: linfa::Float>(rows: &[&[f64]], p: usize) -> Option<Array2<F>> {
    let mut flat: Vec<F> = Vec::with_capacity(rows.len() * p);
    for r in rows {
        for v in r.iter() {
            flat.push(<F as num_traits::NumCast>::from(*v)?);
        }
    }
    Array2::from_shape_vec((rows.len(), p), flat).ok()
}

fn proba_of<F: linfa::Float>(m: &GaussianMixtureModel<F>, rows: &[&[f64]], p: usize) -> Option<((usize, usize), Mat)> {
    let x = rows_to_array::<F>(rows, p)?;
    let pr = m.predict_proba(&x);
    Some((pr.dim(), to_mat2(&pr.view())))
}

fn labels_of<F: linfa::Float>(m: &GaussianMixtureModel<F>, rows: &[&[f64]], p: usize) -> Option<Vec<usize>> {
    let x = rows_to_array::<F>(rows, p)?;
    Some(m.predict(&x).to_vec())
}

impl Model {
    pub fn params(&self) -> ModelParams {
        match self {
            Model::F64(m) => params_of(m),
            Model::F32(m) => params_of(m),
        }
    }
    /// one `predict_proba` call on all rows; (shape, rows as f64)
    pub fn predict_proba(&self, rows: &[&[f64]], p: usize) -> Option<((usize, usize), Mat)> {
        match self {
            Model::F64(m) => proba_of(m, rows, p),
            Model::F32(m) => proba_of(m, rows, p),
        }
    }
    /// one `predict` call on all rows
    pub fn predict(&self, rows: &[&[f64]], p: usize) -> Option<Vec<usize>> {
        match self {
            Model::F64(m) => labels_of(m, rows, p),
            Model::F32(m) => labels_of(m, rows, p),
        }
    }
}

fn fit_as<F: linfa::Float>(c: &Case, b: &Built, k: usize, max_iter: u64, n_runs: u64) -> Option<Result<GaussianMixtureModel<F>, GmmError>> {
    let rows: Vec<&[f64]> = b.rows.iter().map(|r| r.as_slice()).collect();
    let records = rows_to_array::<F>(&rows, b.dims)?;
    // memory layout of the training records, derived from the case (see `train_mem`): the logical matrix is the same
    let m = train_mem(c);
    let junk = <F as num_traits::NumCast>::from(1.0e30)?;
    let backing = crate::mem::backing(&records, m, junk);
    let (n, p) = records.dim();
    let params = GaussianMixtureModel::<F>::params_with_rng(k, Xoshiro256Plus::seed_from_u64(c.rng_seed))
        .init_method(match c.init {
            Init::KMeans => GmmInitMethod::KMeans,
            Init::Random => GmmInitMethod::Random,
        })
        .reg_covariance(<F as num_traits::NumCast>::from(c.reg())?)
        .tolerance(<F as num_traits::NumCast>::from(c.tol())?)
        .n_runs(n_runs)
        .max_n_iterations(max_iter);
    if crate::mem::is_view(m) {
        Some(params.fit(&DatasetBase::from(crate::mem::view_of(&backing, m, n, p))))
    } else {
        Some(params.fit(&DatasetBase::from(crate::mem::owned(&records, m))))
    }
}

/// Memory layout of the training records (index into `mem::mem_name`), a function of the generated RNG seed so that
/// every stored case keeps its meaning: owned row-/column-major, views row-/column-major / strided with gaps / reversed rows.
pub fn train_mem(c: &Case) -> u8 {
    (c.rng_seed % crate::mem::MEMS as u64) as u8
}
/// memory layout of the query batches handed to predict / predict_proba
pub fn query_mem(c_seed: u64) -> u8 {
    ((c_seed / crate::mem::MEMS as u64) % crate::mem::MEMS as u64) as u8
}

fn classify_case(c: &Case, b: &Built, obs: &mut Obs) {
    obs.class(match c.layout {
        Layout::Separated => "layout_separated",
        Layout::Overlapping => "layout_overlapping",
        Layout::Anisotropic => "layout_anisotropic",
    });
    obs.class(crate::mem::mem_name(train_mem(c)));
    obs.class(match c.degenerate {
        Degenerate::None => "data_generic",
        Degenerate::ConstantColumn => "data_constant_column",
        Degenerate::Quantised => "data_quantised",
    });
    obs.class(match c.init {
        Init::KMeans => "init_kmeans",
        Init::Random => "init_random",
    });
    obs.class(match c.p() {
        1 => "dims_1",
        2 => "dims_2",
        3 | 4 => "dims_3_4",
        _ => "dims_5_6",
    });
    obs.class(match c.k() {
        1 => "k_1",
        2 => "k_2",
        3 => "k_3",
        _ => "k_4",
    });
    obs.class(match c.reg_idx {
        0 => "reg_1e-6",
        1 => "reg_1e-3",
        _ => "reg_1e-1",
    });
    obs.class(if c.tol_idx == 0 { "tol_1e-3" } else { "tol_1e-5" });
    obs.class_if(c.n_runs >= 2, "n_runs_ge_2");
    obs.class(if c.f32 { "float_f32" } else { "float_f64" });
    obs.class(match c.unit_exp {
        i8::MIN..=-10 => "unit_1e-12",
        -9..=-7 => "unit_1e-9",
        -6..=-5 => "unit_1e-6",
        -4..=-3 => "unit_1e-4",
        -2..=-1 => "unit_1e-2",
        0 => "unit_1",
        1..=4 => "unit_1e3",
        _ => "unit_1e6",
    });
    obs.class_if(c.scale_idx == 1, "scale_small");
    obs.class_if(c.scale_idx >= 2, "scale_large");
    obs.class_if(c.offset_idx >= 1, "offset_nonzero");
    let m = b.centres.len();
    obs.class_if(c.k() > m, "k_above_generating_components");
    obs.class_if(c.k() < m, "k_below_generating_components");
    obs.class_if(c.k() == m, "k_equals_generating_components");
    obs.class_if(b.distinct_rows < b.rows.len(), "duplicate_rows");
    obs.class_if(b.rows.len() <= 40, "n_le_40");
    obs.class_if(b.rows.len() >= 200, "n_ge_200");
}

fn err_class(e: &GmmError) -> &'static str {
    match e {
        GmmError::InvalidValue(_) => "fit_err_invalid_value",
        GmmError::LinalgError(_) => "fit_err_linalg",
        GmmError::EmptyCluster(_) => "fit_err_empty_cluster",
        GmmError::LowerBoundError(_) => "fit_err_lower_bound",
        GmmError::NotConverged(_) => "fit_err_not_converged",
        GmmError::KMeansError(_) => "fit_err_kmeans",
        GmmError::LinfaError(_) => "fit_err_linfa",
        GmmError::MinMaxError(_) => "fit_err_minmax",
    }
}

/// A successfully fitted model together with the reference quantities recomputed from its accessors.
pub struct Fitted {
    pub model: Model,
    pub tol: Tol,
    pub refs: Vec<RefComp>,
    pub k: usize,
    pub p: usize,
}

/// What `judge_rows` saw: labels / probabilities as returned by linfa and the reference
/// weighted log-densities (with their uncertainty) of every row.
pub struct RowOut {
    pub far40: bool,
    pub labels: Option<Vec<usize>>,
    pub proba: Option<Mat>,
    pub wl: Vec<Vec<f64>>,
    pub dwl: Vec<Vec<f64>>,
}

pub fn check(c: &Case, obs: &mut Obs) {
    let c = &c.clone().sanitised();
    let b = build(c);
    let Some(f) = fit_model(c, &b, obs) else {
        return;
    };
    let queries = build_queries(c, &b);
    if queries.is_empty() {
        obs.class("no_queries");
        return;
    }
    let Some(out) = judge_rows(obs, &f, &queries) else {
        return;
    };
    obs.class_if(out.far40, "has_query_ge_40sd");
    // NT rule: successful fit with >= 2 components and >= 1 query at least 40 standard deviations from every fitted component
    obs.nontrivial_if(f.k >= 2 && out.far40);
}

/// Fits the mixture described by the case and judges the model itself (obligation 1 of the
/// property). `None`: fit failed / was not judged / the model is too broken to predict with.
pub fn fit_model(c: &Case, b: &Built, obs: &mut Obs) -> Option<Fitted> {
    let p = b.dims;
    let k = c.k();
    let n = b.rows.len();
    if n < k.max(2) || p == 0 {
        obs.skip("case_too_small");
        return None;
    }
    classify_case(c, b, obs);
    let reg = c.reg();

    let tol = if c.f32 { Tol::F32 } else { Tol::F64 };
    let max_iter = c.max_iter.max(1) as u64;
    let n_runs = c.n_runs.clamp(1, 4) as u64;
    let fitted = obs.call("fit", || {
        if c.f32 {
            fit_as::<f32>(c, b, k, max_iter, n_runs).map(|r| r.map(Model::F32))
        } else {
            fit_as::<f64>(c, b, k, max_iter, n_runs).map(|r| r.map(Model::F64))
        }
    })?;
    let Some(res) = fitted else {
        obs.skip("case_malformed");
        return None;
    };
    let forced_unconverged = max_iter == 1;
    obs.class_if(forced_unconverged, "max_iter_1_cannot_converge");
    let model = match res {
        Ok(m) => m,
        Err(e) => {
            if forced_unconverged {
                // judged: a single EM iteration can never meet the stopping rule, an error is the required outcome
                obs.class("forced_unconverged_reported_as_error");
                obs.class(err_class(&e));
            } else {
                obs.class(err_class(&e));
                obs.skip("fit_failed_not_judged");
            }
            return None;
        }
    };
    obs.class("fit_ok");
    // "failure to converge ... is reported as an error": with max_n_iterations = 1 the first (and only)
    // lower-bound change of every run is +inf, so no run can have converged.
    obs.ensure(!forced_unconverged, "fit:unconverged-run-returned-a-model", || {
        "max_n_iterations = 1 (first lower-bound change is infinite, the stopping rule cannot be met) but fit returned Ok(model)".into()
    });

    // ---------------- (1) the model is a valid mixture
    let ModelParams { w, means, covs, precs, shapes } = model.params();
    let shape_ok = w.len() == k
        && means.len() == k
        && means.iter().all(|r| r.len() == p)
        && covs.len() == k
        && covs.iter().all(|m| m.len() == p && m.iter().all(|r| r.len() == p))
        && precs.len() == k
        && precs.iter().all(|m| m.len() == p && m.iter().all(|r| r.len() == p));
    if !obs.ensure(shape_ok, "model:shape", || {
        format!("n_clusters {k}, {p} features: {shapes}")
    }) {
        return None;
    }
    let all_finite = w.iter().all(|v| v.is_finite())
        && means.iter().flatten().all(|v| v.is_finite())
        && covs.iter().flatten().flatten().all(|v| v.is_finite())
        && precs.iter().flatten().flatten().all(|v| v.is_finite());
    if !obs.ensure(all_finite, "model:non-finite-parameter", || {
        format!("fit returned Ok but a parameter is not finite: weights {:?}, means {:?}", w, means)
    }) {
        return None;
    }

    obs.ensure(w.iter().all(|v| *v > 0.0), "weights:not-positive", || format!("weights {:?}", w));
    let ws: f64 = w.iter().sum();
    obs.ensure((ws - 1.0).abs() <= tol.weight_sum, "weights:sum-not-one", || {
        format!("weights {:?} sum to {ws}", w)
    });

    for (ki, mu) in means.iter().enumerate() {
        for j in 0..p {
            let slack = tol.box_rel * b.lo[j].abs().max(b.hi[j].abs()).max(b.hi[j] - b.lo[j]);
            obs.ensure(
                mu[j] >= b.lo[j] - slack && mu[j] <= b.hi[j] + slack,
                "means:outside-bounding-box",
                || format!("component {ki} feature {j}: mean {} outside data range [{}, {}]", mu[j], b.lo[j], b.hi[j]),
            );
        }
    }

    let mut refs: Vec<RefComp> = vec![];
    let mut model_ok = true;
    for ki in 0..k {
        let cm = &covs[ki];
        let mut sym_ok = true;
        for i in 0..p {
            for j in 0..i {
                let lim = tol.sym * (cm[i][i].abs() * cm[j][j].abs()).sqrt();
                if (cm[i][j] - cm[j][i]).abs() > lim {
                    sym_ok = false;
                    obs.fail(
                        "cov:asymmetric",
                        format!("component {ki}: C[{i}][{j}] = {} but C[{j}][{i}] = {}", cm[i][j], cm[j][i]),
                    );
                }
            }
        }
        for i in 0..p {
            obs.ensure(cm[i][i] >= reg * (1.0 - tol.reg_rel), "cov:diagonal-below-regularisation", || {
                format!("component {ki}: C[{i}][{i}] = {} < reg_covar {reg}", cm[i][i])
            });
        }
        let sym: Mat = (0..p).map(|i| (0..p).map(|j| 0.5 * (cm[i][j] + cm[j][i])).collect()).collect();
        let Some(l) = cholesky(&sym) else {
            obs.fail(
                "cov:not-positive-definite",
                format!("component {ki}: reference Cholesky of the covariance fails: {:?}", cm),
            );
            model_ok = false;
            continue;
        };
        let (vals, _) = jacobi_eigh(&sym);
        let lmax = vals.first().copied().unwrap_or(f64::NAN);
        let lmin = vals.last().copied().unwrap_or(f64::NAN);
        // covariance = weighted scatter (positive semi-definite) + reg_covar * I  =>  smallest eigenvalue >= reg_covar
        obs.ensure(
            lmin >= reg * (1.0 - tol.reg_rel) - tol.reg_lmax_slack * lmax,
            "cov:regularisation-not-included",
            || format!("component {ki}: smallest eigenvalue {lmin} of the covariance is below reg_covar {reg} (largest {lmax})"),
        );
        obs.class_if(lmin <= reg * 1.5, "cov_smallest_eigenvalue_is_regularisation");
        obs.class_if(lmax < tol.eps, "cov_entries_below_float_epsilon");
        let rc = RefComp {
            lnw: w[ki].ln(),
            mu: means[ki].clone(),
            logdet: 2.0 * (0..p).map(|i| l[i][i].ln()).sum::<f64>(),
            l,
            lmin,
            lmax,
        };
        let cond = rc.cond();
        obs.class_if(cond >= 1e4, "cov_cond_ge_1e4");
        obs.class_if(cond >= 1e8, "cov_cond_ge_1e8");
        if sym_ok && cond.is_finite() {
            let lim = tol.prec * p as f64 * cond + tol.prec;
            let pc = matmul(&precs[ki], cm);
            let cp = matmul(cm, &precs[ki]);
            let mut worst = 0.0f64;
            for i in 0..p {
                for j in 0..p {
                    let e = if i == j { 1.0 } else { 0.0 };
                    worst = worst.max((pc[i][j] - e).abs()).max((cp[i][j] - e).abs());
                }
            }
            obs.class_if(lim < 1e-6, "precision_check_tight");
            obs.ensure(worst <= lim, "precisions:not-inverse-of-covariance", || {
                format!(
                    "component {ki}: max |P*C - I| = {worst:e} (allowed {lim:e}, cond {cond:e}); P = {:?}, C = {:?}",
                    precs[ki], cm
                )
            });
        }
        refs.push(rc);
    }
    if !model_ok || refs.len() != k {
        return None;
    }

    Some(Fitted { model, tol, refs, k, p })
}

/// Obligation 2: `predict_proba` / `predict` on the given rows (one call each for the whole batch),
/// every row judged against the reference posterior.
pub fn judge_rows(obs: &mut Obs, f: &Fitted, queries: &[(Vec<f64>, Option<usize>)]) -> Option<RowOut> {
    let (model, refs, k, p, tol) = (&f.model, &f.refs, f.k, f.p, f.tol);
    let nq = queries.len();
    let qrows: Vec<&[f64]> = queries.iter().map(|(x, _)| x.as_slice()).collect();
    if qrows.iter().any(|r| r.len() != p) {
        return None;
    }
    let proba = obs.call("predict_proba", || model.predict_proba(&qrows, p)).flatten();
    let pred = obs.call("predict", || model.predict(&qrows, p)).flatten();
    let proba_rows: Option<Mat> = proba.as_ref().map(|a| a.1.clone());
    if let Some(pr) = &proba_rows {
        if !obs.ensure(pr.len() == nq && pr.iter().all(|r| r.len() == k), "proba:shape", || {
            format!("predict_proba returned shape {:?} for {nq} rows and {k} components", proba.as_ref().map(|a| a.0))
        }) {
            return None;
        }
    }
    if let Some(pd) = &pred {
        if !obs.ensure(pd.len() == nq, "predict:shape", || format!("predict returned {} labels for {nq} rows", pd.len())) {
            return None;
        }
    }
    let mut far40 = false;
    let mut all_wl: Vec<Vec<f64>> = Vec::with_capacity(nq);
    let mut all_dwl: Vec<Vec<f64>> = Vec::with_capacity(nq);
    for (qi, (x, nominal)) in queries.iter().enumerate() {
        let m2: Vec<f64> = refs.iter().map(|r| r.maha2(x)).collect();
        let wl: Vec<f64> = refs.iter().zip(&m2).map(|(r, m)| r.wlp(*m)).collect();
        if !wl.iter().all(|v| v.is_finite()) {
            obs.class("query_reference_not_finite");
            all_wl.push(vec![]);
            all_dwl.push(vec![]);
            continue;
        }
        let dmin = m2.iter().copied().fold(f64::INFINITY, f64::min).sqrt();
        let top = wl.iter().copied().fold(f64::NEG_INFINITY, f64::max);
        let underflow = top < UNDERFLOW_EDGE;
        match nominal {
            None => obs.class("query_near"),
            Some(0) => obs.class("query_nominal_10sd"),
            Some(1) => obs.class("query_nominal_40sd"),
            Some(2) => obs.class("query_nominal_100sd"),
            Some(3) => obs.class("query_nominal_1e3sd"),
            Some(_) => obs.class("query_nominal_1e6sd"),
        }
        obs.class_if(dmin >= 10.0, "query_ge_10sd_from_every_fitted_component");
        obs.class_if(dmin >= 40.0, "query_ge_40sd_from_every_fitted_component");
        obs.class_if(dmin >= 1e3, "query_ge_1e3sd_from_every_fitted_component");
        obs.class_if(dmin >= 1e5, "query_ge_1e5sd_from_every_fitted_component");
        obs.class_if(underflow, "query_in_exp_underflow_domain");
        obs.class_if(top < -708.0 && top > -745.0, "query_in_denormal_band");
        far40 |= dmin >= 40.0;

        // reference posterior (max-shifted log-sum-exp)
        let lse = top + wl.iter().map(|v| (v - top).exp()).sum::<f64>().ln();
        let post: Vec<f64> = wl.iter().map(|v| (v - lse).exp()).collect();
        // uncertainty of each reference/linfa log-density (Cholesky of a matrix with condition number cond)
        let dwl: Vec<f64> = refs
            .iter()
            .zip(&m2)
            .map(|(r, m)| tol.logp * r.cond() * (m + p as f64))
            .collect();
        let best = (0..k).fold(0usize, |bst, i| if wl[i] > wl[bst] { i } else { bst });
        all_wl.push(wl.clone());
        all_dwl.push(dwl.clone());

        let mut row_valid = false;
        if let Some(pr) = &proba_rows {
            let g = &pr[qi];
            let finite = g.iter().all(|v| v.is_finite());
            let sum: f64 = g.iter().sum();
            if !finite {
                if underflow {
                    obs.fail(
                        "proba:far-underflow-non-finite",
                        format!(
                            "predict_proba({:?}) = {:?}; the point is {dmin:.3e} standard deviations from the nearest component, \
                             largest weighted log-density {top:.1}: ln(sum(exp(.))) without max-shift is ln(0)",
                            x, g
                        ),
                    );
                } else {
                    obs.fail(
                        "proba:non-finite",
                        format!("predict_proba({:?}) = {:?} (nearest component {dmin:.3e} sd away, largest weighted log-density {top:.3})", x, g),
                    );
                }
            } else {
                let nonneg = obs.ensure(g.iter().all(|v| *v >= 0.0), "proba:negative", || {
                    format!("predict_proba({:?}) = {:?}", x, g)
                });
                let sum_ok = (sum - 1.0).abs() <= tol.row_sum;
                if !sum_ok {
                    if underflow {
                        obs.fail(
                            "proba:far-underflow-row-sum",
                            format!(
                                "predict_proba({:?}) = {:?} sums to {sum}; largest weighted log-density {top:.1}: \
                                 exp(.) is denormal/zero, ln(sum(exp(.))) without max-shift loses the normalisation",
                                x, g
                            ),
                        );
                    } else {
                        obs.fail(
                            "proba:row-sum-not-one",
                            format!("predict_proba({:?}) = {:?} sums to {sum} (largest weighted log-density {top:.3})", x, g),
                        );
                    }
                }
                row_valid = nonneg && sum_ok;
            }
            // documented meaning of predict_proba: the responsibilities of the fitted mixture
            if row_valid && !underflow {
                let slack: f64 = tol.posterior_floor + 2.0 * (0..k).map(|j| post[j] * dwl[j]).sum::<f64>();
                if slack < 1e-3 {
                    obs.class("posterior_compared");
                    let worst = (0..k).map(|j| (g[j] - post[j]).abs()).fold(0.0f64, f64::max);
                    obs.ensure(worst <= slack, "proba:not-the-posterior", || {
                        format!(
                            "predict_proba({:?}) = {:?}, posterior recomputed from weights/means/covariances = {:?} (allowed deviation {slack:e})",
                            x, g, post
                        )
                    });
                } else {
                    obs.class("posterior_not_compared_ill_conditioned");
                }
            }
            if let Some(pd) = &pred {
                let lab = pd[qi];
                if obs.ensure(lab < k, "predict:label-out-of-range", || format!("predict({:?}) = {lab} with {k} components", x)) {
                    if finite {
                        let mx = g.iter().copied().fold(f64::NEG_INFINITY, f64::max);
                        obs.ensure(g[lab] >= mx - tol.argmax, "predict:not-argmax-of-proba", || {
                            format!("predict({:?}) = {lab} but predict_proba gives {:?}", x, g)
                        });
                    }
                }
            }
        }
        if let Some(pd) = &pred {
            let lab = pd[qi];
            if lab < k {
                // margin rule: judged only when the reference log-posterior separates the two components
                let margin = wl[best] - wl[lab];
                let lim = tol.margin_floor + dwl[best] + dwl[lab];
                if margin > lim {
                    if underflow {
                        obs.fail(
                            "predict:far-underflow-wrong-component",
                            format!(
                                "predict({:?}) = {lab}, but component {best} is more probable by {margin:.3e} in log-posterior \
                                 (largest weighted log-density {top:.1}; all probabilities computed by linfa are inf/unnormalised there)",
                                x
                            ),
                        );
                    } else {
                        obs.fail(
                            "predict:not-most-probable",
                            format!(
                                "predict({:?}) = {lab}, reference weighted log-densities {:?}: component {best} is more probable by {margin:.3e} (tolerance {lim:.3e})",
                                x, wl
                            ),
                        );
                    }
                } else if lab != best {
                    obs.class("predict_tie_within_margin");
                }
            }
        }
    }
    Some(RowOut {
        far40,
        labels: pred,
        proba: proba_rows,
        wl: all_wl,
        dwl: all_dwl,
    })
}
