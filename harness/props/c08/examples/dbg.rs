use c08::oracle::*;
use c08::run;
fn main() {
    let path = std::env::args().nth(1).unwrap();
    let v: serde_json::Value = serde_json::from_str(&std::fs::read_to_string(path).unwrap()).unwrap();
    let c: c08::Case = serde_json::from_value(v["case"].clone()).unwrap();
    let x = run::to_array(&c.pts, c.dim).unwrap();
    let g = Geometry::new(&c.pts, c.metric, c.tol);
    println!("tie {} ambiguous {} tol {:?} tol^2 {:?}", g.tie, g.ambiguous, c.tol, c.tol * c.tol);
    for (nn, name) in run::INDICES.iter() {
        println!("== {name}");
        let d = run::dbscan(&x, c.min_points, c.tol, c.metric, nn.clone(), false);
        println!("dbscan {:?}", d);
        let o = run::optics(&x, c.min_points, c.tol, c.metric, nn.clone()).unwrap();
        for s in &o {
            println!("  {:?}", s);
        }
        for conv in [Conv::Strict, Conv::Inclusive] {
            let dens = Density::new(&g, c.min_points, conv);
            let v = optics_violations(&g, &dens, c.min_points, &o);
            println!(" {:?}: {} violations", conv, v.violations.len());
            for (s, m) in v.violations.iter().take(6) {
                println!("    {s}: {m}");
            }
        }
    }
}
