//! Reference side of C08: distances, density predicates and the validity predicates for a DBSCAN
//! labelling and an OPTICS listing, all written from the definitions in the property statement.
//! Nothing here calls into linfa.

use serde::{Deserialize, Serialize};

/// Relative tolerance for a distance recomputed by the harness' own formula (DESIGN §1.5:
/// `64·eps·scale`; `scale` is the larger of the two compared magnitudes).
pub const DIST_REL_TOL: f64 = 64.0 * f64::EPSILON;
/// A tolerance closer than this (relatively) to a pairwise distance it is not bit-equal to is
/// "ambiguous": rounding inside the neighbour index may legitimately decide either way.
pub const AMBIGUOUS_BAND: f64 = 1e-9;

#[derive(Debug, Clone, Copy, Serialize, Deserialize, PartialEq, Eq)]
pub enum Metric {
    L1,
    L2,
    LInf,
}

pub fn dist(a: &[f64], b: &[f64], m: Metric) -> f64 {
    let it = a.iter().zip(b.iter()).map(|(x, y)| x - y);
    match m {
        Metric::L1 => it.fold(0.0, |s, d| s + d.abs()),
        Metric::L2 => it.fold(0.0, |s, d| s + d * d).sqrt(),
        Metric::LInf => it.fold(0.0, |s: f64, d| s.max(d.abs())),
    }
}

pub fn close(a: f64, b: f64) -> bool {
    a == b || (a - b).abs() <= DIST_REL_TOL * a.abs().max(b.abs())
}

pub fn opt_close(a: Option<f64>, b: Option<f64>) -> bool {
    match (a, b) {
        (None, None) => true,
        (Some(x), Some(y)) => close(x, y),
        _ => false,
    }
}

/// Neighbourhood convention: `d < tol` (the property's) or `d <= tol` (accepted only when the
/// tolerance is bit-equal to an inter-point distance, and then for the whole run).
#[derive(Debug, Clone, Copy, PartialEq, Eq)]
pub enum Conv {
    Strict,
    Inclusive,
}

impl Conv {
    pub fn within(self, d: f64, tol: f64) -> bool {
        match self {
            Conv::Strict => d < tol,
            Conv::Inclusive => d <= tol,
        }
    }
    pub fn name(self) -> &'static str {
        match self {
            Conv::Strict => "strict",
            Conv::Inclusive => "inclusive",
        }
    }
}

/// Pairwise distances and how the tolerance sits among them.
pub struct Geometry {
    pub n: usize,
    pub dm: Vec<Vec<f64>>,
    pub tol: f64,
    /// tolerance bit-equal to at least one inter-point distance
    pub tie: bool,
    /// tolerance within `AMBIGUOUS_BAND` (relative) of a distance it is not equal to
    pub ambiguous: bool,
}

impl Geometry {
    pub fn new(pts: &[Vec<f64>], metric: Metric, tol: f64) -> Geometry {
        let n = pts.len();
        let mut dm = vec![vec![0.0; n]; n];
        let mut tie = false;
        let mut ambiguous = false;
        for i in 0..n {
            for j in (i + 1)..n {
                let d = dist(&pts[i], &pts[j], metric);
                dm[i][j] = d;
                dm[j][i] = d;
                if d == tol {
                    tie = true;
                } else if (d - tol).abs() <= AMBIGUOUS_BAND * tol {
                    ambiguous = true;
                }
            }
        }
        Geometry { n, dm, tol, tie, ambiguous }
    }
}

/// Neighbourhoods (index order, the point itself included) and core flags under one convention.
pub struct Density {
    pub conv: Conv,
    pub nb: Vec<Vec<usize>>,
    pub core: Vec<bool>,
    /// component id of every core point in the graph "core points within the tolerance of each other"
    pub comp: Vec<Option<usize>>,
    pub ncomp: usize,
}

impl Density {
    pub fn new(g: &Geometry, min_points: usize, conv: Conv) -> Density {
        let n = g.n;
        let nb: Vec<Vec<usize>> = (0..n)
            .map(|i| (0..n).filter(|&j| conv.within(g.dm[i][j], g.tol)).collect())
            .collect();
        let core: Vec<bool> = nb.iter().map(|v| v.len() >= min_points).collect();
        let mut comp: Vec<Option<usize>> = vec![None; n];
        let mut ncomp = 0;
        for s in 0..n {
            if !core[s] || comp[s].is_some() {
                continue;
            }
            let mut stack = vec![s];
            comp[s] = Some(ncomp);
            while let Some(u) = stack.pop() {
                for &v in &nb[u] {
                    if core[v] && comp[v].is_none() {
                        comp[v] = Some(ncomp);
                        stack.push(v);
                    }
                }
            }
            ncomp += 1;
        }
        Density { conv, nb, core, comp, ncomp }
    }

    /// components of the core points that reach `i` (sorted, distinct)
    pub fn reaching_components(&self, i: usize) -> Vec<usize> {
        let mut v: Vec<usize> = self.nb[i].iter().filter(|&&j| self.core[j]).filter_map(|&j| self.comp[j]).collect();
        v.sort_unstable();
        v.dedup();
        v
    }
    pub fn is_border(&self, i: usize) -> bool {
        !self.core[i] && self.nb[i].iter().any(|&j| self.core[j])
    }
    pub fn is_noise(&self, i: usize) -> bool {
        !self.core[i] && !self.nb[i].iter().any(|&j| self.core[j])
    }
}

pub type Violations = Vec<(&'static str, String)>;

/// Every clause of the DBSCAN half of the statement, checked against a label vector.
pub fn dbscan_violations(d: &Density, labels: &[Option<usize>]) -> Violations {
    let mut out: Violations = vec![];
    let n = d.core.len();
    if labels.len() != n {
        out.push(("dbscan:length", format!("{} labels for {} points", labels.len(), n)));
        return out;
    }
    let cv = d.conv.name();
    // labelled <=> core or within the tolerance of a core point
    for i in 0..n {
        let should = d.core[i] || d.is_border(i);
        if should && labels[i].is_none() {
            let what = if d.core[i] { "core point" } else { "border point" };
            out.push((
                if d.core[i] { "dbscan:core-unlabelled" } else { "dbscan:border-unlabelled" },
                format!("[{cv}] point {i} is a {what} ({} points within the tolerance) but is labelled noise", d.nb[i].len()),
            ));
        }
        if !should && labels[i].is_some() {
            out.push((
                "dbscan:noise-labelled",
                format!(
                    "[{cv}] point {i} has {} points within the tolerance, none of them core, but carries label {:?}",
                    d.nb[i].len(),
                    labels[i]
                ),
            ));
        }
    }
    // two core points within the tolerance of each other carry the same label
    for i in 0..n {
        if !d.core[i] {
            continue;
        }
        for &j in &d.nb[i] {
            if j > i && d.core[j] && labels[i].is_some() && labels[j].is_some() && labels[i] != labels[j] {
                out.push((
                    "dbscan:core-split",
                    format!("[{cv}] core points {i} and {j} are within the tolerance but carry labels {:?} and {:?}", labels[i], labels[j]),
                ));
            }
        }
    }
    // core points of different components carry different labels
    let mut label_of_comp: Vec<Option<usize>> = vec![None; d.ncomp];
    for i in 0..n {
        if let (Some(c), Some(l)) = (d.comp[i], labels[i]) {
            if label_of_comp[c].is_none() {
                label_of_comp[c] = Some(l);
            }
        }
    }
    for a in 0..d.ncomp {
        for b in (a + 1)..d.ncomp {
            if label_of_comp[a].is_some() && label_of_comp[a] == label_of_comp[b] {
                out.push((
                    "dbscan:components-merged",
                    format!("[{cv}] density-connected components {a} and {b} share label {:?}", label_of_comp[a]),
                ));
            }
        }
    }
    // a border point carries the label of some core point that reaches it
    for i in 0..n {
        if d.is_border(i) {
            if let Some(l) = labels[i] {
                let ok = d.nb[i].iter().any(|&j| d.core[j] && labels[j] == Some(l));
                if !ok {
                    out.push((
                        "dbscan:border-label",
                        format!("[{cv}] border point {i} carries label {l}, which no core point within the tolerance carries"),
                    ));
                }
            }
        }
    }
    // labels are 0..c-1 without gaps
    let mut used: Vec<usize> = labels.iter().flatten().copied().collect();
    used.sort_unstable();
    used.dedup();
    if used.iter().enumerate().any(|(k, &l)| k != l) {
        out.push(("dbscan:label-gap", format!("[{cv}] labels in use are {:?}, not 0..{}", used, used.len())));
    }
    out
}

#[derive(Debug, Clone, PartialEq)]
pub struct OSample {
    pub index: usize,
    pub core: Option<f64>,
    pub reach: Option<f64>,
}

/// Core distance by the definition: distance to the `min_points`-th nearest point (itself included)
/// when that lies within the tolerance.
pub fn core_distance(g: &Geometry, i: usize, min_points: usize, conv: Conv) -> Option<f64> {
    let mut row: Vec<f64> = g.dm[i].clone();
    row.sort_by(|a, b| a.partial_cmp(b).unwrap_or(std::cmp::Ordering::Equal));
    row.get(min_points.checked_sub(1)?).copied().filter(|&d| conv.within(d, g.tol))
}

pub struct OpticsVerdict {
    pub violations: Violations,
    /// number of samples whose reachability is smaller than what the first listed core point
    /// within the tolerance offered (it was lowered after first being set)
    pub lowered: usize,
    pub defined_reach: usize,
    pub defined_core: usize,
    /// the reported core distances are all the definitional ones
    pub cores_exact: bool,
}

/// Every clause of the OPTICS half of the statement, checked against a listing.
pub fn optics_violations(g: &Geometry, d: &Density, min_points: usize, s: &[OSample]) -> OpticsVerdict {
    let mut v = OpticsVerdict { violations: vec![], lowered: 0, defined_reach: 0, defined_core: 0, cores_exact: true };
    let n = g.n;
    let cv = d.conv.name();
    // every sample exactly once
    let mut pos: Vec<Option<usize>> = vec![None; n];
    let mut perm_ok = s.len() == n;
    for (p, x) in s.iter().enumerate() {
        match pos.get(x.index) {
            Some(None) => pos[x.index] = Some(p),
            _ => perm_ok = false,
        }
    }
    if !perm_ok || pos.iter().any(|p| p.is_none()) {
        let listed: Vec<usize> = s.iter().map(|x| x.index).collect();
        v.violations.push(("optics:not-a-permutation", format!("listing of {n} samples has indices {:?}", listed)));
        v.cores_exact = false;
        return v;
    }
    let pos: Vec<usize> = pos.into_iter().flatten().collect();
    // core distances
    for x in s {
        let i = x.index;
        let want = core_distance(g, i, min_points, d.conv);
        if want.is_some() {
            v.defined_core += 1;
        }
        match (x.core, want) {
            (None, None) => {}
            (Some(a), Some(b)) if close(a, b) => {}
            (Some(a), Some(b)) => {
                v.cores_exact = false;
                // the recognised defect: the (min_points-1)-th entry of the neighbour list *in index order*
                let by_index = d.nb[i].get(min_points - 1).map(|&j| g.dm[i][j]);
                if by_index.map_or(false, |w| close(a, w)) {
                    v.violations.push((
                        "optics:core-distance:neighbour-list-order",
                        format!(
                            "[{cv}] sample {i}: core distance {a} is the distance to the {}-th neighbour in index order; the {}-th nearest point is at {b}",
                            min_points, min_points
                        ),
                    ));
                } else {
                    v.violations.push((
                        "optics:core-distance",
                        format!("[{cv}] sample {i}: core distance {a}, distance to the {min_points}-th nearest point (itself included) is {b}"),
                    ));
                }
            }
            (a, b) => {
                v.cores_exact = false;
                v.violations.push((
                    "optics:core-defined-mismatch",
                    format!(
                        "[{cv}] sample {i}: core distance reported {:?}, definition gives {:?} ({} points within the tolerance, min_points {min_points})",
                        a,
                        b,
                        d.nb[i].len()
                    ),
                ));
            }
        }
    }
    // reachability: undefined, or max(core(o), d(o,i)) for a core o within the tolerance listed no later.
    // The reported core distance of o is used (its own correctness is judged above), so one wrong
    // core distance is not reported a second time through every reachability that refers to it.
    let rep_core: Vec<Option<f64>> = {
        let mut c = vec![None; n];
        for x in s {
            c[x.index] = x.core;
        }
        c
    };
    for x in s {
        let i = x.index;
        let r = match x.reach {
            None => continue,
            Some(r) => r,
        };
        v.defined_reach += 1;
        let offers: Vec<(usize, f64)> = d.nb[i]
            .iter()
            .filter_map(|&o| rep_core[o].map(|c| (o, c.max(g.dm[o][i]))))
            .collect();
        let explained_earlier = offers.iter().any(|&(o, val)| pos[o] <= pos[i] && close(r, val));
        if explained_earlier {
            // lowered after first being set: the earliest listed core neighbour offered more
            if let Some(&(_, first_val)) = offers.iter().filter(|&&(o, _)| pos[o] < pos[i]).min_by_key(|&&(o, _)| pos[o]) {
                if r < first_val && !close(r, first_val) {
                    v.lowered += 1;
                }
            }
            continue;
        }
        let later: Vec<usize> = offers.iter().filter(|&&(o, val)| pos[o] > pos[i] && close(r, val)).map(|&(o, _)| o).collect();
        if later.is_empty() {
            v.violations.push((
                "optics:reach-unexplained",
                format!(
                    "[{cv}] sample {i} (position {}): reachability {r} equals max(core(o), d(o,i)) for no core point o within the tolerance; offers (o, value): {:?}",
                    pos[i], offers
                ),
            ));
            continue;
        }
        // recognised defect: o opened the walk (every lower index is already listed before i), was put
        // into its own seed list with reachability core(o), and lost the tie against i (higher index wins)
        let start_point = later.iter().copied().find(|&o| {
            o < i
                && rep_core[o].map_or(false, |c| close(r, c) && (g.dm[o][i] <= c || close(g.dm[o][i], c)))
                && (0..o).all(|k| pos[k] < pos[i])
        });
        match start_point {
            Some(o) => v.violations.push((
                "optics:reach-refers-to-later-start-point",
                format!(
                    "[{cv}] sample {i} (position {}) has reachability {r} = core distance of sample {o}, the point that opened the walk, which is listed later (position {}); no core point listed earlier explains the value",
                    pos[i], pos[o]
                ),
            )),
            None => v.violations.push((
                "optics:reach-refers-to-later-core",
                format!(
                    "[{cv}] sample {i} (position {}): reachability {r} is explained only by core points listed later: {:?}",
                    pos[i], later
                ),
            )),
        }
    }
    v
}
