//! The only place that calls into linfa: DBSCAN and OPTICS through their public builders, for a
//! chosen metric and neighbour index.

use crate::oracle::{Metric, OSample};
use linfa::traits::Transformer;
use linfa::DatasetBase;
use linfa_clustering::{Dbscan, Optics};
use linfa_nn::distance::{Distance, L1Dist, L2Dist, LInfDist};
use linfa_nn::CommonNearestNeighbour;
use ndarray::Array2;

pub const INDICES: [(CommonNearestNeighbour, &str); 3] = [
    (CommonNearestNeighbour::LinearSearch, "LinearSearch"),
    (CommonNearestNeighbour::KdTree, "KdTree"),
    (CommonNearestNeighbour::BallTree, "BallTree"),
];

pub fn to_array(pts: &[Vec<f64>], dim: usize) -> Option<Array2<f64>> {
    let flat: Vec<f64> = pts.iter().flat_map(|r| r.iter().copied()).collect();
    Array2::from_shape_vec((pts.len(), dim), flat).ok()
}

fn dbscan_with<D: Distance<f64>>(
    x: &Array2<f64>,
    min_points: usize,
    tol: f64,
    d: D,
    nn: CommonNearestNeighbour,
    through_dataset: bool,
) -> Result<Vec<Option<usize>>, String> {
    let params = Dbscan::params_with::<f64, D, CommonNearestNeighbour>(min_points, d, nn).tolerance(tol);
    if through_dataset {
        let ds = DatasetBase::from(x.clone());
        let out: Result<DatasetBase<Array2<f64>, ndarray::Array1<Option<usize>>>, _> = params.transform(ds);
        out.map(|o| o.targets().to_vec()).map_err(|e| e.to_string())
    } else {
        let out: Result<ndarray::Array1<Option<usize>>, _> = params.transform(x);
        out.map(|a| a.to_vec()).map_err(|e| e.to_string())
    }
}

pub fn dbscan(
    x: &Array2<f64>,
    min_points: usize,
    tol: f64,
    m: Metric,
    nn: CommonNearestNeighbour,
    through_dataset: bool,
) -> Result<Vec<Option<usize>>, String> {
    match m {
        Metric::L1 => dbscan_with(x, min_points, tol, L1Dist, nn, through_dataset),
        Metric::L2 => dbscan_with(x, min_points, tol, L2Dist, nn, through_dataset),
        Metric::LInf => dbscan_with(x, min_points, tol, LInfDist, nn, through_dataset),
    }
}

fn optics_with<D: Distance<f64>>(
    x: &Array2<f64>,
    min_points: usize,
    tol: f64,
    d: D,
    nn: CommonNearestNeighbour,
) -> Result<Vec<OSample>, String> {
    let params = Optics::params_with::<f64, D, CommonNearestNeighbour>(min_points, d, nn).tolerance(tol);
    let out: Result<linfa_clustering::OpticsAnalysis<f64>, _> = params.transform(x.view());
    out.map(|a| {
        a.iter()
            .map(|s| OSample { index: s.index(), core: *s.core_distance(), reach: *s.reachability_distance() })
            .collect()
    })
    .map_err(|e| e.to_string())
}

pub fn optics(x: &Array2<f64>, min_points: usize, tol: f64, m: Metric, nn: CommonNearestNeighbour) -> Result<Vec<OSample>, String> {
    match m {
        Metric::L1 => optics_with(x, min_points, tol, L1Dist, nn),
        Metric::L2 => optics_with(x, min_points, tol, L2Dist, nn),
        Metric::LInf => optics_with(x, min_points, tol, LInfDist, nn),
    }
}

fn relation_with<D: Distance<f64> + 'static>(x: &Array2<f64>, tol: f64, d: D, nn: CommonNearestNeighbour) -> Result<Vec<Vec<usize>>, String> {
    use linfa_nn::NearestNeighbour;
    let index = nn.from_batch(x, d).map_err(|e| e.to_string())?;
    let mut out = Vec::with_capacity(x.nrows());
    for row in x.rows() {
        let mut v: Vec<usize> = index.within_range(row, tol).map_err(|e| e.to_string())?.into_iter().map(|(_, i)| i).collect();
        v.sort_unstable();
        out.push(v);
    }
    Ok(out)
}

/// What the index itself answers to "which samples are within `tol` of sample i", for every i —
/// the very queries DBSCAN and OPTICS make. Used in the tie class only, to learn which convention
/// (`<` or `<=`) the index applies to pairs at a distance of exactly `tol`.
pub fn relation(x: &Array2<f64>, tol: f64, m: Metric, nn: CommonNearestNeighbour) -> Result<Vec<Vec<usize>>, String> {
    match m {
        Metric::L1 => relation_with(x, tol, L1Dist, nn),
        Metric::L2 => relation_with(x, tol, L2Dist, nn),
        Metric::LInf => relation_with(x, tol, LInfDist, nn),
    }
}
