//! The only place that calls into linfa: DBSCAN and OPTICS through their public builders, for a
//! chosen metric and neighbour index.

use crate::oracle::{Metric, OSample};
use linfa::traits::Transformer;
use linfa::DatasetBase;
use linfa_clustering::{Dbscan, Optics};
use linfa_nn::distance::{Distance, L1Dist, L2Dist, LInfDist};
use linfa_nn::CommonNearestNeighbour;
use ndarray::{s, Array2, ArrayView2, ShapeBuilder};

pub const INDICES: [(CommonNearestNeighbour, &str); 3] = [
    (CommonNearestNeighbour::LinearSearch, "LinearSearch"),
    (CommonNearestNeighbour::KdTree, "KdTree"),
    (CommonNearestNeighbour::BallTree, "BallTree"),
];

/// Memory layouts in which the same logical n x d records are handed to linfa.
pub const LAYOUTS: [&str; 7] = [
    "layout_row_major",
    "layout_column_major",
    "layout_row_gaps",
    "layout_strided_both_axes",
    "layout_reversed_rows",
    "layout_reversed_columns",
    "layout_transposed_view",
];
const JUNK: f64 = 7777.25;

/// Records in one of the `LAYOUTS`: a backing buffer plus the view of it that shows the logical data.
pub struct Laid {
    backing: Array2<f64>,
    kind: u8,
    n: usize,
    d: usize,
}

impl Laid {
    pub fn new(std: &Array2<f64>, kind: u8) -> Laid {
        let (n, d) = std.dim();
        let kind = kind % LAYOUTS.len() as u8;
        let backing = match kind {
            // column-major (Fortran order) owned array
            1 => Array2::from_shape_fn((n, d).f(), |(i, j)| std[(i, j)]),
            // one junk column left and right of the data: rows contiguous, rows not adjacent
            2 => Array2::from_shape_fn((n, d + 2), |(i, j)| if j >= 1 && j <= d { std[(i, j - 1)] } else { JUNK }),
            // every second row and every second column of a junk-filled buffer
            3 => Array2::from_shape_fn((2 * n, 2 * d), |(i, j)| if i % 2 == 0 && j % 2 == 0 { std[(i / 2, j / 2)] } else { JUNK }),
            // stored bottom-up, shown through a view with negative row stride
            4 => Array2::from_shape_fn((n, d), |(i, j)| std[(n - 1 - i, j)]),
            // stored right-to-left, shown through a view with negative column stride
            5 => Array2::from_shape_fn((n, d), |(i, j)| std[(i, d - 1 - j)]),
            // features x samples, shown transposed
            6 => Array2::from_shape_fn((d, n), |(j, i)| std[(i, j)]),
            _ => std.clone(),
        };
        Laid { backing, kind, n, d }
    }
    pub fn view(&self) -> ArrayView2<f64> {
        let (n, d) = (self.n, self.d);
        match self.kind {
            2 => self.backing.slice(s![.., 1..d + 1]),
            3 => self.backing.slice(s![..;2, ..;2]),
            4 => self.backing.slice(s![..;-1, ..]),
            5 => self.backing.slice(s![.., ..;-1]),
            6 => self.backing.t(),
            _ => {
                let _ = n;
                self.backing.view()
            }
        }
    }
    pub fn name(&self) -> &'static str {
        LAYOUTS[self.kind as usize]
    }
    /// `KdTree` documents that it panics unless every point is laid out contiguously
    pub fn rows_contiguous(&self) -> bool {
        self.view().rows().into_iter().all(|r| r.to_slice().is_some())
    }
}

pub fn to_array(pts: &[Vec<f64>], dim: usize) -> Option<Array2<f64>> {
    let flat: Vec<f64> = pts.iter().flat_map(|r| r.iter().copied()).collect();
    Array2::from_shape_vec((pts.len(), dim), flat).ok()
}

/// How the hyper-parameters are put together: which constructor, then a sequence of setter calls.
/// Whatever the sequence, the values in force at the end are the case's (`tol`, the index under
/// test): if the last tolerance / index set by the recipe is a decoy, the real one is set after it.
#[derive(Debug, Clone, Copy)]
pub struct Build<'a> {
    /// 0 = `params_with(min_points, dist, index)`, 1 = `params_with(min_points, dist, decoy index)`,
    /// 2 = `params(min_points)` (defaults L2 / KdTree; used for L2 only, otherwise as 1)
    pub ctor: u8,
    /// 0 = tolerance(real), 1 = tolerance(decoy), 2 = nn_algo(real), 3 = nn_algo(decoy), 4 = dist_fn(same metric)
    pub steps: &'a [u8],
}

pub const PLAIN: Build<'static> = Build { ctor: 0, steps: &[] };

fn decoy_index(nn: &CommonNearestNeighbour) -> CommonNearestNeighbour {
    match nn {
        CommonNearestNeighbour::LinearSearch => CommonNearestNeighbour::KdTree,
        CommonNearestNeighbour::KdTree => CommonNearestNeighbour::BallTree,
        _ => CommonNearestNeighbour::LinearSearch,
    }
}

fn decoy_tolerance(tol: f64) -> f64 {
    tol * 3.0 + 1.0
}

/// Runs `steps` through the setters `t` (tolerance), `n` (nn_algo), `d` (dist_fn) and finishes with
/// the real tolerance / index where the recipe left a decoy (or never set the tolerance).
fn apply_steps<P>(
    mut p: P,
    b: Build,
    ctor_index_is_real: bool,
    tol: f64,
    nn: &CommonNearestNeighbour,
    t: impl Fn(P, f64) -> P,
    n: impl Fn(P, CommonNearestNeighbour) -> P,
    d: impl Fn(P) -> P,
) -> P {
    let mut tol_real = false;
    let mut nn_real = ctor_index_is_real;
    for &s in b.steps.iter().take(8) {
        match s {
            0 => {
                p = t(p, tol);
                tol_real = true;
            }
            1 => {
                p = t(p, decoy_tolerance(tol));
                tol_real = false;
            }
            2 => {
                p = n(p, nn.clone());
                nn_real = true;
            }
            3 => {
                p = n(p, decoy_index(nn));
                nn_real = false;
            }
            _ => p = d(p),
        }
    }
    if !nn_real {
        p = n(p, nn.clone());
    }
    if !tol_real {
        p = t(p, tol);
    }
    p
}

fn dbscan_with<D: Distance<f64>>(
    x: ArrayView2<f64>,
    min_points: usize,
    tol: f64,
    d: D,
    nn: CommonNearestNeighbour,
    through_dataset: bool,
    b: Build,
    default_ctor: Option<linfa_clustering::DbscanParams<f64, D, CommonNearestNeighbour>>,
) -> Result<Vec<Option<usize>>, String> {
    let (start, real) = match (b.ctor, default_ctor) {
        (2, Some(p)) => (p, matches!(nn, CommonNearestNeighbour::KdTree)),
        (0, _) => (Dbscan::params_with::<f64, D, CommonNearestNeighbour>(min_points, d.clone(), nn.clone()), true),
        _ => (Dbscan::params_with::<f64, D, CommonNearestNeighbour>(min_points, d.clone(), decoy_index(&nn)), false),
    };
    let params = apply_steps(start, b, real, tol, &nn, |p, v| p.tolerance(v), |p, i| p.nn_algo(i), |p| p.dist_fn(d.clone()));
    if through_dataset {
        let ds = DatasetBase::from(x);
        let out: Result<DatasetBase<ArrayView2<f64>, ndarray::Array1<Option<usize>>>, _> = params.transform(ds);
        out.map(|o| o.targets().to_vec()).map_err(|e| e.to_string())
    } else {
        let out: Result<ndarray::Array1<Option<usize>>, _> = params.transform(&x);
        out.map(|a| a.to_vec()).map_err(|e| e.to_string())
    }
}

pub fn dbscan(
    x: ArrayView2<f64>,
    min_points: usize,
    tol: f64,
    m: Metric,
    nn: CommonNearestNeighbour,
    through_dataset: bool,
    b: Build,
) -> Result<Vec<Option<usize>>, String> {
    match m {
        Metric::L1 => dbscan_with(x, min_points, tol, L1Dist, nn, through_dataset, b, None),
        Metric::L2 => dbscan_with(x, min_points, tol, L2Dist, nn, through_dataset, b, Some(Dbscan::params::<f64>(min_points))),
        Metric::LInf => dbscan_with(x, min_points, tol, LInfDist, nn, through_dataset, b, None),
    }
}

fn optics_with<D: Distance<f64>>(
    x: ArrayView2<f64>,
    min_points: usize,
    tol: f64,
    d: D,
    nn: CommonNearestNeighbour,
    b: Build,
    default_ctor: Option<linfa_clustering::OpticsParams<f64, D, CommonNearestNeighbour>>,
) -> Result<Vec<OSample>, String> {
    let (start, real) = match (b.ctor, default_ctor) {
        (2, Some(p)) => (p, matches!(nn, CommonNearestNeighbour::KdTree)),
        (0, _) => (Optics::params_with::<f64, D, CommonNearestNeighbour>(min_points, d.clone(), nn.clone()), true),
        _ => (Optics::params_with::<f64, D, CommonNearestNeighbour>(min_points, d.clone(), decoy_index(&nn)), false),
    };
    let params = apply_steps(start, b, real, tol, &nn, |p, v| p.tolerance(v), |p, i| p.nn_algo(i), |p| p.dist_fn(d.clone()));
    let out: Result<linfa_clustering::OpticsAnalysis<f64>, _> = params.transform(x);
    out.map(|a| {
        a.iter()
            .map(|s| OSample { index: s.index(), core: *s.core_distance(), reach: *s.reachability_distance() })
            .collect()
    })
    .map_err(|e| e.to_string())
}

pub fn optics(x: ArrayView2<f64>, min_points: usize, tol: f64, m: Metric, nn: CommonNearestNeighbour, b: Build) -> Result<Vec<OSample>, String> {
    match m {
        Metric::L1 => optics_with(x, min_points, tol, L1Dist, nn, b, None),
        Metric::L2 => optics_with(x, min_points, tol, L2Dist, nn, b, Some(Optics::params::<f64>(min_points))),
        Metric::LInf => optics_with(x, min_points, tol, LInfDist, nn, b, None),
    }
}

fn relation_with<D: Distance<f64> + 'static>(x: ArrayView2<f64>, tol: f64, d: D, nn: CommonNearestNeighbour) -> Result<Vec<Vec<usize>>, String> {
    use linfa_nn::NearestNeighbour;
    let index = nn.from_batch(&x, d).map_err(|e| e.to_string())?;
    let mut out = Vec::with_capacity(x.nrows());
    for row in x.rows() {
        let mut v: Vec<usize> = index.within_range(row, tol).map_err(|e| e.to_string())?.into_iter().map(|(_, i)| i).collect();
        v.sort_unstable();
        out.push(v);
    }
    Ok(out)
}

/// What the index itself answers to "which samples are within `tol` of sample i", for every i —
/// the very queries DBSCAN and OPTICS make. Used in the tie class only, to learn which convention
/// (`<` or `<=`) the index applies to pairs at a distance of exactly `tol`.
pub fn relation(x: ArrayView2<f64>, tol: f64, m: Metric, nn: CommonNearestNeighbour) -> Result<Vec<Vec<usize>>, String> {
    match m {
        Metric::L1 => relation_with(x, tol, L1Dist, nn),
        Metric::L2 => relation_with(x, tol, L2Dist, nn),
        Metric::LInf => relation_with(x, tol, LInfDist, nn),
    }
}
