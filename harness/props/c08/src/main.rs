fn main() {
    vengine::main(c08::property())
}
